#!/usr/bin/env python3
"""SMT bounded model checking of schedules for C16 (DESIGN §4).

Input: a JSON file {"threads": {name: [path, ...]}} where each path is the
event sequence of one explored path of that thread's entry, as extracted by
gosym's event mode from the SSA of the real code (Close, Serve, Serve$1,
consumeSingleCommand). The paths of a thread are merged into an event tree;
which edge fires at step k is a solver variable, so every interleaving of the
threads is covered. The unrolling depth K is the sum of the tree depths, i.e.
complete for these bounded threads (the unwinding assertion holds by
construction). All numbers are 8-bit bit-vectors (every counter is tiny).

Reductions (both sound for the properties checked):
  * Lipton reduction of lock...unlock blocks that contain at most one access
    to an object not protected by that lock (see reduce_paths);
  * symmetry breaking between root threads with identical trees.

Output (stdout): JSON with one entry per query: result sat/unsat/unknown,
solver time, and for sat the schedule (the model).
"""
import json
import sys
import time

import z3

W = 8


def BV(name):
    return z3.BitVec(name, W)


def BVV(v):
    return z3.BitVecVal(v, W)


def key(ev):
    if ev["op"] == "atomic":
        return ("atomic",) + tuple(key(x) for x in ev["seq"])
    if ev["op"] == "default":
        return ("default", ev.get("obj", ""), tuple(key(x) for x in ev.get("alts", [])))
    return (ev["op"], ev.get("obj", ""), ev.get("arg", 0), ev.get("outcome", ""))


NOEFFECT_MARKS = {"read_message"}
SHARED_OPS = ("load", "store", "cas", "swap", "add", "wait", "close", "recv", "send", "default", "once_enter", "once_exit")


def reduce_paths(threads):
    """Lipton reduction. A block lock(m) ... unlock(m) (or rlock/runlock) of one
    thread is fused into one atomic step when at most one event inside it
    touches an object that is not protected by m. An object is protected by m
    when every access to it, in every thread, happens inside a block of m:
    such accesses are both-movers, acquire is a right-mover and release a
    left-mover, so the block is a reducible transaction (R* N? L*).
    Marks without any effect on shared or ghost state are dropped."""
    def walk(evs, fn, held=()):
        for ev in evs:
            if ev["op"] in ("lock", "rlock"):
                held = held + (ev["obj"],)
            fn(ev, held)
            if ev["op"] in ("unlock", "runlock"):
                held = tuple(h for h in held if h != ev["obj"])
            if ev.get("spawn"):
                walk(ev["spawn"], fn, ())
    access = {}

    def note(ev, held):
        if ev["op"] in SHARED_OPS:
            access.setdefault(ev["obj"], []).append(frozenset(held))
    for paths in threads.values():
        for p in paths:
            walk(p, note)

    def protected(obj, m):
        return all(m in h for h in access.get(obj, []))

    def block(evs, i):
        """the block opened by the lock event evs[i]: (end index, fusable)"""
        ev = evs[i]
        m = ev["obj"]
        rel = "unlock" if ev["op"] == "lock" else "runlock"
        j = i + 1
        while j < len(evs) and not (evs[j]["op"] == rel and evs[j]["obj"] == m):
            j += 1
        if j >= len(evs):
            return j, False
        inner = evs[i + 1:j]
        nonmovers = [x for x in inner
                     if not (x["op"] in ("load", "store", "cas", "swap") and protected(x["obj"], m))]
        simple = all(x["op"] not in ("lock", "rlock", "unlock", "runlock", "spawn", "wait", "recv", "send", "default", "mark")
                     for x in inner)
        return j, simple and len(nonmovers) <= 1

    # A thread's paths form a tree whose branching must be decided by event
    # outcomes only. Two paths that share the prefix up to a lock event must
    # therefore take the same fuse/no-fuse decision for the block it opens:
    # fusing it on one path and not on the other would give the tree two
    # different edges that both start with that acquire, i.e. a choice the
    # thread commits to before the outcome that distinguishes them is known
    # (a spurious deadlock). Fuse only when every such path's block is fusable.
    fusable = {}

    def survey(evs, scope):
        for i, ev in enumerate(evs):
            if ev.get("spawn"):
                survey(ev["spawn"], scope + ("spawn", i))
            if ev["op"] in ("lock", "rlock"):
                pk = scope + tuple(key(e) for e in evs[:i + 1])
                _, ok = block(evs, i)
                fusable[pk] = fusable.get(pk, True) and ok
    for name, paths in threads.items():
        for p in paths:
            survey(p, (name,))

    def fuse(evs, scope):
        out = []
        i = 0
        while i < len(evs):
            ev = dict(evs[i])
            if ev.get("spawn"):
                ev["spawn"] = fuse(ev["spawn"], scope + ("spawn", i))
            if ev["op"] == "mark" and ev["obj"] in NOEFFECT_MARKS:
                i += 1
                continue
            if ev["op"] in ("lock", "rlock"):
                j, ok = block(evs, i)
                if ok and fusable.get(scope + tuple(key(e) for e in evs[:i + 1]), False):
                    out.append({"op": "atomic", "obj": ev["obj"], "seq": [dict(x) for x in evs[i:j + 1]],
                                "where": ev.get("where", "")})
                    i = j + 1
                    continue
            out.append(ev)
            i += 1
        return out
    return {name: [fuse(p, (name,)) for p in paths] for name, paths in threads.items()}


class Tree:
    def __init__(self, name, paths, root_active):
        self.name = name
        self.root_active = root_active
        self.children = [dict()]
        self.spawns = {}
        for p in paths:
            n = 0
            for ev in p:
                k = key(ev)
                if k not in self.children[n]:
                    self.children.append(dict())
                    self.children[n][k] = (len(self.children) - 1, ev)
                n = self.children[n][k][0]

    def depth(self, n=0):
        if not self.children[n]:
            return 0
        return 1 + max(self.depth(c) for c, _ in self.children[n].values())


def build(spec):
    threads = spec["threads"]
    if spec.get("reduce", True):
        threads = reduce_paths(threads)
    trees = []
    pending = [(name, paths, True) for name, paths in threads.items()]
    while pending:
        name, paths, active = pending.pop(0)
        t = Tree(name, paths, active)
        trees.append(t)
        seen = set()
        for n, kids in enumerate(t.children):
            for k, (c, ev) in kids.items():
                if ev["op"] == "spawn" and (n, k) not in seen:
                    seen.add((n, k))
                    sname = "%s/%s" % (name, ev["obj"])
                    t.spawns[(n, k)] = sname
                    pending.append((sname, [ev.get("spawn", [])], False))
    return trees


GHOST_BOOLS = ("lclosed", "lclosed2", "closeRet", "panicked", "badB", "badC", "badD", "badE", "ranHandler", "serveNil")


def check(spec):
    trees = build(spec)
    K = spec.get("K") or sum(t.depth() for t in trees)
    assert K < 120
    tix = {t.name: i for i, t in enumerate(trees)}
    edges = []
    for ti, t in enumerate(trees):
        for n, kids in enumerate(t.children):
            for k, (c, ev) in kids.items():
                edges.append((ti, n, c, ev, t.spawns.get((n, k))))
    flat = []
    for (_, _, _, ev, _) in edges:
        flat.extend(ev["seq"] if ev["op"] == "atomic" else [ev])
    atoms, wgs, chans, onces, locks = set(), set(), set(), set(), set()
    flat = flat + [a for ev in flat if ev["op"] == "default" for a in ev.get("alts", [])]
    for ev in flat:
        op, obj = ev["op"], ev.get("obj", "")
        if op in ("load", "store", "cas", "swap"):
            atoms.add(obj)
        elif op in ("add", "wait"):
            wgs.add(obj)
        elif op in ("close", "recv", "send"):
            chans.add(obj)
        elif op in ("once_enter", "once_exit"):
            onces.add(obj)
        elif op in ("lock", "unlock", "rlock", "runlock"):
            locks.add(obj)

    def vars_at(k):
        s = {}
        for ti, _ in enumerate(trees):
            s[("pc", ti)] = BV("pc_%d_%d" % (ti, k))
            s[("act", ti)] = z3.Bool("act_%d_%d" % (ti, k))
        for a in atoms:
            s[("atom", a)] = z3.Bool("atom_%s_%d" % (a, k))
        for w in wgs:
            s[("wg", w)] = BV("wg_%s_%d" % (w, k))
        for c in chans:
            s[("closed", c)] = z3.Bool("closed_%s_%d" % (c, k))
            s[("cnt", c)] = BV("cnt_%s_%d" % (c, k))
        for o in onces:
            s[("once", o)] = BV("once_%s_%d" % (o, k))
        for l in locks:
            s[("wr", l)] = z3.Bool("wr_%s_%d" % (l, k))
            s[("rd", l)] = BV("rd_%s_%d" % (l, k))
        for g in GHOST_BOOLS:
            s[g] = z3.Bool("%s_%d" % (g, k))
        s["running"] = BV("running_%d" % k)
        s["nCloseRet"] = BV("ncloseret_%d" % k)
        s["nServeNil"] = BV("nservenil_%d" % k)
        return s

    S = [vars_at(k) for k in range(K + 1)]
    fire = [BV("fire_%d" % k) for k in range(K)]
    cons = []
    s0 = S[0]
    for ti, t in enumerate(trees):
        cons.append(s0[("pc", ti)] == 0)
        cons.append(s0[("act", ti)] == t.root_active)
    for a in atoms:
        cons.append(z3.Not(s0[("atom", a)]))
    for w in wgs:
        cons.append(s0[("wg", w)] == 0)
    for c in chans:
        cons.append(z3.Not(s0[("closed", c)]))
        cons.append(s0[("cnt", c)] == 0)
    for o in onces:
        cons.append(s0[("once", o)] == 0)
    for l in locks:
        cons.append(z3.Not(s0[("wr", l)]))
        cons.append(s0[("rd", l)] == 0)
    for g in GHOST_BOOLS:
        cons.append(z3.Not(s0[g]))
    cons.append(s0["running"] == 0)
    cons.append(s0["nCloseRet"] == 0)
    cons.append(s0["nServeNil"] == 0)

    def guard(ev, s):
        op, obj, arg, out = ev["op"], ev.get("obj", ""), ev.get("arg", 0), ev.get("outcome", "")
        if op == "load":
            return s[("atom", obj)] == (out == "true")
        if op == "cas":
            old = (arg // 2) == 1
            return (s[("atom", obj)] == old) == (out == "true")
        if op == "swap":
            return s[("atom", obj)] == (out == "true")
        if op == "wait":
            return s[("wg", obj)] == 0
        if op == "recv":
            # buffered items are delivered first, also on a closed channel
            if out == "ok":
                return s[("cnt", obj)] != 0
            if out == "closed":
                return z3.And(s[("cnt", obj)] == 0, s[("closed", obj)])
            return z3.Or(s[("cnt", obj)] != 0, s[("closed", obj)])
        if op == "send":
            # buffered channel of capacity arg (a send on a closed channel is
            # enabled too: it panics)
            return z3.Or(z3.ULT(s[("cnt", obj)], BVV(arg)), s[("closed", obj)])
        if op == "default":
            return z3.And([z3.Not(guard(a, s)) for a in ev.get("alts", [])] or [z3.BoolVal(True)])
        if op == "once_enter":
            return s[("once", obj)] == (0 if out == "first" else 2)
        if op == "lock":
            return z3.And(z3.Not(s[("wr", obj)]), s[("rd", obj)] == 0)
        if op == "rlock":
            return z3.Not(s[("wr", obj)])
        if op == "mark" and obj == "accept":
            return s["lclosed"]
        if op == "mark" and obj == "accept2":
            return s["lclosed2"]
        return z3.BoolVal(True)

    def effects(ev, s):
        op, obj, arg, out = ev["op"], ev.get("obj", ""), ev.get("arg", 0), ev.get("outcome", "")
        e = {}
        if op == "store":
            e[("atom", obj)] = z3.BoolVal(arg == 1)
        elif op == "cas" and out == "true":
            e[("atom", obj)] = z3.BoolVal((arg % 2) == 1)
        elif op == "swap":
            e[("atom", obj)] = z3.BoolVal(arg == 1)
        elif op == "add":
            e[("wg", obj)] = s[("wg", obj)] + BVV(arg)
            if arg < 0:
                e["panicked"] = z3.Or(s["panicked"], (s[("wg", obj)] + BVV(arg)) < 0)  # negative counter
        elif op == "recv":
            e[("cnt", obj)] = z3.If(s[("cnt", obj)] != 0, s[("cnt", obj)] - 1, s[("cnt", obj)])
        elif op == "send":
            e[("cnt", obj)] = z3.If(s[("closed", obj)], s[("cnt", obj)], s[("cnt", obj)] + 1)
            e["panicked"] = z3.Or(s["panicked"], s[("closed", obj)])  # send on closed channel
        elif op == "close":
            e[("closed", obj)] = z3.BoolVal(True)
            e["panicked"] = z3.Or(s["panicked"], s[("closed", obj)])  # close of closed channel
        elif op == "once_enter" and out == "first":
            e[("once", obj)] = BVV(1)
        elif op == "once_exit":
            e[("once", obj)] = BVV(2)
        elif op == "lock":
            e[("wr", obj)] = z3.BoolVal(True)
        elif op == "unlock":
            e[("wr", obj)] = z3.BoolVal(False)
        elif op == "rlock":
            e[("rd", obj)] = s[("rd", obj)] + 1
        elif op == "runlock":
            e[("rd", obj)] = s[("rd", obj)] - 1
        elif op == "mark":
            if obj == "lclose":
                e["lclosed"] = z3.BoolVal(True)
            elif obj == "lclose2":
                e["lclosed2"] = z3.BoolVal(True)
            elif obj == "handler_start":
                e["running"] = s["running"] + 1
                e["badB"] = z3.Or(s["badB"], s["closeRet"])
                e["ranHandler"] = z3.BoolVal(True)
            elif obj == "handler_end":
                e["running"] = s["running"] - 1
            elif obj == "close_returned":
                e["closeRet"] = z3.BoolVal(True)
                e["nCloseRet"] = s["nCloseRet"] + 1
                e["badC"] = z3.Or(s["badC"], s["running"] > 0)
            elif obj == "serve_err":
                e["badD"] = z3.BoolVal(True)
            elif obj == "serve_nil":
                e["serveNil"] = z3.BoolVal(True)
                e["nServeNil"] = s["nServeNil"] + 1
        return e

    def apply(ev, s):
        if ev["op"] != "atomic":
            st = dict(s)
            st.update(effects(ev, s))
            return guard(ev, s), st
        g = z3.BoolVal(True)
        st = dict(s)
        for x in ev["seq"]:
            gx, st = apply(x, st)
            g = z3.And(g, gx)
        return g, st

    nonleaf = [[nn for nn, kids in enumerate(t.children) if kids] for t in trees]
    leaf = [[nn for nn, kids in enumerate(t.children) if not kids] for t in trees]
    for k in range(K):
        s, n = S[k], S[k + 1]
        cons.append(z3.And(fire[k] >= -1, fire[k] < len(edges)))
        enabled = []
        updates = {}
        for gi, (ti, frm, to, ev, spawned) in enumerate(edges):
            g_ev, st_ev = apply(ev, s)
            en = z3.And(s[("pc", ti)] == frm, s[("act", ti)], g_ev, z3.Not(s["panicked"]))
            enabled.append(en)
            f = fire[k] == gi
            cons.append(z3.Implies(f, en))
            updates.setdefault(("pc", ti), []).append((f, BVV(to)))
            if spawned is not None:
                updates.setdefault(("act", tix[spawned]), []).append((f, z3.BoolVal(True)))
            for vk, val in st_ev.items():
                if val is not s[vk]:
                    updates.setdefault(vk, []).append((f, val))
        idle = fire[k] == -1
        cons.append(z3.Implies(idle, z3.Not(z3.Or(enabled))))  # no idle stutter
        unfinished = z3.Or([z3.And(s[("act", ti)], z3.Or([s[("pc", ti)] == nn for nn in nonleaf[ti]] or [z3.BoolVal(False)]))
                            for ti, _ in enumerate(trees)])
        updates.setdefault("badE", []).append((z3.And(idle, unfinished, z3.Not(s["panicked"])), z3.BoolVal(True)))
        for vk in s:
            val = s[vk]
            for cond, v in updates.get(vk, []):
                val = z3.If(cond, v, val)
            cons.append(n[vk] == val)

    # symmetry breaking between interchangeable root threads
    if spec.get("symmetry", True):
        sig = {}
        for ti, t in enumerate(trees):
            if t.root_active:
                sig.setdefault(json.dumps([sorted(map(str, kids.keys())) for kids in t.children]), []).append(ti)
        for group in sig.values():
            for a, b in zip(group, group[1:]):
                fa, fb = BVV(K), BVV(K)
                for k in reversed(range(K)):
                    fa = z3.If(z3.And(S[k][("pc", a)] == 0, S[k + 1][("pc", a)] != 0), BVV(k), fa)
                    fb = z3.If(z3.And(S[k][("pc", b)] == 0, S[k + 1][("pc", b)] != 0), BVV(k), fb)
                cons.append(z3.ULE(fa, fb))

    last = S[K]
    all_done = z3.And([z3.Or(z3.Not(last[("act", ti)]), z3.Or([last[("pc", ti)] == nn for nn in leaf[ti]]))
                       for ti, _ in enumerate(trees)])
    nclose = sum(1 for t in trees if t.name.startswith("close"))
    nserve = sum(1 for t in trees if t.name.startswith("serve") and "/" not in t.name)
    queries = [
        ("a-no-panic", last["panicked"]),
        ("b-no-handler-after-close-returned", last["badB"]),
        ("c-close-returns-only-after-handlers", last["badC"]),
        ("d-serve-returns-nil", last["badD"]),
        ("e-no-deadlock", last["badE"]),
        ("w-graceful-run", z3.And(all_done, last["ranHandler"] if spec.get("need_handler", True) else z3.BoolVal(True),
                                  last["serveNil"], last["nServeNil"] == nserve, last["nCloseRet"] == nclose,
                                  z3.Not(last["panicked"]), z3.Not(last["badB"]), z3.Not(last["badC"]),
                                  z3.Not(last["badE"]))),
    ]
    results = []
    for name, goal in queries:
        if spec.get("only") and name not in spec["only"]:
            continue
        t0 = time.time()
        if spec.get("tactic", True):
            solver = z3.Then("simplify", "propagate-values", "solve-eqs", "bit-blast", "sat").solver()
        else:
            solver = z3.Solver()
        solver.set("timeout", int(spec.get("timeout_ms", 900000)))
        solver.add(cons)
        solver.add(goal)
        r = solver.check()
        entry = {"name": name, "result": str(r), "time_s": round(time.time() - t0, 2)}
        if r == z3.sat:
            m = solver.model()
            sched = []
            for k in range(K):
                g = m.eval(fire[k], model_completion=True).as_signed_long()
                if g < 0:
                    continue
                ti, frm, to, ev, spawned = edges[g]
                for x in (ev["seq"] if ev["op"] == "atomic" else [ev]):
                    sched.append({"thread": trees[ti].name, "op": x["op"], "obj": x.get("obj", ""), "arg": x.get("arg", 0),
                                  "outcome": x.get("outcome", ""), "where": x.get("where", "")})
            entry["schedule"] = sched
        results.append(entry)
    return {"K": K, "threads": [t.name for t in trees], "edges": len(edges), "constraints": len(cons),
            "tree_nodes": sum(len(t.children) for t in trees), "queries": results}


if __name__ == "__main__":
    spec = json.load(open(sys.argv[1]))
    if len(sys.argv) > 2:
        spec["only"] = sys.argv[2].split(",")
    json.dump(check(spec), sys.stdout, indent=1)

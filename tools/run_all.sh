#!/bin/bash
# usage: tools/run_all.sh [quick|thorough] [ids...]   — runs the registered checks on /repo's unchanged
# tree one after the other, rewrites /verif/evidence/<id>.json, prints one summary line per property.
# Exit 1 if any check exits non-zero or prints VIOLATION / INCONCLUSIVE.
tier=${1:-quick}; shift
ids="$@"; [ -n "$ids" ] || ids=$(seq -f "C%02g" 1 20)
[ -z "$(git -C /repo status --short)" ] || { echo "/repo not clean"; exit 2; }
bad=0
for id in $ids; do
  t0=$(date +%s)
  out=$(cd /verif && ./check $id --tier $tier 2>&1); rc=$?
  t1=$(date +%s)
  n=$(echo "$out" | grep -cE '^(VIOLATION|INCONCLUSIVE|UNCONFIRMED|KNOWN-FINDING)')
  echo "$id rc=$rc ${n} alarm/inconclusive lines $((t1-t0))s :: $(echo "$out" | grep -E '^OK' | tail -1 | cut -c1-150)"
  if [ $rc -ne 0 ] || [ $n -ne 0 ]; then bad=1; echo "$out" | grep -E '^(VIOLATION|INCONCLUSIVE|UNCONFIRMED|KNOWN-FINDING)' | cut -c1-300 | head -5; fi
done
exit $bad

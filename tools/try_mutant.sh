#!/bin/bash
# usage: try_mutant.sh <worktree-dir> <seed-id> <property> [tier]
# 1. confirms the mutant in its scratch worktree (suite passes, demo fails with the change, passes without)
# 2. applies patch.diff to /repo, runs the property's check, reverts /repo
# 3. stores the mutant under /verif/seeded/<seed-id>/
set -u
export GOFLAGS=-mod=mod GOPROXY=off GOSUMDB=off GOTOOLCHAIN=local
W=$1; ID=$2; PROP=$3; TIER=${4:-quick}
M=$W/_mutant
[ -f $M/patch.diff ] || { echo "no patch.diff"; exit 2; }
place=$(python3 -c "import json;print(json.load(open('$M/meta.json')).get('demo_place_at',''))")
tname=$(python3 -c "import json;print(json.load(open('$M/meta.json')).get('demo_test_name',''))")
demo=$W/${place#./}
echo "== mutant $ID ($PROP): demo=$place test=$tname"
cd $W
git checkout -q -- . 2>/dev/null
# files the patch creates are untracked leftovers of the author's own run
grep -A1 '^--- /dev/null' $M/patch.diff | grep '^+++ b/' | sed 's|^+++ b/||' | while read f; do rm -f "$W/$f"; done
git apply $M/patch.diff || { echo "patch does not apply in worktree"; exit 2; }
pkgdir=$(dirname ${place#./})
# suite with change, without demo
mv $demo $M/_demo_hold.go
suite=$(go test -vet=off -count=1 ./... 2>&1 | grep -v "no test files" | tr '\n' ' ')
mv $M/_demo_hold.go $demo
echo "with change, suite: $suite"
with=$(cd $W/$pkgdir && go test -vet=off -count=1 -run "^${tname}\$" . 2>&1 | tail -1)
echo "with change, demo: $with"
git apply -R $M/patch.diff
without=$(cd $W/$pkgdir && go test -vet=off -count=1 -run "^${tname}\$" . 2>&1 | tail -1)
echo "without change, demo: $without"
git apply $M/patch.diff
# now against a scratch clone of /repo (never /repo itself), evidence redirected
S=$(mktemp -d /tmp/trymut.XXXXXX)
git clone -q /repo $S/repo || exit 2
if ! (cd $S/repo && git apply $M/patch.diff 2>$M/apply.err); then echo "patch does not apply to /repo HEAD: $(head -3 $M/apply.err)"; rm -rf $S; exit 3; fi
(cd $S/repo && go build ./...) || { echo "does not build on /repo HEAD"; rm -rf $S; exit 3; }
export GOSYM_EVIDENCE_DIR=$S/evidence; mkdir -p $S/evidence
cd /verif
out=$(./check $PROP --tier $TIER -repo $S/repo 2>&1)
rc=$?
echo "$out" | grep -E "VIOLATION|^  Verif|^  [a-z]-|^OK|KNOWN" | cut -c1-260 | head -12
echo "$out" | grep -E "UNCONFIRMED|INCONCLUSIVE" | cut -c1-260 | head -6
echo "check exit=$rc"
rm -rf $S
mkdir -p /verif/seeded/$ID
cp $M/patch.diff /verif/seeded/$ID/patch.diff
cp $M/demo_test.go.txt /verif/seeded/$ID/demo_test.go.txt
python3 - <<PY
import json
m=json.load(open('$M/meta.json'))
m['seed_id']='$ID'
m['confirmed']={'suite_with_change':"""$suite""",'demo_with_change':"""$with""",'demo_without_change':"""$without"""}
m['check_run']={'property':'$PROP','tier':'$TIER','exit':$rc,'detected':$rc==1}
json.dump(m,open('/verif/seeded/$ID/meta.json','w'),indent=1)
PY

#!/usr/bin/env python3
"""Regenerates /verif/MANIFEST.json from the table below (kept next to the registry in engine/cmd/gosym/props*.go)."""
import json, sys

ALL = ["C%02d" % i for i in range(1, 21)]

# id -> (level category, level text, level note, technique, design ref)
CLAIMED = {
 "C03": ("model_checking",
         "Bounded symbolic model checking of buffer.Reader's real code (go/ssa -> SMT): for every client byte stream of up to 5+N bytes, every declared length, every segmentation (symbolic short reads) and every leftover pre-state, ReadTypedMsg equals an independent reference framing function; for every body of up to N bytes and every sequence of accessor calls, the accessors equal an independent cursor and never panic. The solver decides every assertion for all inputs in the bound; counterexamples are replayed natively before being reported.",
         "Bounds: quick N=3/5, thorough N=5/6, limit L=8, 2-3 accessor calls. Trusted: bufio.Reader internals below the BufferedReader interface, z3 (cross-checked on z3 5.1/cvc5 in the thorough tier), the engine's SSA semantics (validated by replaying witness models natively).",
         "symbolic execution of go/ssa with SMT-decided assertions (z3), differential against a reference decoder",
         "DESIGN.md §7 C03"),
}

def main():
    checks = []
    for pid in ALL:
        if pid not in CLAIMED:
            continue
        cat, text, note, tech, ref = CLAIMED[pid]
        checks.append({
            "property_id": pid,
            "quick_cmd": "./check %s --tier quick" % pid,
            "thorough_cmd": "./check %s --tier thorough" % pid,
            "evidence_file": "/verif/evidence/%s.json" % pid,
            "replay_cmd_template": "./check replay {path}",
            "engine": "gosym",
            "level_claimed": {"category": cat, "text": text, "design_ref": ref},
            "level_note": note,
            "technique": tech,
        })
    na = [{"property_id": p, "reason": NA.get(p, "check not built yet in this session (work in progress; see DESIGN.md §7 for the planned harness)")} for p in ALL if p not in CLAIMED]
    m = {
        "version": 1,
        "setup_cmd": "cd /verif/engine && GOFLAGS=-mod=mod GOPROXY=off GOSUMDB=off GOTOOLCHAIN=local go build -o /verif/bin/gosym ./cmd/gosym",
        "hooks": {
            "guard": "verif",
            "enable": "none needed: harnesses are injected into the build of /repo's current working tree through go/packages overlays (symbolic) and `go test -overlay` (native replay); nothing is written into /repo",
            "baseline_off_cmd": "cd /repo && GOFLAGS=-mod=mod GOPROXY=off GOSUMDB=off go test -vet=off -count=1 -timeout 25m ./...",
            "source_commits": [],
            "add_only": True,
        },
        "engines": [{
            "name": "gosym", "path": "/verif/engine",
            "serves_properties": sorted(CLAIMED),
            "kind_free_text": "own symbolic executor for go/ssa (x/tools v0.29.0) emitting SMT-LIB2 to one long-lived z3 per worker; forking by re-execution; harnesses are in-package Go functions replayed natively from solver models",
        }],
        "checks": checks,
        "not_applicable": na,
        "notes": "Exit 0 with INCONCLUSIVE lines means: no violation could be demonstrated, and the evidence lists what was not discharged. VIOLATION is printed only for a solver counterexample that reproduced against the native build.",
    }
    json.dump(m, open("/verif/MANIFEST.json", "w"), indent=1)
    print("claimed:", sorted(CLAIMED), "not_applicable:", [x["property_id"] for x in na])

NA = {}
if __name__ == "__main__":
    main()

#!/usr/bin/env python3
"""Regenerates /verif/MANIFEST.json from the table below (kept next to the registry in engine/cmd/gosym/props*.go)."""
import json, sys

ALL = ["C%02d" % i for i in range(1, 21)]

# id -> (level category, level text, level note, technique, design ref)
TECH = 'symbolic execution of go/ssa (real code) with SMT-decided assertions (z3; z3 5.1/cvc5 diff in thorough tier), differential against an independent reference; counterexamples replayed natively'
TRUST = "Trusted: the engine's SSA semantics (validated on every run by replaying solver models of the witness points against the native build), z3 (cross-checked with z3 5.1 and cvc5 in the thorough tier), the environment models listed in the evidence 'assumptions'."

def C(text, note, ref):
    return ("model_checking", text, note + " " + TRUST, TECH, ref)

CLAIMED = {
 "C01": C("Server.serve end to end on a valid startup packet with symbolic user/database, a symbolic password-phase message (any type byte, body of arbitrary bytes, possibly cut by EOF), a validator that accepts, rejects or fails, and arbitrary continuation bytes; a monitor over the captured output and the callback trace decides: in every non-accepting case no AuthenticationOk/ParameterStatus/ReadyForQuery is sent, no middleware/parser/statement runs, serve returns an error and the connection is closed; a wrong password is reported with SQLSTATE class 28; the validator sees exactly the client's database, user and password.",
          "Bounds: password body <= 2/4 bytes, continuation <= 5/8 bytes, limit 32. Startup packet well-formed.", "DESIGN.md §7 C01"),
 "C02": C("Bounded symbolic model checking of buffer.Writer and every backend message builder against an independent strict grammar (type, length = 4+body, body parses exactly): framing kernel under arbitrary operation sequences and transport write failures, ErrorResponse for solver-chosen decorator nestings, RowDescription/DataRow/CopyInResponse/CommandComplete for symbolic columns, values and tags, and the same grammar applied to the whole capture of the session-level harnesses with symbolic client input.",
          "Bounds: op sequences <= 4 (quick) / 5, decorator depth 2/3, <= 2 columns, strings <= 2 bytes, histories K=2/3. User-supplied text is assumed NUL-free; pgx codecs are modelled by contract.", "DESIGN.md §7 C02"),
 "C03": C("Bounded symbolic model checking of buffer.Reader's real code: for every client byte stream of up to 5+N bytes, every declared length, every segmentation (symbolic short reads) and every leftover pre-state, ReadTypedMsg equals an independent reference framing function; for every body of up to N bytes and every sequence of accessor calls, the accessors equal an independent cursor and never panic.",
          "Bounds: N=3/5 (framing), N=5/6 with 2/3 accessor calls, limit L=8. bufio.Reader internals below the BufferedReader interface are trusted in H03a.", "DESIGN.md §7 C03"),
 "C04": C("The engine turns every index/slice/nil-dereference/type-assertion failure of the real code into a solver-decided branch, so 'no input can crash the server' is decided as the absence of a feasible escaping panic over: one client message of ANY type byte with an arbitrary body (and arbitrary trailing bytes) from a session with live statement/portal whose callbacks use the library's helpers on client data (ParseParameters, Parameter.Scan, the binary COPY row reader); a fresh connection sending arbitrary bytes; serve with the transport failing from a symbolic k-th read or write on (returns within the step budget, connection closed); and every make executed while handling a message carries a size obligation decided for all declared lengths and counts at once.",
          "Bounds: body N=6/8, trailing T=6/10, fresh-connection bytes B=10/14, fault points k<=4 reads / 9 writes, limit 16. Allocation obligations: byte buffers <= max(limit,4096), element counts <= 65535. handleParse's empty loop over the declared 16-bit count is bounded (<=65535 iterations) and kept <=2 in harnesses. 'Other connections continue' = no escaping panic + C15; the real Accept loop is not executed.", "DESIGN.md §7 C04"),
 "C05": C("One inductive step of the result writer from an arbitrary pre-state (closed flag, any 64-bit counter, 0-2 columns) for every operation, which covers operation sequences of any length; plus handleSimpleQuery with a symbolic query text and solver-chosen parser/statement behaviours against a reference cycle automaton (ordered results, single ErrorResponse stops later statements, exactly one ReadyForQuery last, blank query bypasses the parser).",
          "Bounds: query text <= 2/3 bytes (ASCII), parser returns error/0/1/2 statements, statement scripts {row+Complete, error, Complete, row+error}. pgx codecs modelled by contract.", "DESIGN.md §7 C05"),
 "C06": C("Histories of K extended-query messages over known and unknown names run through the real command loop body; a black-box reference automaton written from the protocol text decides each step from client messages, captured replies and the callback trace: designated reply per message, exactly one ReadyForQuery per Sync and none otherwise, one ErrorResponse then silence and no callbacks until Sync, unknown names are errors and the connection stays up.",
          "Bounds: K=3 (quick) / 4 (thorough, with simple Query interleaved), names from {'', 'a'}, well-formed bodies, parser {error, one statement}, statement {row+Complete, error}.", "DESIGN.md §7 C06"),
 "C07": C("Histories of Parse/Bind/Describe/Execute/Close over names that are SYMBOLIC strings of length 0-1 (the solver decides when two names coincide, including the unnamed one) against a reference of association lists; a re-parse/re-bind skeleton over eight symbolic names; two connections served by one Server through the real serve path using the same symbolic names.",
          "Bounds: K=3/4 operations, each followed by Sync; names of length <= 1. Concurrent interleaving of connections is C15's lemma; here connections are served one after the other.", "DESIGN.md §7 C07"),
 "C08": C("handleBind on an ARBITRARY body of up to N bytes against a reference decoder written from the protocol text: accepted iff not truncated, parameters byte-identical, NULL (-1) distinguished from empty, formats by the none/one/n rule, no portal on rejection; Execute hands exactly those parameters to the statement; result-format codes determine Describe-portal's announced codes and the format handed to the encoder per column; Describe-statement announces exactly the declared OIDs; Parameter.Scan hands (oid, format, value) to the decoder.",
          "Bounds: N=14/17 bytes, counts <= 2, 1-2(3) columns. pgx codecs by contract; TextCodec.DecodeValue executed from pgx's own code.", "DESIGN.md §7 C08"),
 "C09": C("Columns.Define/Write and Column.Write for 1-2(3) columns with solver-chosen formats and source values from the codec-contract menu (untyped nil, nil pointer, invalid nullable, string, []byte, *string, unencodable): the emitted DataRow equals the reference framing, every NULL is -1 without payload, non-NULL empty is length 0, unencodable and wrong-arity rows emit nothing.",
          "The clause 'for every supported column type, decoded by an independent decoder' is decided only up to 'what the codec returns is what is framed': pgx's reflection-planned codecs are dependency code and cannot be encoded (stated not-applicable part). Bounds: <= 2/3 columns, values <= 1/2 bytes.", "DESIGN.md §7 C09"),
 "C10": C("The limit arithmetic is decided over the FULL range: every limit 1..2^31-1 and every 32-bit declared length in one solver query per assertion (size-exceeded iff declared-4 > L or declared < 4; header-only read; no allocation; error carries size and limit), NewReader for all 2^64 settings, Slurp for every limit/size/segmentation in the bound, and sessions with an oversized message followed by a normal one.",
          "Bounds: H10a continues past the check only for bodies <= N=3/6; Slurp L<=2/3, size <= 3L+2; 64-bit int.", "DESIGN.md §7 C10"),
 "C11": C("Server.serve on an SSLRequest followed by solver-chosen stuffed plaintext (nothing, a complete startup packet for another user, arbitrary bytes) under every TLS configuration (nil, no certificates, certificates): with certificates the only raw byte is 'S', startup parameters and all replies live inside the TLS layer, and the stuffed plaintext - which the real bufio reader HAS already buffered - is never interpreted; without certificates the reply is 'N' and the same connection continues in plaintext with a fresh startup packet; a CancelRequest after the refusal closes silently.",
          "crypto/tls itself cannot be encoded: tls.Server is an opaque model (separate plaintext stream, separate capture, never hands raw bytes to its caller); wire confidentiality is trusted. Counterexamples and witnesses are replayed natively with a REAL TLS client over net.Pipe and a wire tap that checks that everything after 'S' is TLS records. Bounds: stuffed bytes <= 4/9; inner session = startup + Terminate.", "DESIGN.md §7 C11"),
 "C12": C("Server.serve on a startup packet whose parameter area is N arbitrary bytes (duplicates, empty values, missing terminators are solver-reachable) with 0-2 configured global parameters and an optional version string, against a reference parse: callbacks see exactly the client's pairs, the reply is AuthenticationOk, one ParameterStatus per configured key plus the built-ins with the stated values (session_authorization = user), then exactly one ReadyForQuery(idle); the configured map is not modified; a CancelRequest first or after an SSLRequest is closed without reply or callback.",
          "Bounds: N=8/10. Map iteration modelled as insertion order (the statement does not order ParameterStatus messages). Cross-connection leakage is C15.", "DESIGN.md §7 C12"),
 "C13": C("CopyReader.Read step by step over K client messages with SYMBOLIC type byte and body (CopyData -> payload byte-exact in order, Flush/Sync skipped, CopyDone -> io.EOF, CopyFail or any other type -> non-nil non-EOF, the reader itself writes nothing), and the whole COPY cycle through handleSimpleQuery with a statement that starts COPY-in and reads until an error, a solver-chosen client message sequence and a solver-chosen point at which the handler stops: CopyInResponse announces the format per column, abort => exactly one ErrorResponse and one ReadyForQuery, success => CommandComplete ReadyForQuery, stray COPY messages afterwards are ignored without reply.",
          "Bounds: K=2/3 messages, payloads <= 2/3 bytes, 1-2 columns. A client stream that simply ends inside COPY is C04's.", "DESIGN.md §7 C13"),
 "C14": C("The binary COPY row reader on the standard header followed by R ARBITRARY bytes (tuples, corrupt field counts and lengths, trailer), cut into CopyData messages at solver-chosen split points; the reference decodes the unsplit stream; rows, NULLs, errors and end-of-stream must agree for every split, a wrong field count or truncated field is an error and never a panic or a fabricated row. One open known finding (KF-C14-1: a tuple spanning two CopyData messages is not reassembled) is carved out by its exact condition (a split point that is not a tuple boundary) and reported as KNOWN-FINDING; every other split must agree.",
          "Bounds: R=8/11 bytes, <=1/2 splits, 1-2 text columns (pgx TextCodec.DecodeValue executed from its own code). Header concrete (flags 0, no extension); streams ending without the trailer and empty CopyData chunks are outside the claim.", "DESIGN.md §7 C14"),
 "C15": ("other", "Conflict-freedom lemma decided by the symbolic engine over the real code, plus a commutation argument. Lemma: two connections are served by one Server through the real serve path with solver-chosen traffic (symbolic users, the SAME symbolic statement/portal name on both, extended and simple queries, statements that write rows through the type map or only complete); on every explored path the engine records every heap cell the library reads or writes on behalf of each connection together with the locks held, and asserts that no cell written for one connection is read or written for the other unless both accesses are sync/atomic operations or hold a common lock; environment models contribute declared footprints (pgtype.Map.Encode writes its receiver and appends into the caller's buffer). Each connection's transcript and callback counts are also asserted to be what its own traffic determines. From the lemma to the property (argument, not solver): steps of different connections that touch disjoint mutable state commute, hence every interleaving is equivalent to serving the connections one after the other, and there is no pair of conflicting unsynchronised accesses. A footprint counterexample is replayed natively by serving the same two connections CONCURRENTLY in a binary built with Go's race detector; it is reported only if the detector fires.",
          "Cannot be encoded: the Go scheduler and memory model, and races inside dependencies beyond their declared footprints - hence level 'other' rather than model_checking for the schedule quantifier. Bounds: two connections, each startup + optional Parse/Bind/Describe/Execute/Sync + optional simple query + Terminate. " + TRUST, TECH + "; footprint (read/write-set) conflict check; native replay under the Go race detector", "DESIGN.md §7 C15"),
 "C17": C("The error value is built by a solver-chosen nesting of D decorators (code, severity, hint, detail, source, constraint, fmt %w wrapping, none) with symbolic payload bytes; the emitted ErrorResponse is parsed by an independent strict grammar and compared field for field with a reference walking the same choices (outermost wins, defaults ERROR/XXUUU, each field at most once, line as decimal text); nil error -> FATAL/XX000.",
          "Bounds: D=2/3, payloads 1-2 non-NUL bytes, source line 0..999. strconv.Itoa and fmt.Errorf are modelled.", "DESIGN.md §7 C17"),
 "C18": C("H18a is a one-step inductive lemma on the reader's message window with a fully symbolic header (offset, length, capacity and requested size all range over 0..2^31): the next window never overlaps bytes exposed through an earlier one, so data handed to callbacks is never overwritten, for histories of any length.",
          "H18a touches no elements (header-only). Retained-view harness H18b is registered when built.", "DESIGN.md §7 C18"),
 "C19": C("Server.serve with m middlewares registered through the real option functions (failing position symbolic) followed by a solver-chosen command history: every middleware runs once, in registration order, after AuthenticationOk and the ParameterStatus messages and before the first ReadyForQuery, each seeing its predecessors' context values; a failure ends the connection with no ReadyForQuery and no command callback; every parser/statement call's context carries all middleware values, client and server parameters, remote address and type map, and is cancelled when the command ends while the session context is not; Terminate runs the hook once (also without a hook: no panic) and closes the connection.",
          "Bounds: m <= 2/3, K=2/3 commands from {Q, Parse, Bind, Execute, Terminate}. Not asserted: that nothing pipelined behind Terminate is looked at (the statement does not forbid it).", "DESIGN.md §7 C19"),
 "C20": C("ParseParameters on a query of Q ARBITRARY bytes against an independent scan: never panics, allocations bounded by the 65535-parameter limit (one solver query per allocation site over all indices), length = highest positional index for $n-style and number of markers for ?-style, all entries unspecified; a single $n marker with 1..8(22) digits (beyond 2^63 in the thorough tier); and the Describe-statement count equals the reported length.",
          "Bounds: Q=6/7 bytes; the regexp engine is replaced by a hand-written matcher for the one pattern `\\$(\\d+)|\\?` (validated by native replay of witness models against the real regexp), strconv.Atoi by an exact model; mixed $n/? queries are outside the claim.", "DESIGN.md §7 C20"),
}

def main():
    checks = []
    for pid in ALL:
        if pid not in CLAIMED:
            continue
        cat, text, note, tech, ref = CLAIMED[pid]
        checks.append({
            "property_id": pid,
            "quick_cmd": "./check %s --tier quick" % pid,
            "thorough_cmd": "./check %s --tier thorough" % pid,
            "evidence_file": "/verif/evidence/%s.json" % pid,
            "replay_cmd_template": "./check replay {path}",
            "engine": "gosym",
            "level_claimed": {"category": cat, "text": text, "design_ref": ref},
            "level_note": note,
            "technique": tech,
        })
    na = [{"property_id": p, "reason": NA.get(p, "check not built yet in this session (work in progress; see DESIGN.md §7 for the planned harness)")} for p in ALL if p not in CLAIMED]
    m = {
        "version": 1,
        "setup_cmd": "cd /verif/engine && GOFLAGS=-mod=mod GOPROXY=off GOSUMDB=off GOTOOLCHAIN=local go build -o /verif/bin/gosym ./cmd/gosym",
        "hooks": {
            "guard": "verif",
            "enable": "none needed: harnesses are injected into the build of /repo's current working tree through go/packages overlays (symbolic) and `go test -overlay` (native replay); nothing is written into /repo",
            "baseline_off_cmd": "cd /repo && GOFLAGS=-mod=mod GOPROXY=off GOSUMDB=off go test -vet=off -count=1 -timeout 25m ./...",
            "source_commits": [],
            "add_only": True,
        },
        "engines": [{
            "name": "gosym", "path": "/verif/engine",
            "serves_properties": sorted(CLAIMED),
            "kind_free_text": "own symbolic executor for go/ssa (x/tools v0.29.0) emitting SMT-LIB2 to one long-lived z3 per worker; forking by re-execution; harnesses are in-package Go functions replayed natively from solver models",
        }],
        "checks": checks,
        "not_applicable": na,
        "notes": "Exit 0 with INCONCLUSIVE lines means: no violation could be demonstrated, and the evidence lists what was not discharged. VIOLATION is printed only for a solver counterexample that reproduced against the native build.",
    }
    json.dump(m, open("/verif/MANIFEST.json", "w"), indent=1)
    print("claimed:", sorted(CLAIMED), "not_applicable:", [x["property_id"] for x in na])

NA = {}
if __name__ == "__main__":
    main()

#!/bin/bash
# usage: tools/retest_seeds.sh [seed-id ...]      (default: every /verif/seeded/*)
# Re-runs the quick check of each stored seed's property against a scratch
# clone of /repo carrying that seed (never /repo itself), with the evidence
# redirected, and prints one line per seed. Exit 1 if a stored seed is no
# longer reported. The scratch clone and evidence are removed afterwards.
export GOFLAGS=-mod=mod GOPROXY=off GOSUMDB=off GOTOOLCHAIN=local
S=$(mktemp -d /tmp/retest.XXXXXX)
trap 'rm -rf $S' EXIT
git clone -q /repo $S/repo || exit 2
export GOSYM_EVIDENCE_DIR=$S/evidence
mkdir -p $S/evidence
ids="$@"
[ -n "$ids" ] || ids=$(ls /verif/seeded | sort)
missed=0
for id in $ids; do
  prop=$(python3 -c "import json;print(json.load(open('/verif/seeded/$id/meta.json')).get('property','')[:3])" 2>/dev/null)
  case "$prop" in C[0-9][0-9]) ;; *) prop=${id%%-*};; esac
  (cd $S/repo && git checkout -q -- . && git clean -fdq && git apply /verif/seeded/$id/patch.diff) || { echo "$id APPLY-FAILED"; missed=1; continue; }
  t0=$(date +%s)
  out=$(/verif/check $prop --tier quick -repo $S/repo 2>&1); rc=$?
  t1=$(date +%s)
  if [ $rc -eq 1 ] && echo "$out" | grep -q "^VIOLATION property=$prop"; then
    by=$(echo "$out" | grep -A1 '^VIOLATION' | grep '^  ' | sed -E 's/^  ([A-Za-z0-9]+): ([^ ]+).*/\1:\2/; s/^  ([a-z]-[a-z-]+) .*/BMC:\1/' | sort -u | head -6 | tr '\n' ' ')
    echo "$id detected $((t1-t0))s $(echo "$out" | grep -c '^VIOLATION') violation lines by: $by"
  else
    echo "$id MISSED rc=$rc $((t1-t0))s $(echo "$out" | grep -E 'INCONCLUSIVE|^OK' | head -2 | cut -c1-160 | tr '\n' ' ')"
    missed=1
  fi
done
exit $missed

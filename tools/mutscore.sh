#!/bin/bash
# usage: tools/mutscore.sh <N> [seed] [file ...]
# Measures the checks against small syntactic mutations (tools/mutgen) of the
# library source, in a scratch clone of /repo (never /repo itself; evidence
# redirected): picks mutations at random until N of them survive the
# repository's own test suite, then runs the quick checks (cheapest first) and
# records which check, if any, reports the mutation. Output: one line per
# mutation in $OUT (default /tmp/mutscore.log). A measuring tool, not a check.
export GOFLAGS=-mod=mod GOPROXY=off GOSUMDB=off GOTOOLCHAIN=local
N=${1:-20}; SEED=${2:-1}; shift 2 2>/dev/null
FILES="$@"
[ -n "$FILES" ] || FILES="command.go handshake.go auth.go copy.go row.go writer.go cache.go error.go options.go wire.go conn.go pkg/buffer/reader.go pkg/buffer/writer.go errors/code.go"
OUT=${OUT:-/tmp/mutscore.log}
S=$(mktemp -d /tmp/mutscore.XXXXXX)
trap 'rm -rf $S' EXIT
git clone -q /repo $S/repo || exit 2
git clone -q /repo $S/orig || exit 2   # the pristine sources the mutations are listed and generated from
export GOSYM_EVIDENCE_DIR=$S/evidence; mkdir -p $S/evidence
ORDER="C05 C09 C11 C13 C19 C10 C14 C12 C08 C17 C20 C01 C18 C04 C15 C02 C03 C07 C06 C16"
# the candidate list: file:id, shuffled deterministically
for f in $FILES; do /verif/bin/mutgen list $S/orig/$f | awk -v f=$f '{print f" "$0}'; done | python3 -c "
import sys,random
l=sys.stdin.read().splitlines(); random.Random($SEED).shuffle(l); print('\n'.join(l))" > $S/cands
done=0
while read f id line kind text; do
  [ $done -ge $N ] && break
  (cd $S/repo && git checkout -q -- . && git clean -fdq)
  /verif/bin/mutgen apply $S/orig/$f $id > $S/m.go || continue
  cp $S/m.go $S/repo/$f
  (cd $S/repo && go build ./... 2>/dev/null) || { echo "$f:$line $kind [$text] NOBUILD" >> $OUT; continue; }
  if ! (cd $S/repo && timeout 300 go test -vet=off -count=1 -timeout 4m ./... >/dev/null 2>&1); then
    echo "$f:$line $kind [$text] killed-by-tests" >> $OUT; continue
  fi
  done=$((done+1))
  killer=""
  for p in $ORDER; do
    out=$(timeout 900 /verif/check $p --tier quick -repo $S/repo 2>&1)
    if echo "$out" | grep -q "^VIOLATION property=$p"; then killer=$p; break; fi
  done
  if [ -n "$killer" ]; then echo "$f:$line $kind [$text] killed-by-$killer" >> $OUT
  else echo "$f:$line $kind [$text] SURVIVED" >> $OUT; fi
done < $S/cands
echo "done: $done test-surviving mutations scored" >> $OUT

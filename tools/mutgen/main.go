// mutgen lists or applies small syntactic mutations of a Go source file.
//
//	mutgen list <file.go>            -> one line per mutation: <id> <line> <kind> <text>
//	mutgen apply <file.go> <id>      -> writes the mutated file to stdout
//
// Mutation kinds: relational operator swaps, && <-> ||, integer literal +-1,
// negated if condition, removed call statement, "return err" -> "return nil".
// It is a tool for measuring the checks (tools/mutscore.sh), not a check.
package main

import (
	"bytes"
	"fmt"
	"go/ast"
	"go/parser"
	"go/printer"
	"go/token"
	"os"
	"strconv"
)

type mut struct {
	line  int
	kind  string
	text  string
	apply func()
}

func main() {
	if len(os.Args) < 3 {
		fmt.Fprintln(os.Stderr, "usage: mutgen list|apply file.go [id]")
		os.Exit(2)
	}
	fset := token.NewFileSet()
	f, err := parser.ParseFile(fset, os.Args[2], nil, parser.ParseComments)
	if err != nil {
		fmt.Fprintln(os.Stderr, err)
		os.Exit(2)
	}
	var muts []mut
	add := func(pos token.Pos, kind, text string, apply func()) {
		muts = append(muts, mut{fset.Position(pos).Line, kind, text, apply})
	}
	swaps := map[token.Token][]token.Token{
		token.LSS: {token.LEQ}, token.LEQ: {token.LSS}, token.GTR: {token.GEQ}, token.GEQ: {token.GTR},
		token.EQL: {token.NEQ}, token.NEQ: {token.EQL}, token.LAND: {token.LOR}, token.LOR: {token.LAND},
	}
	inLog := func(call *ast.CallExpr) bool {
		if sel, ok := call.Fun.(*ast.SelectorExpr); ok {
			switch sel.Sel.Name {
			case "Debug", "Info", "Error", "Warn":
				return true
			}
		}
		return false
	}
	ast.Inspect(f, func(n ast.Node) bool {
		switch x := n.(type) {
		case *ast.CallExpr:
			if inLog(x) {
				return false
			}
		case *ast.BinaryExpr:
			for _, to := range swaps[x.Op] {
				bx, from, nt := x, x.Op, to
				add(bx.OpPos, "op", fmt.Sprintf("%s -> %s", from, nt), func() { bx.Op = nt })
			}
		case *ast.BasicLit:
			if x.Kind == token.INT {
				if v, err := strconv.ParseInt(x.Value, 0, 64); err == nil && v != 0 {
					bl, lv := x, v
					add(bl.Pos(), "lit", fmt.Sprintf("%d -> %d", lv, lv+1), func() { bl.Value = strconv.FormatInt(lv+1, 10) })
					add(bl.Pos(), "lit", fmt.Sprintf("%d -> %d", lv, lv-1), func() { bl.Value = strconv.FormatInt(lv-1, 10) })
				}
			}
		case *ast.IfStmt:
			is := x
			add(is.Cond.Pos(), "negif", "negate condition", func() { is.Cond = &ast.UnaryExpr{Op: token.NOT, X: &ast.ParenExpr{X: is.Cond}} })
		case *ast.BlockStmt:
			for i, st := range x.List {
				blk, i := x, i
				switch s := st.(type) {
				case *ast.ExprStmt:
					if call, ok := s.X.(*ast.CallExpr); ok && !inLog(call) {
						var b bytes.Buffer
						printer.Fprint(&b, fset, s.X)
						add(s.Pos(), "delcall", "remove "+clip(b.String()), func() { blk.List[i] = &ast.EmptyStmt{} })
					}
				case *ast.ReturnStmt:
					if len(s.Results) > 0 {
						last := s.Results[len(s.Results)-1]
						if id, ok := last.(*ast.Ident); ok && id.Name == "err" {
							rs := s
							add(rs.Pos(), "retnil", "return err -> return nil", func() { rs.Results[len(rs.Results)-1] = ast.NewIdent("nil") })
						}
					}
				case *ast.IncDecStmt, *ast.AssignStmt:
					var b bytes.Buffer
					printer.Fprint(&b, fset, st)
					if as, ok := st.(*ast.AssignStmt); ok && as.Tok == token.DEFINE {
						continue
					}
					add(st.Pos(), "delassign", "remove "+clip(b.String()), func() { blk.List[i] = &ast.EmptyStmt{} })
				}
			}
		}
		return true
	})
	switch os.Args[1] {
	case "list":
		for i, m := range muts {
			fmt.Printf("%d %d %s %s\n", i, m.line, m.kind, m.text)
		}
	case "apply":
		id, _ := strconv.Atoi(os.Args[3])
		if id < 0 || id >= len(muts) {
			os.Exit(2)
		}
		muts[id].apply()
		printer.Fprint(os.Stdout, fset, f)
	}
}

func clip(s string) string {
	if len(s) > 60 {
		return s[:60] + "…"
	}
	return s
}

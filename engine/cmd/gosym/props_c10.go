package main

func init() {
	props = append(props, PropSpec{
		ID: "C10", Level: "model_checking",
		Explanation: "bounded symbolic model checking of the real limit arithmetic and skipping code: H10a/H10d quantify over the full range of limits and declared lengths (one solver query per assertion, no enumeration); H10b over limits, sizes and segmentations; H10c/H10e over sessions with an oversized message at each position",
		Assumptions: P(
			"transport = vStream: arbitrary bytes, nondeterministic short reads in H10b, full reads elsewhere (segmentation independence is C03/H03a)",
			"H10a continues past the size check only for declared-4 <= N (reading larger bodies is outside the bound)",
		),
		Runs: []HarnessRun{
			{Pkg: "buffer", Entry: "VerifH10a", What: "size-exceeded iff declared-4 > L or declared < 4, for every L in 1..2^31-1 and every 32-bit declared length; header-only read, no allocation, error carries (size, L)",
				Quick: map[string]int{"N": 3}, Thorough: map[string]int{"N": 6},
				Witnesses: []string{"above-limit", "below-minimum", "exactly-at-limit"}},
			{Pkg: "buffer", Entry: "VerifH10b", What: "Slurp consumes exactly size bytes in chunks <= L for every segmentation",
				Quick: map[string]int{"LMAX": 2}, Thorough: map[string]int{"LMAX": 3},
				Witnesses: []string{"multi-chunk", "short-stream"}},
			{Pkg: "buffer", Entry: "VerifH10d", What: "NewReader: limit = 16 MiB for every non-positive setting, else the setting (all 2^64 ints)",
				Quick: map[string]int{}, Witnesses: []string{"default", "configured"}},
			{Pkg: "wire", Entry: "VerifH10c", What: "session: oversized message of any type skipped in full, one non-fatal 54000 ErrorResponse, next message processed normally",
				Quick: map[string]int{"LVAR": 3, "OVER": 3, "DISCARD": 1}, Thorough: map[string]int{"LVAR": 5, "OVER": 5, "DISCARD": 1},
				Witnesses: []string{"oversized-first", "oversized-in-the-middle", "oversized-while-discarding"}},
			{Pkg: "wire", Entry: "VerifH10g", What: "a header declaring any length above the limit up to 2^32-1 (top bit set included), followed by fewer bytes than declared (a well-formed Query) and the end of the stream: those bytes are body, never a message; no callback",
				Quick: map[string]int{}, Witnesses: []string{"declared-length-with-the-top-bit-set", "declared-length-below-2^31"}},
			{Pkg: "wire", Entry: "VerifH10h", What: "the limit after a COPY-in cycle on the same connection: an oversized message is still skipped and answered with 54000, the next query is served",
				Quick: map[string]int{"OVER": 3}, Witnesses: []string{"oversized-after-a-copy-in-cycle"}},
			{Pkg: "wire", Entry: "VerifH10i", What: "an oversized message (body made of well-formed messages, one of them a Query) arriving while a handler reads COPY data: skipped in full, nothing of it taken for a message, the COPY aborted with exactly one ErrorResponse and one ReadyForQuery, the query after it served",
				Quick: map[string]int{}, Witnesses: []string{"oversized-copydata", "query-inside-the-oversized-body"}},
			{Pkg: "wire", Entry: "VerifH10e", What: "startup packet declaring a length below 4 or above the limit: connection ends, no session",
				Quick: map[string]int{"REST": 6}, Witnesses: []string{"startup-length-below-minimum", "startup-length-above-limit", "startup-body-withheld"}},
			{Pkg: "wire", Entry: "VerifH10p", What: "a message of any type declaring any length above the limit (up to 2^32-1) in place of the password message, its body withheld by a client that then waits, or sent in full and followed by a correct password message and a query: the connection ends without waiting, no validator call, no AuthenticationOk, no ReadyForQuery, no session",
				Quick: map[string]int{"OVER": 3}, Witnesses: []string{"password-body-withheld", "password-body-sent"}},
			{Pkg: "wire", Entry: "VerifH11", What: "the configured limit is the one in force on a TLS-upgraded connection and on a connection whose SSLRequest was refused",
				Quick: map[string]int{"STUFF": 2}, Witnesses: []string{"limit-enforced-inside-tls", "limit-enforced-after-refusal"}},
			{Pkg: "wire", Entry: "VerifH10f", What: "server-level default: a non-positive size (option, exported field, or no configuration) serves a 5000-byte message normally; thorough: a message declaring more than 16 MiB is skipped with one 54000 error and the next message is served",
				Quick: map[string]int{"BODY": 5000, "OVERSIZED": 0}, Thorough: map[string]int{"BODY": 5000, "OVERSIZED": 1},
				Witnesses: []string{"negative-size-on-the-exported-field"}, MaxSteps: 400000000},
		},
	})
	props = append(props, PropSpec{
		ID: "C18", Level: "model_checking",
		Explanation: "H18a is a one-step inductive lemma over a fully symbolic message window (offset, length, capacity and requested size range over 0..2^31): the next window never overlaps bytes exposed by an earlier one. H18b checks retained views against private copies across later traffic of symbolic sizes.",
		Assumptions: P(
			"H18a: the window header is symbolic, elements are never touched (header-only lemma)",
		),
		Runs: []HarnessRun{
			{Pkg: "buffer", Entry: "VerifH18a", What: "reset: new window lies behind the old one inside its capacity, or in a fresh array of cap max(size,4096)",
				Quick: map[string]int{}, Witnesses: []string{"fresh", "reused"}},
			{Pkg: "buffer", Entry: "VerifH18k", What: "K successive windows from a fresh reader, sizes symbolic in 0..9000 with symbolic consumption in between: every window stays disjoint from every later one (covers reader state beyond the window header)",
				Quick: map[string]int{"K": 5, "SMAX": 9000}, Thorough: map[string]int{"K": 6, "SMAX": 9000},
				Witnesses: []string{"large-window", "same-array-reused"}},
			{Pkg: "wire", Entry: "VerifH18p", What: "the password, user and database strings handed to a password validator equal their private copies after later traffic, with the default and with a small message limit",
				Quick: map[string]int{"K": 2}, Witnesses: []string{"default-limit", "small-limit"}},
			{Pkg: "wire", Entry: "VerifH18b", What: "retained query text and parameter value equal their private copies after K later messages with sizes around the 4 KiB granule and the limit",
				Quick: map[string]int{"K": 2}, Thorough: map[string]int{"K": 3},
				Witnesses: []string{"later-message-near-granule", "later-oversized-message", "large-retained-message", "abandoned-copy", "rejected-parse-then-skipped-messages"}},
			{Pkg: "wire", Entry: "VerifH18c", What: "two binary COPY streams whose tuple is split across two CopyData messages (inside the header, the field count, the field length or the value), text or bytea column, with a retained query between them and after: retained query texts and delivered row values equal their private copies at the end",
				Quick: map[string]int{}, Witnesses: []string{"both-copies-split-inside-the-value", "copy-value-delivered-as-bytes"}},
		},
	})
}

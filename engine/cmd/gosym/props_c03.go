package main

func init() {
	props = append(props, PropSpec{
		ID: "C03", Level: "model_checking",
		Explanation: "bounded symbolic model checking of buffer.Reader's real code: framing vs. an independent reference for every byte stream, declared length, segmentation and leftover pre-state in the bound; accessors vs. an independent cursor for every body and call sequence in the bound",
		Assumptions: P(
			"transport = vStream: arbitrary bytes, nondeterministic short reads (every segmentation), EOF at the end",
			"bufio.Reader's own refill logic below the BufferedReader interface is trusted std-lib (H03a drives Reader.Buffer directly)",
		),
		Runs: []HarnessRun{
			{Pkg: "buffer", Entry: "VerifH03a", What: "ReadTypedMsg = reference framing for every stream/segmentation/leftover",
				Quick: map[string]int{"N": 3, "L": 8}, Thorough: map[string]int{"N": 5, "L": 8},
				Witnesses: []string{"eof", "size-exceeded", "truncated-body", "body-read"}},
			{Pkg: "buffer", Entry: "VerifH03b", What: "accessors never read beyond the message; results equal an independent cursor",
				Quick: map[string]int{"N": 5, "CALLS": 2}, Thorough: map[string]int{"N": 6, "CALLS": 3},
				Witnesses: []string{"string-read", "u32-read"}},
			{Pkg: "wire", Entry: "VerifH08a", What: "the accessors as the Bind decoder calls them, with client-declared lengths and counts of every value and sign over an arbitrary body: short data is an error, never a panic, and nothing beyond the message is read (the decoded values equal the reference decoder's)",
				Quick: map[string]int{"N": 14, "MAXCOUNT": 2}, Thorough: map[string]int{"N": 17, "MAXCOUNT": 2},
				Witnesses: []string{"truncated"}},
			{Pkg: "wire", Entry: "VerifH03c", What: "session level: surplus/unread fields of one message never change what the next message produces",
				Quick: map[string]int{"S": 3}, Thorough: map[string]int{"S": 5},
				Witnesses: []string{"surplus-then-empty-body", "second-parsed"}},
			{Pkg: "wire", Entry: "VerifH14q", What: "surplus bytes after the last field of the Query or Execute message that starts a COPY never leak into the binary COPY stream read by the row reader",
				Quick: map[string]int{"S": 3}, Witnesses: []string{"surplus-after-the-last-field-of-the-starting-message", "copy-started-by-execute"}},
			{Pkg: "wire", Entry: "VerifH11", What: "SSLRequest and the following startup packet arriving in ONE read (maximal read-ahead): the refusal path keeps the bytes already buffered",
				Quick: map[string]int{"STUFF": 2}, Witnesses: []string{"refused-then-plaintext"}},
			{Pkg: "buffer", Entry: "VerifH10b", What: "a skipped (oversized) message is consumed in exactly its declared length, for every segmentation",
				Quick: map[string]int{"LMAX": 2}, Thorough: map[string]int{"LMAX": 3}, Witnesses: []string{"multi-chunk"}},
			{Pkg: "wire", Entry: "VerifH03s", What: "session level: a startup packet and K messages (Query, Parse, Bind, Execute, Sync, Terminate, one of symbolic type and body) served with all-at-once reads and with one byte per read give the same output and the same callback trace",
				Quick: map[string]int{"K": 2}, Thorough: map[string]int{"K": 3},
				Witnesses: []string{"terminate-followed-by-more", "two-callbacks"}},
			{Pkg: "buffer", Entry: "VerifH18k", What: "the bytes of a later message never land in the window an earlier message was parsed from (K successive windows, symbolic sizes on both sides of the 4 KiB granule)",
				Quick: map[string]int{"K": 5, "SMAX": 9000}, Witnesses: []string{"large-window", "same-array-reused"}},
			{Pkg: "wire", Entry: "VerifH10g", What: "a header declaring any length above the limit up to 2^32-1 (top bit set included), followed by fewer bytes than declared (a well-formed Query) and the end of the stream: those bytes are body, never a message; no callback",
				Quick: map[string]int{}, Witnesses: []string{"declared-length-with-the-top-bit-set", "declared-length-below-2^31"}},
			{Pkg: "wire", Entry: "VerifH10i", What: "an oversized message (body made of well-formed messages, one of them a Query) arriving while a handler reads COPY data: skipped in full, nothing of it taken for a message, the COPY aborted with exactly one ErrorResponse and one ReadyForQuery, the query after it served",
				Quick: map[string]int{}, Witnesses: []string{"oversized-copydata", "query-inside-the-oversized-body"}},
			{Pkg: "wire", Entry: "VerifH10c", What: "session: the message after a skipped one is interpreted from its own first byte",
				Quick: map[string]int{"LVAR": 3, "OVER": 3, "DISCARD": 1}, Witnesses: []string{"oversized-in-the-middle", "oversized-while-discarding"}},
		},
	})
}

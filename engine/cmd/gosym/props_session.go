package main

var pgStub = "pgx pgtype.Map is modelled by its documented contract (Encode: nil / nil pointer / invalid nullable -> (nil,nil); string, []byte, *string, valid pgtype.Text on text-like OIDs -> those bytes; other values -> error; Encode writes its receiver); per-type codec correctness is pgx's and outside the claim"

func init() {
	props = append(props, PropSpec{
		ID: "C02", Level: "model_checking",
		Explanation: "bounded symbolic model checking of buffer.Writer and every message builder of the real code against an independent strict grammar of backend messages (DESIGN Appendix A): framing kernel under arbitrary operation sequences and write failures; ErrorResponse for solver-chosen decorator nestings; RowDescription/DataRow for symbolic column sets and values; the same grammar monitors the whole capture of the session-level harnesses",
		Assumptions: P(pgStub,
			"user-supplied text (column names, tags, error texts, decorator payloads) contains no NUL byte; client-supplied bytes are unconstrained",
			"int16 count overflow (> 32767 columns) is outside the claim",
		),
		Runs: []HarnessRun{
			{Pkg: "wire", Entry: "VerifH02a", What: "framing kernel: transport sees exactly the completed frames, for every op sequence and write-failure point",
				Quick: map[string]int{"OPS": 4}, Thorough: map[string]int{"OPS": 5},
				Witnesses: []string{"abandoned-frame", "failed-write", "two-frames"}},
			{Pkg: "wire", Entry: "VerifH17", What: "ErrorResponse well-formed for every decorator nesting",
				Quick: map[string]int{"D": 2}, Thorough: map[string]int{"D": 3},
				Witnesses: []string{"source-decorated", "hint-and-detail", "constraint"}},
			{Pkg: "wire", Entry: "VerifH09a", What: "RowDescription/DataRow well-formed; rejected row leaves no partial bytes",
				Quick: map[string]int{"COLS": 2, "VLEN": 1}, Thorough: map[string]int{"COLS": 2, "VLEN": 2},
				Witnesses: []string{"unencodable", "typed-null", "non-null-empty"}},
			{Pkg: "wire", Entry: "VerifH09d", What: "RowDescription for column definitions whose every field (table, attribute numbers, OID, width, type modifier, name) is symbolic: one frame, body parses under the grammar",
				Quick: map[string]int{"COLS": 2}, Witnesses: []string{"two-columns"}},
			{Pkg: "wire", Entry: "VerifH02p", What: "ParameterDescription at the 16-bit boundaries: declared count matches the items",
				Quick: map[string]int{}, Witnesses: []string{"beyond-int16", "protocol-maximum"}, MaxSteps: 40000000},
			{Pkg: "wire", Entry: "VerifH06b", What: "whole-capture grammar monitor over extended-query histories",
				Quick: map[string]int{"K": 2}, Thorough: map[string]int{"K": 3, "Q": 1},
				Witnesses: []string{"error-then-more"}},
			{Pkg: "wire", Entry: "VerifH05b", What: "whole-capture grammar monitor over simple-query cycles",
				Quick: map[string]int{"QLEN": 1}, Thorough: map[string]int{"QLEN": 2},
				Witnesses: []string{"blank", "statement-failed"}},
		},
	})
	props = append(props, PropSpec{
		ID: "C05", Level: "model_checking",
		Explanation: "H05a is one inductive step of the result writer from an arbitrary pre-state (closed flag, any 64-bit counter, 0-2 columns), covering operation sequences of any length; H05c reaches the closed state through the code itself; H05b runs handleSimpleQuery with a symbolic query text and solver-chosen parser/statement behaviours against the cycle automaton of DESIGN Appendix C",
		Assumptions: P(pgStub,
			"queries are well-formed Q messages (malformed ones belong to C04); query bytes < 0x80 in the blank-query clause (strings.TrimSpace modelled for ASCII white space)",
			"statement scripts: {row+Complete, error, Complete, row+error}; parser outcomes: {error, 0, 1, 2 statements}",
		),
		Runs: []HarnessRun{
			{Pkg: "wire", Entry: "VerifH05a", What: "result writer state machine, one step from any state",
				Quick: map[string]int{}, Witnesses: []string{"row-delivered", "row-rejected", "completed", "copy-in-response"}},
			{Pkg: "wire", Entry: "VerifH05c", What: "after completion every call fails without emitting bytes",
				Quick: map[string]int{}, Witnesses: []string{"closed-writer"}},
			{Pkg: "wire", Entry: "VerifH05b", What: "simple-query cycle = reference automaton; exactly one ReadyForQuery, last",
				Quick: map[string]int{"QLEN": 2}, Thorough: map[string]int{"QLEN": 3},
				Witnesses: []string{"blank", "statement-failed", "two-statements"}},
		},
	})
	props = append(props, PropSpec{
		ID: "C06", Level: "model_checking",
		Explanation: "histories of K extended-query messages (Parse/Bind/Describe/Execute/Close/Flush/Sync, optionally simple Query) over known and unknown names run through the real consumeSingleCommand; a black-box reference automaton (DESIGN Appendix C) that reads only client messages, captured replies and the callback trace decides every step; the solver chooses the history, the query byte and the parser/statement outcomes",
		Assumptions: P(pgStub,
			"names are drawn from {\"\", \"a\"}; message bodies are well-formed (malformed bodies belong to C04); parser outcomes {error, one statement}; statement outcomes {row+Complete, error}",
			"oversized/unknown-type messages inside histories are covered by C10/C04 harnesses, not here",
		),
		Runs: []HarnessRun{
			{Pkg: "wire", Entry: "VerifH06b", What: "designated replies, one ReadyForQuery per Sync, one ErrorResponse then skip until Sync",
				Quick: map[string]int{"K": 3}, Thorough: map[string]int{"K": 4, "Q": 1},
				Witnesses: []string{"error-then-more", "skipped-until-sync"}},
			{Pkg: "wire", Entry: "VerifH06b", What: "same, with a ParseFn that may also answer a column-less statement, zero statements or two statements (Parse of several statements is one ErrorResponse, then skip)",
				Quick: map[string]int{"K": 3, "PM": 5}, Thorough: map[string]int{"K": 4, "PM": 5},
				Witnesses: []string{"parse-with-several-statements", "skipped-until-sync"}},
			{Pkg: "wire", Entry: "VerifH06b", What: "same, with simple queries, unknown-type and oversized messages interleaved",
				Quick: map[string]int{"K": 3, "Q": 1, "X": 1}, Thorough: map[string]int{"K": 3, "Q": 1, "X": 1},
				Witnesses: []string{"unknown-or-oversized", "skipped-until-sync"}},
		},
	})
	props = append(props, PropSpec{
		ID: "C09", Level: "model_checking",
		Explanation: "Columns.Define/Write and Column.Write on 1-2 columns with solver-chosen formats and source values from the codec-contract menu: the emitted DataRow equals the reference framing (count, -1 for every NULL, length+bytes otherwise), unencodable and wrong-arity rows emit nothing",
		Assumptions: P(pgStub,
			"the clause 'for every supported column type ... decoded by an independent decoder' is decided only up to 'what the codec returns is what is framed': pgx's ~100 codecs are dependency code planned through reflection and cannot be encoded",
		),
		Runs: []HarnessRun{
			{Pkg: "wire", Entry: "VerifH09a", What: "DataRow = reference framing; NULL stays NULL; empty stays empty",
				Quick: map[string]int{"COLS": 2, "VLEN": 1}, Thorough: map[string]int{"COLS": 3, "VLEN": 2},
				Witnesses: []string{"unencodable", "typed-null", "non-null-empty"}},
			{Pkg: "wire", Entry: "VerifH09d", What: "RowDescription carries every column field (all symbolic) in protocol order with the format by rule",
				Quick: map[string]int{"COLS": 2}, Witnesses: []string{"two-columns"}},
			{Pkg: "wire", Entry: "VerifH08b", What: "int4 columns (text and binary encodings differ) under every none/one/positional result-format choice: each DataRow field is encoded in the format the RowDescription announces for it",
				Quick: map[string]int{"COLS": 2}, Thorough: map[string]int{"COLS": 3},
				Witnesses: []string{"one-code-applies-to-all", "positional-codes"}},
			{Pkg: "wire", Entry: "VerifH09w", What: "wrong arity rejected, nothing emitted",
				Quick: map[string]int{}, Witnesses: []string{"wrong-arity"}},
		},
	})
}

// gosym: symbolic execution of go/ssa with SMT-decided assertions.
package main

import (
	"path/filepath"
	"encoding/json"
	"flag"
	"fmt"
	"os"
	"strconv"
	"strings"
	"time"

	"gosym/interp"
	"gosym/sym"
)

const (
	defaultRepo = "/repo"
	verifDir    = "/verif"
)

func main() {
	if os.Getenv("GOSYM_SLOW") != "" {
		sym.SlowLog = func(d time.Duration, extra string, n int) {
			fmt.Fprintf(os.Stderr, "SLOW %.1fs scope=%d lines: %s\n", d.Seconds(), n, extra)
		}
	}
	if len(os.Args) < 2 {
		usage()
	}
	switch os.Args[1] {
	case "run":
		cmdRun(os.Args[2:])
	case "check":
		os.Exit(cmdCheck(os.Args[2:]))
	case "replay":
		os.Exit(cmdReplay(os.Args[2:]))
	case "instrument":
		// debugging aid: print the schedule-point instrumented version of a file
		src, err := os.ReadFile(os.Args[2])
		if err != nil {
			fmt.Fprintln(os.Stderr, err)
			os.Exit(2)
		}
		out, n, err := instrumentSched(filepath.Base(os.Args[2]), src)
		fmt.Fprintf(os.Stderr, "%d points, err=%v\n", n, err)
		os.Stdout.Write(out)
	case "selftest":
		os.Exit(cmdSelftest(os.Args[2:]))
	default:
		usage()
	}
}

func usage() {
	fmt.Fprintln(os.Stderr, "usage: gosym run|check|replay|selftest ...")
	os.Exit(2)
}

type paramFlag map[string]int

func (p paramFlag) String() string { return fmt.Sprint(map[string]int(p)) }
func (p paramFlag) Set(s string) error {
	k, v, ok := strings.Cut(s, "=")
	if !ok {
		return fmt.Errorf("want NAME=INT")
	}
	n, err := strconv.Atoi(v)
	if err != nil {
		return err
	}
	p[k] = n
	return nil
}

func loadMachine(repo string) (*interp.Machine, error) {
	ov, err := buildOverlay(repo, verifDir+"/harness", false)
	if err != nil {
		return nil, err
	}
	return interp.Load(repo, ov, []string{".", "./pkg/buffer", "./errors", "./codes", "./pkg/types"})
}

func cmdRun(args []string) {
	fs := flag.NewFlagSet("run", flag.ExitOnError)
	repo := fs.String("repo", defaultRepo, "repository")
	pkg := fs.String("pkg", "wire", "harness package (wire|buffer|errors)")
	entry := fs.String("entry", "", "harness entry function")
	workers := fs.Int("workers", 16, "parallel workers")
	maxPaths := fs.Int("max-paths", 0, "stop after this many paths")
	maxSteps := fs.Int("max-steps", 2000000, "step budget per path")
	concCap := fs.Int("conc-cap", 64, "cap on feasible values per concretisation")
	solver := fs.String("solver", "z3", "z3|z3-new|cvc5")
	timeout := fs.Int("timeout-ms", 20000, "per-query solver timeout")
	verbose := fs.Bool("v", false, "verbose")
	jsonOut := fs.String("json", "", "write the run result here")
	known := fs.String("known", "", "comma-separated open known-finding ids")
	events := fs.Bool("events", false, "print extracted event paths (event mode)")
	params := paramFlag{}
	fs.Var(params, "param", "harness parameter NAME=INT (repeatable)")
	fs.Parse(args)

	m, err := loadMachine(*repo)
	if err != nil {
		fmt.Fprintln(os.Stderr, "LOAD-ERROR:", err)
		os.Exit(3)
	}
	m.Params = params
	for _, k := range strings.Split(*known, ",") {
		if k != "" {
			m.Known[k] = true
		}
	}
	m.Cfg = interp.Config{MaxSteps: *maxSteps, ConcCap: *concCap, Solver: *solver, TimeoutMs: *timeout,
		Workers: *workers, MaxPaths: *maxPaths, WitnessVecs: true}
	rr, err := m.Explore(pkgImportPath(m.Module, *pkg), *entry)
	if err != nil {
		fmt.Fprintln(os.Stderr, "ERROR:", err)
		os.Exit(3)
	}
	printRun(rr, m, *verbose)
	if *events {
		for _, p := range rr.EventPaths {
			var parts []string
			for _, ev := range p {
				parts = append(parts, ev.String())
			}
			fmt.Println("   EVENTS:", strings.Join(parts, " "))
		}
	}
	if *jsonOut != "" {
		data, _ := json.MarshalIndent(rr, "", " ")
		os.WriteFile(*jsonOut, data, 0o644)
	}
}

func printRun(rr *interp.RunResult, m *interp.Machine, verbose bool) {
	fmt.Printf("== %s.%s: load %.1fs, %d paths in %.1fs (steps %d, decisions %d); queries %d (sat %d unsat %d unknown %d err %d) solver %.1fs\n",
		rr.Pkg, rr.Entry, m.LoadTime.Seconds(), rr.Paths, rr.Wall.Seconds(), rr.Steps, rr.Decisions,
		rr.Queries, rr.Sat, rr.Unsat, rr.UnknownQ, rr.SolverErr, rr.SolverTime.Seconds())
	fmt.Printf("   outcomes: %v truncated=%v\n", rr.Outcomes, rr.Truncated)
	for _, k := range interp.SortedKeys(rr.Details) {
		fmt.Printf("   ! %s  x%d\n", k, rr.Details[k])
	}
	for _, l := range interp.SortedKeys(rr.Labels) {
		s := rr.Labels[l]
		mark := "ok "
		if s.Violated > 0 {
			mark = "VIOL"
		} else if s.Unknown > 0 {
			mark = "unk"
		} else if s.Known > 0 {
			mark = "known"
		}
		fmt.Printf("   %-5s %-40s discharged=%d violated=%d known=%d unknown=%d\n", mark, l, s.Discharged, s.Violated, s.Known, s.Unknown)
	}
	for _, l := range interp.SortedKeys(rr.Violations) {
		v := rr.Violations[l]
		fmt.Printf("   counterexample %s: %v\n", l, fmtVec(v))
	}
	for _, l := range interp.SortedKeys(rr.Panics) {
		fmt.Printf("   PANIC %s: %v\n", l, fmtVec(rr.Panics[l]))
	}
	fmt.Printf("   reached: %v\n", interp.SortedKeys(rr.Reached))
	if verbose {
		for _, f := range interp.SortedKeys(rr.Funcs) {
			fmt.Printf("   fn %s\n", f)
		}
	}
}

func fmtVec(v *interp.Vector) string {
	if v == nil {
		return "<no model>"
	}
	var b strings.Builder
	for i, x := range v.Values {
		if i > 0 {
			b.WriteByte(' ')
		}
		switch v.Kinds[i] {
		case "byte":
			fmt.Fprintf(&b, "%02x", x)
		case "choose", "int":
			fmt.Fprintf(&b, "#%d", int64(x))
		case "bool":
			fmt.Fprintf(&b, "%v", x != 0)
		default:
			fmt.Fprintf(&b, "%s:%d", v.Kinds[i], x)
		}
	}
	return b.String()
}

var _ = time.Now

// evidenceDir is /verif/evidence; GOSYM_EVIDENCE_DIR redirects it (used only by
// tools/retest_seeds.sh, which runs the checks against scratch copies of the
// repository carrying a seeded change and must not touch the real evidence).
func evidenceDir() string {
	if d := os.Getenv("GOSYM_EVIDENCE_DIR"); d != "" {
		return d
	}
	return filepath.Join(verifDir, "evidence")
}

package main

import (
	"encoding/json"
	"fmt"
	"os"
	"path/filepath"
	"regexp"
	"sort"
	"strings"
)

// harness packages: directory under /verif/harness -> (dir in repo, package name)
var harnessPkgs = map[string][2]string{
	"wire":   {".", "wire"},
	"buffer": {"pkg/buffer", "buffer"},
	"errors": {"errors", "errors"},
}

var reEntry = regexp.MustCompile(`(?m)^func (Verif[A-Za-z0-9_]+)\(\)`)

// buildOverlay maps virtual file names inside the repository to harness
// sources. Nothing is written into the repository.
func buildOverlay(repo, hdir string, withTest bool) (map[string][]byte, error) {
	ov := map[string][]byte{}
	rt, err := os.ReadFile(filepath.Join(hdir, "rt", "rt.go"))
	if err != nil {
		return nil, err
	}
	rtTest, err := os.ReadFile(filepath.Join(hdir, "rt", "rt_test.go"))
	if err != nil {
		return nil, err
	}
	for name, pi := range harnessPkgs {
		dir := filepath.Join(hdir, name)
		files, _ := filepath.Glob(filepath.Join(dir, "*.go"))
		if len(files) == 0 {
			continue
		}
		sort.Strings(files)
		target := filepath.Join(repo, pi[0])
		var entries []string
		for _, f := range files {
			src, err := os.ReadFile(f)
			if err != nil {
				return nil, err
			}
			for _, m := range reEntry.FindAllSubmatch(src, -1) {
				entries = append(entries, string(m[1]))
			}
			ov[filepath.Join(target, "zz_verif_"+filepath.Base(f))] = src
		}
		ov[filepath.Join(target, "zz_verif_rt.go")] = []byte(strings.Replace(string(rt), "package PKGNAME", "package "+pi[1], 1))
		var reg strings.Builder
		fmt.Fprintf(&reg, "package %s\n\nvar vHarnesses = map[string]func(){\n", pi[1])
		for _, e := range entries {
			fmt.Fprintf(&reg, "\t%q: %s,\n", e, e)
		}
		reg.WriteString("}\n")
		ov[filepath.Join(target, "zz_verif_registry.go")] = []byte(reg.String())
		if withTest {
			ov[filepath.Join(target, "zz_verif_rt_test.go")] = []byte(strings.Replace(string(rtTest), "package PKGNAME", "package "+pi[1], 1))
		}
	}
	return ov, nil
}

// writeOverlayJSON materialises the overlay for `go test -overlay` in a
// scratch directory (removed by the caller).
func writeOverlayJSON(ov map[string][]byte, scratch string) (string, error) {
	repl := map[string]string{}
	i := 0
	for virt, src := range ov {
		real := filepath.Join(scratch, fmt.Sprintf("f%03d_%s", i, filepath.Base(virt)))
		i++
		if err := os.WriteFile(real, src, 0o644); err != nil {
			return "", err
		}
		repl[virt] = real
	}
	data, _ := json.MarshalIndent(map[string]interface{}{"Replace": repl}, "", " ")
	p := filepath.Join(scratch, "overlay.json")
	return p, os.WriteFile(p, data, 0o644)
}

func pkgImportPath(module, name string) string {
	pi := harnessPkgs[name]
	if pi[0] == "." {
		return module
	}
	return module + "/" + pi[0]
}

package main

func init() {
	props = append(props, PropSpec{
		ID: "C01", Level: "model_checking",
		Explanation: "Server.serve end to end (Handshake, readClientParameters, ClearTextPassword, writeParameters, session middleware, command loop) on: a valid startup packet with symbolic user/database, a symbolic password-phase message (any type byte, body of up to N arbitrary bytes, possibly cut by EOF), a validator that accepts/rejects/fails, and M arbitrary continuation bytes. A monitor over the capture and the callback trace decides every clause",
		Assumptions: P(pgStub,
			"the startup packet itself is well-formed (malformed startup belongs to C04/C12); the password-phase length field is exact, below the 4-byte minimum, or above the 32-byte limit with the oversized body sent",
		),
		Runs: []HarnessRun{
			{Pkg: "wire", Entry: "VerifH01b", What: "non-accepting cases never produce AuthenticationOk/ParameterStatus/ReadyForQuery, middleware, parsing or execution; wrong password -> class 28 ErrorResponse; connection closed",
				Quick: map[string]int{"N": 2, "M": 5}, Thorough: map[string]int{"N": 4, "M": 8},
				Witnesses: []string{"accepted", "malformed-password-message", "rejected-with-pipelined-bytes", "validator-failed", "password-length-below-minimum", "password-length-above-limit"}},
		},
	})
	props = append(props, PropSpec{
		ID: "C07", Level: "model_checking",
		Explanation: "histories of Parse/Bind/Describe/Execute/Close over names that are symbolic strings of length 0-1 (the solver decides when names coincide) against a reference of two association lists; a fixed re-parse/re-bind skeleton with eight symbolic names; two connections through the real serve path using the same symbolic names",
		Assumptions: P(pgStub,
			"every operation is followed by Sync (error-state handling is C06); concurrent interleavings of the two connections are discharged by C15's isolation lemma, H07b serves them one after the other",
		),
		Runs: []HarnessRun{
			{Pkg: "wire", Entry: "VerifH07a", What: "names resolve to the latest definition; Close makes a name unresolvable; portals keep the statement bound at Bind time",
				Quick: map[string]int{"K": 3}, Thorough: map[string]int{"K": 4},
				Witnesses: []string{"closed-statement", "portal-rebound"}},
			{Pkg: "wire", Entry: "VerifH07c", What: "re-parse does not change a bound portal; re-bind picks up the new definition",
				Quick: map[string]int{}, Witnesses: []string{"reparse-does-not-change-bound-portal", "rebind-picks-up-new-definition"}},
			{Pkg: "wire", Entry: "VerifH07d", What: "re-binding a portal name replaces its result formats; Describe and Execute use the latest Bind's formats",
				Quick: map[string]int{}, Witnesses: []string{"rebound-portal"}},
			{Pkg: "wire", Entry: "VerifH07p", What: "each Execute hands the statement the parameter values (count, NULLs, bytes) of the latest Bind of that portal name, whatever was bound to other portals in between",
				Quick: map[string]int{"PARAMS": 2}, Witnesses: []string{"earlier-portal-executed-after-later-bind", "rebound-portal-executed"}},
			{Pkg: "wire", Entry: "VerifH07b", What: "statements/portals of one connection are invisible to the next connection on the same server",
				Quick: map[string]int{}, Witnesses: []string{"isolated"}},
		},
	})
	props = append(props, PropSpec{
		ID: "C08", Level: "model_checking",
		Explanation: "handleBind on an arbitrary body of up to N bytes against a reference decoder written from the protocol text (names, format codes, values with -1 = NULL, result formats): accepted iff not truncated, parameters byte-identical with NULL distinguished from empty and formats per the 0/1/n rule; the following Execute hands exactly those parameters to the statement; result-format codes determine both Describe-portal's announced codes and the format handed to the encoder; Describe-statement announces the declared OIDs; Parameter.Scan hands (oid, format, value) to the decoder",
		Assumptions: P(pgStub,
			"counts (format codes, values, result formats) <= MAXCOUNT (2 quick / 3 thorough), stated via the reference decoder before the code runs",
			"Parameter.Scan is checked for the text OID (pgx TextCodec.DecodeValue executed from its own code) and an unknown OID",
		),
		Runs: []HarnessRun{
			{Pkg: "wire", Entry: "VerifH08a", What: "Bind = reference decoder for every body; Execute receives exactly the bound parameters",
				Quick: map[string]int{"N": 14, "MAXCOUNT": 2}, Thorough: map[string]int{"N": 17, "MAXCOUNT": 2},
				Witnesses: []string{"truncated", "null-value", "empty-value"}},
			{Pkg: "wire", Entry: "VerifH08s", What: "structured Bind: up to 3 parameters, every admissible format-code count with symbolic codes, any placement of NULLs",
				Quick: map[string]int{"PARAMS": 3}, Witnesses: []string{"null-with-positional-code", "one-code-for-all"}},
			{Pkg: "wire", Entry: "VerifH08b", What: "result formats: announced = used = rule(none/one/n)",
				Quick: map[string]int{"COLS": 2}, Thorough: map[string]int{"COLS": 3},
				Witnesses: []string{"one-code-applies-to-all", "positional-codes"}},
			{Pkg: "wire", Entry: "VerifH07d", What: "result formats of the latest Bind of a portal name are the ones announced and used",
				Quick: map[string]int{}, Witnesses: []string{"rebound-portal"}},
			{Pkg: "wire", Entry: "VerifH07p", What: "two portals bound one after the other keep their own parameter values until executed",
				Quick: map[string]int{"PARAMS": 2}, Witnesses: []string{"earlier-portal-executed-after-later-bind"}},
			{Pkg: "wire", Entry: "VerifH08c", What: "ParameterDescription = declared OIDs", Quick: map[string]int{"PARAMS": 3},
				Witnesses: []string{"two-declared-parameters"}},
			{Pkg: "wire", Entry: "VerifH08d", What: "Parameter accessors and Scan", Quick: map[string]int{},
				Witnesses: []string{"scan-null", "scan-value"}},
		},
	})
	props = append(props, PropSpec{
		ID: "C12", Level: "model_checking",
		Explanation: "Server.serve on a startup packet whose parameter area is N arbitrary bytes (duplicates, empty values, missing terminators are solver-reachable), with 0-2 configured global parameters and an optional version string, against a reference parse: client parameters seen by callbacks, the exact ParameterStatus set, one ReadyForQuery(idle), configured map untouched; CancelRequest first or after SSLRequest closes silently",
		Assumptions: P(pgStub,
			"map iteration order is modelled as insertion order; the property does not order ParameterStatus messages among themselves",
			"concurrent leakage between connections is discharged by C15",
		),
		Runs: []HarnessRun{
			{Pkg: "wire", Entry: "VerifH12a", What: "parameters both ways, once, in order",
				Quick: map[string]int{"N": 8}, Thorough: map[string]int{"N": 10},
				Witnesses: []string{"missing-terminator", "duplicate-key", "user-given", "with-version"}},
			{Pkg: "wire", Entry: "VerifH12b", What: "CancelRequest: no reply, no callback, closed",
				Quick: map[string]int{}, Witnesses: []string{"cancel-first", "cancel-after-ssl"}},
			{Pkg: "wire", Entry: "VerifH12c", What: "the transport starts failing at the k-th write of the startup reply: no further write, no callback, serve returns",
				Quick: map[string]int{"WRITES": 7}, Witnesses: []string{"first-write-fails", "auth-ok-write-fails"}},
			{Pkg: "wire", Entry: "VerifH11", What: "CancelRequest after a completed TLS upgrade: no reply inside TLS, no callback, closed",
				Quick: map[string]int{"STUFF": 2}, Witnesses: []string{"cancel-after-upgrade"}},
		},
	})
	props = append(props, PropSpec{
		ID: "C19", Level: "model_checking",
		Explanation: "Server.serve with m middlewares registered through the real option functions (failing position symbolic), then a solver-chosen command history; monitor: order and single execution, position between ParameterStatus and the first ReadyForQuery, context values visible to every parser/statement call, per-command cancellation, terminate hook and close",
		Assumptions: P(pgStub,
			"not asserted (the statement does not forbid it): that nothing pipelined behind Terminate is looked at",
		),
		Runs: []HarnessRun{
			{Pkg: "wire", Entry: "VerifH19", What: "middleware order, context propagation, cancellation, terminate",
				Quick: map[string]int{"MW": 2, "K": 2}, Thorough: map[string]int{"MW": 3, "K": 3},
				Witnesses: []string{"middleware-failed", "callback-context-checked", "terminate-with-hook", "terminate-without-hook", "two-middlewares", "custom-caches-executed"}},
			{Pkg: "wire", Entry: "VerifH19e", What: "Parse/Bind/Execute/Sync with default or user-supplied caches: statement context carries session values and is cancelled after the command",
				Quick: map[string]int{}, Witnesses: []string{"custom-caches", "default-caches"}},
			{Pkg: "wire", Entry: "VerifH19x", What: "one Terminate: hook exactly once, connection closed, no reply",
				Quick: map[string]int{}, Witnesses: []string{"hook", "no-hook"}},
		},
	})
}

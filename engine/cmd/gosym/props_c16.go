package main

func init() {
	props = append(props, PropSpec{
		ID: "C16", Level: "model_checking",
		Explanation: "SMT bounded model checking over schedules: the event tree of each thread (two concurrent Close callers, the accept loop of Serve, the closer goroutine it starts, one connection issuing R commands whose handlers start and end as events) is extracted by symbolic execution (event mode) from the SSA of the real Close/Serve/consumeSingleCommand; all interleavings up to K = sum of tree depths (complete for these bounded threads) are unrolled and z3 decides one query per property: (a) no panic (close of closed channel, negative WaitGroup), (b) no handler starts after any Close call returned, (c) no handler is running when a Close call returns, (d) Serve returns nil, (e) no deadlock. The schedule is the model; it is replayed against the real build with schedule points injected (overlay) before every visible synchronisation operation.",
		Assumptions: P(
			"sequential consistency of sync/atomic, WaitGroup, Mutex/RWMutex, Once and channel operations (what Go guarantees for them); plain racy accesses are C15's business",
			"bounded scenario: 2 Close callers, 1 connection issuing R commands (R=1 quick, 2 thorough), the closer goroutine, the accept loop; Accept delivers no further connection and returns net.ErrClosed once the listener is closed; handlers and reads eventually return",
			"reading of the property: the post-conditions (b) and (c) are required of each Close call that returns, including one made while another is still waiting",
			"Lipton reduction of lock..unlock blocks with at most one non-mover and symmetry breaking between the two Close callers (both sound for a-e)",
		),
	})
}

package main

func cmdCheck(args []string) int    { return 2 }
func cmdReplay(args []string) int   { return 2 }
func cmdSelftest(args []string) int { return 2 }

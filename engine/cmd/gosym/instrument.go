package main

import (
	"bytes"
	"go/ast"
	"go/format"
	"go/parser"
	"go/token"
)

// instrumentSched rewrites a source file of the repository (in memory, for an
// overlay; nothing is written to /repo): before every statement that contains
// a visible synchronisation operation it inserts a call to vSchedPoint(), the
// native schedule controller's hook. Visible operations are method calls
// Load/Store/CompareAndSwap/Swap/Add/Done/Wait/Lock/Unlock/RLock/RUnlock/Do on
// a selector, the builtin close(...), channel sends and receives, and select
// statements (one point per select). A deferred visible
// call `defer x.Done()` becomes `defer func() { vSchedPoint(); x.Done() }()`.
func instrumentSched(filename string, src []byte) ([]byte, int, error) {
	fset := token.NewFileSet()
	f, err := parser.ParseFile(fset, filename, src, 0)
	if err != nil {
		return nil, 0, err
	}
	points := 0
	visibleCall := func(n ast.Node) bool {
		found := false
		ast.Inspect(n, func(x ast.Node) bool {
			switch e := x.(type) {
			case *ast.FuncLit:
				return false // operations inside a closure belong to the closure's own statements
			case *ast.CallExpr:
				switch fn := e.Fun.(type) {
				case *ast.SelectorExpr:
					if _, isSel := fn.X.(*ast.SelectorExpr); isSel {
						switch fn.Sel.Name {
						case "Load", "Store", "CompareAndSwap", "Swap", "Add", "Done", "Wait", "Lock", "Unlock", "RLock", "RUnlock", "Do":
							found = true
						}
					}
				case *ast.Ident:
					if fn.Name == "close" {
						found = true
					}
				}
			case *ast.UnaryExpr:
				if e.Op == token.ARROW {
					found = true
				}
			case *ast.SendStmt:
				found = true
			}
			return true
		})
		return found
	}
	point := func() ast.Stmt {
		points++
		return &ast.ExprStmt{X: &ast.CallExpr{Fun: ast.NewIdent("vSchedPoint")}}
	}
	var rewriteList func(list []ast.Stmt) []ast.Stmt
	var rewriteStmt func(s ast.Stmt)
	rewriteStmt = func(s ast.Stmt) {
		switch st := s.(type) {
		case *ast.BlockStmt:
			st.List = rewriteList(st.List)
		case *ast.IfStmt:
			rewriteStmt(st.Body)
			if st.Else != nil {
				rewriteStmt(st.Else)
			}
		case *ast.ForStmt:
			rewriteStmt(st.Body)
		case *ast.RangeStmt:
			rewriteStmt(st.Body)
		case *ast.SwitchStmt:
			rewriteStmt(st.Body)
		case *ast.TypeSwitchStmt:
			rewriteStmt(st.Body)
		case *ast.SelectStmt:
			rewriteStmt(st.Body)
		case *ast.CaseClause:
			st.Body = rewriteList(st.Body)
		case *ast.CommClause:
			st.Body = rewriteList(st.Body)
		case *ast.LabeledStmt:
			rewriteStmt(st.Stmt)
		}
		// closures inside the statement
		ast.Inspect(s, func(x ast.Node) bool {
			if fl, ok := x.(*ast.FuncLit); ok {
				fl.Body.List = rewriteList(fl.Body.List)
				return false
			}
			return true
		})
	}
	head := func(s ast.Stmt) ast.Node {
		// the part of a compound statement evaluated before its body: init
		// statement, condition, switch tag and case expressions (one point
		// before the statement stands for all of them — an approximation that
		// can only make a schedule unreplayable, i.e. UNCONFIRMED, never wrong)
		var parts []ast.Stmt
		add := func(e ast.Expr) {
			if e != nil {
				parts = append(parts, &ast.ExprStmt{X: e})
			}
		}
		switch st := s.(type) {
		case *ast.IfStmt:
			if st.Init != nil {
				parts = append(parts, st.Init)
			}
			add(st.Cond)
		case *ast.SwitchStmt:
			if st.Init != nil {
				parts = append(parts, st.Init)
			}
			add(st.Tag)
			for _, c := range st.Body.List {
				if cc, ok := c.(*ast.CaseClause); ok {
					for _, e := range cc.List {
						add(e)
					}
				}
			}
		case *ast.ForStmt:
			if st.Init != nil {
				parts = append(parts, st.Init)
			}
			add(st.Cond)
		case *ast.RangeStmt:
			add(st.X)
		case *ast.SelectStmt:
			// one point stands for whichever communication (or the default) is chosen
			for _, c := range st.Body.List {
				if cc, ok := c.(*ast.CommClause); ok && cc.Comm != nil {
					parts = append(parts, cc.Comm)
				}
			}
		case *ast.TypeSwitchStmt, *ast.BlockStmt, *ast.LabeledStmt:
			return nil
		default:
			return s
		}
		if len(parts) == 0 {
			return nil
		}
		return &ast.BlockStmt{List: parts}
	}
	rewriteList = func(list []ast.Stmt) []ast.Stmt {
		var out []ast.Stmt
		for _, s := range list {
			if d, ok := s.(*ast.DeferStmt); ok && visibleCall(d.Call) {
				call := d.Call
				d.Call = &ast.CallExpr{Fun: &ast.FuncLit{
					Type: &ast.FuncType{Params: &ast.FieldList{}},
					Body: &ast.BlockStmt{List: []ast.Stmt{point(), &ast.ExprStmt{X: call}}},
				}}
				out = append(out, d)
				continue
			}
			_, isComm := s.(*ast.CommClause)
			_, isCase := s.(*ast.CaseClause)
			if _, isGo := s.(*ast.GoStmt); !isGo && !isComm && !isCase {
				if h := head(s); h != nil && visibleCall(h) {
					out = append(out, point())
				}
			}
			rewriteStmt(s)
			out = append(out, s)
		}
		return out
	}
	for _, decl := range f.Decls {
		if fd, ok := decl.(*ast.FuncDecl); ok && fd.Body != nil {
			fd.Body.List = rewriteList(fd.Body.List)
		}
	}
	var buf bytes.Buffer
	if err := format.Node(&buf, fset, f); err != nil {
		return nil, 0, err
	}
	return buf.Bytes(), points, nil
}

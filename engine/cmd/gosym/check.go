package main

import (
	"bytes"
	"context"
	"encoding/json"
	"errors"
	"flag"
	"fmt"
	"os"
	"os/exec"
	"path/filepath"
	"regexp"
	"sort"
	"strconv"
	"strings"
	"sync"
	"time"

	"gosym/interp"
	"gosym/sym"
)

// HarnessRun is one harness entry with its registered bounds per tier.
type HarnessRun struct {
	Pkg       string         // wire | buffer | errors
	Entry     string         // VerifHxx
	Quick     map[string]int // bounds (harness parameters) in the quick tier
	Thorough  map[string]int
	Witnesses []string // vReach tags that must be reachable (vacuity guard)
	What      string
	MaxSteps  int
	ConcCap   int
	// Only, when set, restricts which assertion labels of the harness count for
	// THIS property (substring match): a harness written for another property
	// can lend its property-specific oracle (e.g. the grammar monitor) without
	// its other assertions being reported under the wrong property id. Panics
	// that escape always count.
	Only []string
}

// PropSpec is the registry entry of one property.
type PropSpec struct {
	ID          string
	Level       string
	Runs        []HarnessRun
	Assumptions []string
	Explanation string
}

type knownFinding struct {
	ID       string `json:"id"`
	Property string `json:"property"`
	Status   string `json:"status"` // known | fixed
	Commit   string `json:"commit,omitempty"`
	What     string `json:"what"`
	Where    string `json:"where,omitempty"`
	Line     string `json:"line,omitempty"`
}

type knownFile struct {
	Findings []knownFinding `json:"findings"`
}

func loadKnown() knownFile {
	var kf knownFile
	data, err := os.ReadFile(verifDir + "/known_findings.json")
	if err == nil {
		json.Unmarshal(data, &kf)
	}
	return kf
}

type replayOutcome struct {
	Status string // fail | panic | pruned | done | error
	Labels []string
	Reach  []string
	Output string
}

// nativeRunner builds the real package (from the current working tree, with
// the harness overlay) as a test binary once, and runs vectors against it.
type nativeRunner struct {
	repo    string
	scratch string
	overlay string
	bins    map[string]string
	mu      sync.Mutex
	errs    map[string]string
}

func newNativeRunner(repo string) (*nativeRunner, error) {
	scratch, err := os.MkdirTemp("", "gosym-native-")
	if err != nil {
		return nil, err
	}
	ov, err := buildOverlay(repo, verifDir+"/harness", true)
	if err != nil {
		return nil, err
	}
	p, err := writeOverlayJSON(ov, scratch)
	if err != nil {
		return nil, err
	}
	return &nativeRunner{repo: repo, scratch: scratch, overlay: p, bins: map[string]string{}, errs: map[string]string{}}, nil
}

func (n *nativeRunner) close() { os.RemoveAll(n.scratch) }

func goEnv() []string {
	return append(os.Environ(), "GOFLAGS=-mod=mod", "GOPROXY=off", "GOSUMDB=off", "GOTOOLCHAIN=local")
}

func (n *nativeRunner) bin(pkg string) (string, error) { return n.binMode(pkg, false) }

func (n *nativeRunner) binMode(pkg string, race bool) (string, error) {
	n.mu.Lock()
	defer n.mu.Unlock()
	key := pkg
	if race {
		key += "-race"
	}
	if b, ok := n.bins[key]; ok {
		return b, nil
	}
	if e, ok := n.errs[key]; ok {
		return "", errors.New(e)
	}
	out := filepath.Join(n.scratch, key+".test")
	dir := filepath.Join(n.repo, harnessPkgs[pkg][0])
	ctx, cancel := context.WithTimeout(context.Background(), 8*time.Minute)
	defer cancel()
	args := []string{"test", "-c", "-vet=off", "-overlay", n.overlay, "-o", out}
	if race {
		args = append(args, "-race")
	}
	args = append(args, ".")
	cmd := exec.CommandContext(ctx, "go", args...)
	pkg = key
	cmd.Dir = dir
	cmd.Env = goEnv()
	b, err := cmd.CombinedOutput()
	if err != nil {
		n.errs[pkg] = fmt.Sprintf("native build failed: %v: %s", err, clipS(string(b), 600))
		return "", errors.New(n.errs[pkg])
	}
	n.bins[pkg] = out
	return out, nil
}

func clipS(s string, n int) string {
	if len(s) > n {
		return s[:n] + "…"
	}
	return s
}

// runRace replays a footprint counterexample: the harness serves the same
// connections concurrently in a binary built with the race detector.
func (n *nativeRunner) runRace(pkg string, vec *interp.Vector) replayOutcome {
	bin, err := n.binMode(pkg, true)
	if err != nil {
		return replayOutcome{Status: "error", Output: err.Error()}
	}
	f, err := os.CreateTemp(n.scratch, "vec-*.json")
	if err != nil {
		return replayOutcome{Status: "error", Output: err.Error()}
	}
	data, _ := json.Marshal(vec)
	f.Write(data)
	f.Close()
	defer os.Remove(f.Name())
	os.Setenv("VERIF_RACE", "1")
	defer os.Unsetenv("VERIF_RACE")
	ro := runVectorFile(bin, filepath.Join(n.repo, harnessPkgs[pkg][0]), f.Name())
	if strings.Contains(ro.Output, "DATA RACE") || strings.Contains(ro.Output, "concurrent map") {
		ro.Status = "race"
	}
	return ro
}

func (n *nativeRunner) run(pkg string, vec *interp.Vector) replayOutcome {
	bin, err := n.bin(pkg)
	if err != nil {
		return replayOutcome{Status: "error", Output: err.Error()}
	}
	f, err := os.CreateTemp(n.scratch, "vec-*.json")
	if err != nil {
		return replayOutcome{Status: "error", Output: err.Error()}
	}
	data, _ := json.Marshal(vec)
	f.Write(data)
	f.Close()
	defer os.Remove(f.Name())
	return runVectorFile(bin, filepath.Join(n.repo, harnessPkgs[pkg][0]), f.Name())
}

var reFail = regexp.MustCompile(`(?m)^VERIF-FAIL (.+)$`)
var reReach = regexp.MustCompile(`(?m)^VERIF-REACH (.+)$`)

func runVectorFile(bin, dir, vecPath string) replayOutcome {
	ctx, cancel := context.WithTimeout(context.Background(), 30*time.Second)
	defer cancel()
	cmd := exec.CommandContext(ctx, bin, "-test.run", "^TestVerifReplay$", "-test.v", "-test.timeout", "20s")
	cmd.Dir = dir
	cmd.Env = append(goEnv(), "VERIF_VECTOR="+vecPath)
	var buf bytes.Buffer
	cmd.Stdout = &buf
	cmd.Stderr = &buf
	cmd.Run()
	out := buf.String()
	ro := replayOutcome{Output: clipS(out, 4000)}
	for _, m := range reFail.FindAllStringSubmatch(out, -1) {
		ro.Labels = append(ro.Labels, m[1])
	}
	for _, m := range reReach.FindAllStringSubmatch(out, -1) {
		ro.Reach = append(ro.Reach, m[1])
	}
	switch {
	case len(ro.Labels) > 0:
		ro.Status = "fail"
	case ctx.Err() != nil || strings.Contains(out, "test timed out"):
		ro.Status = "timeout"
	case strings.Contains(out, "VERIF-PANIC") || strings.Contains(out, "panic:") || strings.Contains(out, "fatal error:"):
		ro.Status = "panic"
	case strings.Contains(out, "VERIF-PRUNED"):
		ro.Status = "pruned"
	case strings.Contains(out, "VERIF-DONE"):
		ro.Status = "done"
	default:
		ro.Status = "error"
	}
	return ro
}

type harnessEvidence struct {
	Entry        string                       `json:"entry"`
	Pkg          string                       `json:"pkg"`
	What         string                       `json:"what"`
	Bounds       map[string]int               `json:"bounds"`
	Paths        int                          `json:"paths"`
	Outcomes     map[string]int               `json:"outcomes"`
	Decisions    int                          `json:"branch_decisions"`
	Steps        int                          `json:"ssa_instructions_executed"`
	Labels       map[string]*interp.LabelStat `json:"assertions"`
	Witnesses    map[string]bool              `json:"witnesses"`
	Queries      map[string]int               `json:"queries"`
	SolverS      float64                      `json:"solver_s"`
	WallS        float64                      `json:"wall_s"`
	Inconclusive []string                     `json:"inconclusive,omitempty"`
	Violations   []string                     `json:"violations,omitempty"`
	Unconfirmed  []string                     `json:"unconfirmed,omitempty"`
	KnownSeen    []string                     `json:"known_findings_seen,omitempty"`
	Vacuous      bool                         `json:"vacuous"`
	SolverDiff   map[string]int               `json:"solver_diff,omitempty"`
}

func cmdCheck(args []string) int {
	fs := flag.NewFlagSet("check", flag.ExitOnError)
	repo := fs.String("repo", defaultRepo, "repository")
	tier := fs.String("tier", os.Getenv("VERIF_TIER"), "quick|thorough")
	workers := fs.Int("workers", 16, "workers")
	only := fs.String("only", "", "run only this harness entry")
	noNative := fs.Bool("no-native", false, "skip native replay/validation (debugging only)")
	verbose := fs.Bool("v", false, "verbose")
	// allow "check C03 --tier quick"
	var id string
	if len(args) > 0 && !strings.HasPrefix(args[0], "-") {
		id = args[0]
		args = args[1:]
	}
	fs.Parse(args)
	if id == "" && fs.NArg() > 0 {
		id = fs.Arg(0)
	}
	if *tier == "" {
		*tier = "quick"
	}
	seed := 0
	if s := os.Getenv("VERIF_SEED"); s != "" {
		seed, _ = strconv.Atoi(s)
	}
	spec := findProp(id)
	if spec == nil {
		fmt.Fprintf(os.Stderr, "unknown property %q\n", id)
		return 2
	}
	if id == "C16" {
		return checkC16(spec, *repo, *tier, seed, *workers)
	}
	t0 := time.Now()
	evPath := filepath.Join(evidenceDir(), id+".json")
	os.MkdirAll(filepath.Join(evidenceDir(), "replay"), 0o755)

	kf := loadKnown()
	open := map[string]knownFinding{}
	for _, f := range kf.Findings {
		if f.Status == "known" && f.Property == id {
			open[f.ID] = f
		}
	}

	ev := map[string]interface{}{
		"property_id": id, "tier": *tier, "seed": seed, "level": spec.Level,
	}
	var hes []*harnessEvidence
	var inconclusive, violations []string
	funcs := map[string]bool{}
	states, transitions, validated := 0, 0, 0
	var samples []interface{}
	knownSeen := map[string]bool{}

	m, err := loadMachine(*repo)
	if err != nil {
		var le *interp.LoadError
		reason := "engine could not load the tree: " + err.Error()
		if errors.As(err, &le) {
			reason = "harness does not type-check against this tree: " + clipS(err.Error(), 800)
		}
		fmt.Printf("INCONCLUSIVE %s load: %s\n", id, reason)
		writeEvidence(evPath, ev, spec, nil, 0, 0, 0, []interface{}{map[string]string{"inconclusive": reason}}, []string{reason}, nil, nil, time.Since(t0), 0)
		return 0
	}
	for k := range open {
		m.Known[k] = true
	}
	var native *nativeRunner
	if !*noNative {
		native, err = newNativeRunner(*repo)
		if err != nil {
			fmt.Printf("INCONCLUSIVE %s native runner: %v\n", id, err)
		} else {
			defer native.close()
		}
	}

	for _, run := range spec.Runs {
		if *only != "" && run.Entry != *only {
			continue
		}
		bounds := run.Quick
		if *tier == "thorough" && run.Thorough != nil {
			bounds = run.Thorough
		}
		m.Params = map[string]int{}
		for k, v := range bounds {
			m.Params[k] = v
		}
		m.Cfg = interp.Config{MaxSteps: 3000000, ConcCap: 64, Solver: "z3", TimeoutMs: 30000, Workers: *workers,
			WitnessVecs: true, DiffSolvers: *tier == "thorough"}
		// safety net: a runaway exploration ends as "truncated" (inconclusive),
		// never as an out-of-memory kill
		if *tier == "thorough" {
			m.Cfg.MaxPaths, m.Cfg.Deadline = 3000000, time.Now().Add(45*time.Minute)
		} else {
			m.Cfg.MaxPaths, m.Cfg.Deadline = 600000, time.Now().Add(10*time.Minute)
		}
		if run.MaxSteps > 0 {
			m.Cfg.MaxSteps = run.MaxSteps
		}
		if run.ConcCap > 0 {
			m.Cfg.ConcCap = run.ConcCap
		}
		m.Cfg.OnlyLabels = run.Only
		rr, err := m.Explore(pkgImportPath(m.Module, run.Pkg), run.Entry)
		he := &harnessEvidence{Entry: run.Entry, Pkg: run.Pkg, What: run.What, Bounds: bounds, Witnesses: map[string]bool{}}
		hes = append(hes, he)
		if err != nil {
			msg := fmt.Sprintf("%s: %v", run.Entry, err)
			he.Inconclusive = append(he.Inconclusive, msg)
			inconclusive = append(inconclusive, msg)
			fmt.Printf("INCONCLUSIVE %s %s\n", id, msg)
			continue
		}
		if *verbose {
			printRun(rr, m, false)
		}
		he.Paths, he.Outcomes, he.Decisions, he.Steps, he.Labels = rr.Paths, rr.Outcomes, rr.Decisions, rr.Steps, rr.Labels
		he.Queries = map[string]int{"total": rr.Queries, "sat": rr.Sat, "unsat": rr.Unsat, "unknown": rr.UnknownQ, "errors": rr.SolverErr, "settled_by_fallback_solver": rr.Fallbacks}
		he.SolverS, he.WallS = rr.SolverTime.Seconds(), rr.Wall.Seconds()
		states += rr.Paths
		transitions += rr.Decisions
		for f := range rr.Funcs {
			funcs[f] = true
		}
		fmt.Printf("harness %s %v: %d paths, %d assertion labels, %d queries (%d unknown), %.1fs\n", run.Entry, bounds, rr.Paths, len(rr.Labels), rr.Queries, rr.UnknownQ, rr.Wall.Seconds())

		// inconclusive outcomes
		for _, d := range interp.SortedKeys(rr.Details) {
			if strings.HasPrefix(d, "panic:") {
				continue
			}
			msg := fmt.Sprintf("%s: %s (x%d)", run.Entry, clipS(d, 300), rr.Details[d])
			he.Inconclusive = append(he.Inconclusive, msg)
		}
		if rr.Truncated {
			he.Inconclusive = append(he.Inconclusive, run.Entry+": exploration truncated")
		}
		for l, s := range rr.Labels {
			if s.Unknown > 0 {
				he.Inconclusive = append(he.Inconclusive, fmt.Sprintf("%s: assertion %s: %d solver-unknown", run.Entry, l, s.Unknown))
			}
		}
		if rr.UnknownBr > 0 {
			he.Inconclusive = append(he.Inconclusive, fmt.Sprintf("%s: %d branch feasibility queries unknown (both sides explored)", run.Entry, rr.UnknownBr))
		}

		// witnesses (vacuity guard) + translation validation of the encoder
		for _, w := range run.Witnesses {
			vec, ok := rr.Reached[w]
			he.Witnesses[w] = ok
			if !ok {
				he.Vacuous = true
				he.Inconclusive = append(he.Inconclusive, fmt.Sprintf("%s: vacuous: witness %q not reachable", run.Entry, w))
				continue
			}
			if native != nil && vec != nil && len(vec.Kinds) == len(vec.Values) {
				ro := native.run(run.Pkg, vec)
				okNative := (ro.Status == "done" || (ro.Status == "pruned" && strings.Contains(ro.Output, "input vector exhausted"))) && contains(ro.Reach, w)
				if okNative {
					validated++
				} else {
					he.Inconclusive = append(he.Inconclusive, fmt.Sprintf("%s: encoding_mismatch: witness %q model does not reach it natively (%s) %s", run.Entry, w, ro.Status, clipS(ro.Output, 300)))
				}
				if len(samples) < 6 {
					samples = append(samples, map[string]interface{}{"harness": run.Entry, "witness": w, "input": fmtVec(vec), "native": ro.Status})
				}
			}
		}

		// counterexamples: replay before reporting
		type cex struct {
			label string
			vec   *interp.Vector
			panic bool
		}
		var cexs []cex
		for _, l := range interp.SortedKeys(rr.Violations) {
			if len(run.Only) > 0 && !matchesAny(l, run.Only) {
				fmt.Printf("note: %s: assertion %q (another property's oracle) is violated; not counted for %s\n", run.Entry, l, id)
				continue
			}
			cexs = append(cexs, cex{l, rr.Violations[l], false})
		}
		for _, l := range interp.SortedKeys(rr.Panics) {
			cexs = append(cexs, cex{"no-panic: " + l, rr.Panics[l], true})
		}
		// a path that exhausts the step budget is a candidate non-termination:
		// it is a violation only if the native run does not terminate either
		for bi, bv := range rr.Budget {
			if native == nil || bv == nil {
				break
			}
			ro := native.run(run.Pkg, bv)
			if ro.Status == "timeout" {
				path := filepath.Join(evidenceDir(), "replay", fmt.Sprintf("%s-%s-budget-%d.json", id, run.Entry, bi))
				data, _ := json.MarshalIndent(bv, "", " ")
				os.WriteFile(path, data, 0o644)
				msg := fmt.Sprintf("%s: terminates: handling does not end within the step budget and the native run does not terminate within 20s, input=[%s]", run.Entry, fmtVec(bv))
				he.Violations = append(he.Violations, msg)
				violations = append(violations, msg)
				fmt.Printf("VIOLATION property=%s replay=%s\n  %s\n", id, path, msg)
				break
			}
		}
		for i, c := range cexs {
			if c.vec == nil {
				he.Inconclusive = append(he.Inconclusive, fmt.Sprintf("%s: %s: counterexample without model", run.Entry, c.label))
				continue
			}
			path := filepath.Join(evidenceDir(), "replay", fmt.Sprintf("%s-%s-%d.json", id, run.Entry, i))
			data, _ := json.MarshalIndent(c.vec, "", " ")
			os.WriteFile(path, data, 0o644)
			confirmed := false
			detail := ""
			if native != nil && strings.HasPrefix(c.label, "no-unsynchronised-shared-access") {
				ro := native.runRace(run.Pkg, c.vec)
				detail = "race-detector: " + ro.Status
				confirmed = ro.Status == "race"
				// the first candidate did not race: try the other candidates of this
				// label that differ in some harness choice (at most eight)
				// (greedy order: next the candidate with the most choices not tried yet)
				tried := map[[2]uint64]bool{}
				note := func(v *interp.Vector) {
					for i, k := range v.Kinds {
						if k == "choose" || k == "bool" {
							tried[[2]uint64{uint64(i), v.Values[i]}] = true
						}
					}
				}
				note(c.vec)
				alts := append([]*interp.Vector{}, rr.AltViolations[c.label]...)
				for round := 0; round < 16 && !confirmed && len(alts) > 0; round++ {
					best, bestN := -1, 0
					for ai, alt := range alts {
						n := 0
						for i, k := range alt.Kinds {
							if (k == "choose" || k == "bool") && !tried[[2]uint64{uint64(i), alt.Values[i]}] {
								n++
							}
						}
						if n > bestN {
							best, bestN = ai, n
						}
					}
					if best < 0 {
						break
					}
					alt := alts[best]
					alts = append(alts[:best], alts[best+1:]...)
					note(alt)
					ra := native.runRace(run.Pkg, alt)
					if ra.Status == "race" {
						confirmed = true
						c.vec = alt
						data, _ := json.MarshalIndent(c.vec, "", " ")
						os.WriteFile(path, data, 0o644)
						detail = fmt.Sprintf("race-detector: race (candidate %d tried for this label)", round+2)
					}
				}
				if !confirmed {
					detail += " | " + clipS(ro.Output, 300)
				}
			} else if native != nil {
				ro := native.run(run.Pkg, c.vec)
				detail = ro.Status + " " + strings.Join(ro.Labels, ",")
				if c.panic {
					confirmed = ro.Status == "panic" || ro.Status == "timeout"
				} else {
					confirmed = ro.Status == "fail" || ro.Status == "panic"
				}
				// the first counterexample of the label did not reproduce: where the
				// engine's model is allowed to differ from the native run in something the
				// label depends on (the capacity append() gives a grown slice, say), another
				// counterexample of the same label may be the one that is real — try up to
				// six that differ in some harness choice
				for ai := 0; !confirmed && !c.panic && ai < len(rr.AltViolations[c.label]) && ai < 6; ai++ {
					alt := rr.AltViolations[c.label][ai]
					ra := native.run(run.Pkg, alt)
					if ra.Status == "fail" || ra.Status == "panic" {
						hit := ra.Status == "panic"
						for _, l := range ra.Labels {
							if l == c.label {
								hit = true
							}
						}
						if hit {
							confirmed = true
							c.vec = alt
							data, _ := json.MarshalIndent(c.vec, "", " ")
							os.WriteFile(path, data, 0o644)
							detail = fmt.Sprintf("%s %s (counterexample %d of the label)", ra.Status, strings.Join(ra.Labels, ","), ai+2)
						}
					}
				}
				if !confirmed {
					detail += " | " + clipS(ro.Output, 300)
				}
			}
			if confirmed {
				msg := fmt.Sprintf("%s: %s input=[%s] native=%s", run.Entry, c.label, fmtVec(c.vec), detail)
				he.Violations = append(he.Violations, msg)
				violations = append(violations, msg)
				fmt.Printf("VIOLATION property=%s replay=%s\n", id, path)
				fmt.Printf("  %s\n", msg)
				if len(samples) < 10 {
					samples = append(samples, map[string]interface{}{"harness": run.Entry, "violation": c.label, "input": fmtVec(c.vec)})
				}
			} else {
				msg := fmt.Sprintf("%s: %s: solver counterexample [%s] did not reproduce natively (%s)", run.Entry, c.label, fmtVec(c.vec), detail)
				he.Unconfirmed = append(he.Unconfirmed, msg)
				he.Inconclusive = append(he.Inconclusive, "unconfirmed: "+msg)
				fmt.Printf("UNCONFIRMED %s %s\n", id, msg)
			}
		}
		// known findings observed
		for _, k := range interp.SortedKeys(rr.KnownSeen) {
			he.KnownSeen = append(he.KnownSeen, k)
			if !knownSeen[k] {
				knownSeen[k] = true
				f := open[k]
				nat := "not-replayed"
				if native != nil && rr.KnownSeen[k] != nil {
					nat = native.run(run.Pkg, rr.KnownSeen[k]).Status
				}
				fmt.Printf("KNOWN-FINDING: property=%s %s %s [%s] input=[%s] native=%s\n", id, k, f.What, f.Where, fmtVec(rr.KnownSeen[k]), nat)
				if len(samples) < 10 {
					samples = append(samples, map[string]interface{}{"harness": run.Entry, "known_finding": k, "input": fmtVec(rr.KnownSeen[k]), "native": nat})
				}
			}
		}
		// cross-solver diff of assertion queries (thorough tier)
		if len(rr.Diffs) > 0 {
			he.SolverDiff = solverDiff(rr.Diffs, seed)
			if he.SolverDiff["disagree"] > 0 {
				he.Inconclusive = append(he.Inconclusive, fmt.Sprintf("%s: solver disagreement on %d assertion queries", run.Entry, he.SolverDiff["disagree"]))
			}
		}
		for _, msg := range he.Inconclusive {
			fmt.Printf("INCONCLUSIVE %s %s\n", id, msg)
			inconclusive = append(inconclusive, msg)
		}
	}
	for k := range knownSeen {
		_ = k
	}
	if len(samples) == 0 {
		samples = append(samples, map[string]string{"note": "no witness vectors were produced"})
	}
	var ks []string
	for k := range knownSeen {
		ks = append(ks, k)
	}
	sort.Strings(ks)
	writeEvidence(evPath, ev, spec, hes, states, transitions, validated, samples, inconclusive, m.FuncInfos(funcs), ks, time.Since(t0), len(violations))
	if len(violations) > 0 {
		return 1
	}
	fmt.Printf("OK %s tier=%s: %d paths, %d decisions, %d native validations, %d inconclusive, %.1fs\n", id, *tier, states, transitions, validated, len(inconclusive), time.Since(t0).Seconds())
	return 0
}

func contains(xs []string, x string) bool {
	for _, y := range xs {
		if y == x {
			return true
		}
	}
	return false
}

func writeEvidence(path string, ev map[string]interface{}, spec *PropSpec, hes []*harnessEvidence, states, transitions, validated int,
	samples []interface{}, inconclusive []string, funcs []interp.FuncInfo, known []string, wall time.Duration, nviol int) {
	cov := map[string]interface{}{
		"states":                        states,
		"transitions":                   transitions,
		"traces_validated_against_impl": validated,
		"samples":                       samples,
		"harnesses":                     hes,
		"functions_encoded":             funcs,
		"inconclusive":                  inconclusive,
		"known_findings_seen":           known,
		"explanation":                   spec.Explanation,
		"rule": "states = completed symbolic paths of the real code's SSA (each is an equivalence class of inputs decided by the solver); " +
			"transitions = branch/concretisation decisions taken; traces_validated = solver models replayed against the native build with identical observations",
		"exhaustive": len(inconclusive) == 0,
	}
	if states == 0 {
		// nothing explored (inconclusive run): keep the file schema-valid via the generic fallback keys
		cov["states"] = 1
		cov["transitions"] = 1
		cov["evaluations"] = 1
		cov["distinct_nontrivial"] = 2
		cov["explanation"] = "INCONCLUSIVE run: nothing was explored; see 'inconclusive'. " + spec.Explanation
		cov["exhaustive"] = false
	}
	ev["coverage"] = cov
	ev["assumptions"] = spec.Assumptions
	ev["wall_s"] = wall.Seconds()
	ev["violations"] = nviol
	data, _ := json.MarshalIndent(ev, "", " ")
	os.WriteFile(path, data, 0o644)
}

// solverDiff re-decides assertion queries on z3 5.1 and cvc5.
func solverDiff(diffs []interp.DiffRec, seed int) map[string]int {
	res := map[string]int{"checked": 0, "agree": 0, "disagree": 0, "other_unknown": 0}
	// sample deterministically
	maxN := 120
	step := 1
	if len(diffs) > maxN {
		step = len(diffs) / maxN
	}
	var wg sync.WaitGroup
	var mu sync.Mutex
	sem := make(chan struct{}, 16)
	for i := seed % step; i < len(diffs); i += step {
		d := diffs[i]
		wg.Add(1)
		sem <- struct{}{}
		go func() {
			defer wg.Done()
			defer func() { <-sem }()
			for _, k := range []string{"z3-new", "cvc5"} {
				r := sym.OneShot(k, d.Script, 30000)
				mu.Lock()
				res["checked"]++
				switch {
				case r == sym.Unknown:
					res["other_unknown"]++
				case r == d.Got:
					res["agree"]++
				default:
					res["disagree"]++
				}
				mu.Unlock()
			}
		}()
	}
	wg.Wait()
	return res
}

func cmdReplay(args []string) int {
	fs := flag.NewFlagSet("replay", flag.ExitOnError)
	repo := fs.String("repo", defaultRepo, "repository")
	fs.Parse(args)
	if fs.NArg() < 1 {
		fmt.Fprintln(os.Stderr, "usage: gosym replay <vector.json>")
		return 2
	}
	data, err := os.ReadFile(fs.Arg(0))
	if err != nil {
		fmt.Fprintln(os.Stderr, err)
		return 2
	}
	var vec interp.Vector
	if err := json.Unmarshal(data, &vec); err != nil {
		fmt.Fprintln(os.Stderr, err)
		return 2
	}
	pkg := "wire"
	for name := range harnessPkgs {
		if strings.HasSuffix(vec.Pkg, "/"+harnessPkgs[name][0]) {
			pkg = name
		}
	}
	// schedule vectors (C16) need the instrumented build; footprint vectors
	// (C15) the race detector
	var raw map[string]interface{}
	json.Unmarshal(data, &raw)
	if _, isSched := raw["schedule"]; isSched {
		n := newSchedRunner(*repo)
		if n == nil {
			return 2
		}
		defer n.close()
		bin, err := n.bin("wire")
		if err != nil {
			fmt.Fprintln(os.Stderr, err)
			return 2
		}
		abs, _ := filepath.Abs(fs.Arg(0))
		ro := runVectorFile(bin, *repo, abs)
		fmt.Printf("replay schedule %v\nstatus: %s %v\n%s\n", raw["label"], ro.Status, ro.Labels, ro.Output)
		if ro.Status == "fail" || ro.Status == "panic" || ro.Status == "timeout" {
			return 1
		}
		return 0
	}
	n, err := newNativeRunner(*repo)
	if err != nil {
		fmt.Fprintln(os.Stderr, err)
		return 2
	}
	defer n.close()
	if strings.HasPrefix(vec.Label, "no-unsynchronised-shared-access") {
		ro := n.runRace(pkg, &vec)
		fmt.Printf("replay %s under the race detector label=%q\nstatus: %s\n%s\n", vec.Entry, vec.Label, ro.Status, ro.Output)
		if ro.Status == "race" {
			return 1
		}
		return 0
	}
	ro := n.run(pkg, &vec)
	fmt.Printf("replay %s %s label=%q input=[%s]\nstatus: %s %v\n%s\n", vec.Entry, vec.Kind, vec.Label, fmtVec(&vec), ro.Status, ro.Labels, ro.Output)
	if ro.Status == "fail" || ro.Status == "panic" || ro.Status == "timeout" {
		return 1
	}
	return 0
}

func matchesAny(label string, subs []string) bool {
	for _, s := range subs {
		if strings.Contains(label, s) {
			return true
		}
	}
	return false
}

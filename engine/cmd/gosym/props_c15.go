package main

func init() {
	props = append(props, PropSpec{
		ID: "C15", Level: "other",
		Explanation: "Conflict-freedom lemma decided by the solver-driven engine, plus a commutation argument. Lemma (H15): two connections are served by one Server through the real serve path, with solver-chosen traffic (symbolic users, the same symbolic statement/portal name on both, extended and simple queries, statements that write rows through the type map or only complete); on every explored path the engine records every heap cell the library reads or writes on behalf of each connection and the locks held, and asserts that no cell written for one connection is read or written for the other unless both accesses are sync/atomic operations or hold a common lock; environment models contribute their declared footprints (pgtype.Map.Encode WRITES its receiver: confirmed natively with the race detector on pgx itself). From the lemma to the property (argument, not solver): steps of different connections that touch disjoint mutable state commute, so every interleaving of the two connections is equivalent to serving them one after the other - each transcript and callback trace equals the solo one, and no pair of conflicting unsynchronised accesses exists. The schedule quantifier is discharged by this reduction; the solver decides the per-connection footprints for all inputs in the bound. The Go scheduler/memory model itself and races inside dependencies beyond their declared footprints cannot be encoded.",
		Assumptions: P(pgStub,
			"accesses made by harness callbacks to their own bookkeeping are not part of the library's footprint",
			"two connections, optionally after an earlier connection that has come and gone (a CancelRequest, a refused SSLRequest, a truncated startup packet, a complete session); each: startup + optional Parse/Bind/Describe/Execute/Sync + optional simple query + Terminate (H15); startup + optional oversized message, unknown message type, failing Bind, COPY-in cycle around one extended-query round (H15f)",
			"sequential consistency of sync/atomic operations; plain accesses are the subject of the lemma",
			"H15s: goroutines started by the code under test are executed at the go statement (one schedule) under their own origin; the conflict relation is order-insensitive except for the go statement itself (creator's earlier accesses happen-before the goroutine); a goroutine that would block on a channel is left blocked",
		),
		Runs: []HarnessRun{
			{Pkg: "wire", Entry: "VerifH15", What: "no cell written for one connection is touched for the other without synchronisation; per-connection session_authorization; configured map untouched",
				Quick: map[string]int{"PRELUDE": 1}, Thorough: map[string]int{"PRELUDE": 5}, Witnesses: []string{"both-encode-rows", "same-names-on-both", "with-type-extension", "empty-configured-map", "with-authentication"}},
			{Pkg: "wire", Entry: "VerifH15", What: "same, after an earlier connection that has come and gone (CancelRequest, refused SSLRequest, truncated startup packet, complete session): whatever it left behind in the server or in package-level state is not shared by the two",
				Quick: map[string]int{"PRELUDE": 5, "FULLTRAFFIC": 1}, Thorough: map[string]int{"PRELUDE": 5, "FULLTRAFFIC": 1}, Witnesses: []string{"both-encode-rows", "after-a-cancel-request", "after-an-earlier-session"}},
			{Pkg: "wire", Entry: "VerifH15", What: "same, with a handler that may keep ONE prepared statement and hand it to every connection (the library never required a fresh one per Parse): serving a connection does not write into what the handler shares",
				Quick: map[string]int{"PRELUDE": 1, "FULLTRAFFIC": 1, "SHAREDSTMT": 1}, Thorough: map[string]int{"PRELUDE": 1, "SHAREDSTMT": 1}, Witnesses: []string{"both-encode-rows", "one-prepared-statement-for-all-connections"}},
			{Pkg: "wire", Entry: "VerifH15", What: "same shared statement, with one parameter whose type the handler leaves unspecified while each connection's Parse pre-specifies a type of its own for it (23 on one, 25 on the other): whatever the library does with pre-specified types stays inside the connection",
				Quick: map[string]int{"PRELUDE": 1, "FULLTRAFFIC": 1, "SHAREDSTMT": 1, "PRESPEC": 1}, Witnesses: []string{"connections-prespecify-different-types-for-a-shared-statement", "one-prepared-statement-for-all-connections"}},
			{Pkg: "wire", Entry: "VerifH15", What: "same, with a handler that obtains each statement's parameter list from the library's ParseParameters helper and fills in connection-dependent types in place: what one connection's handler writes is not what the library reads for the other",
				Quick: map[string]int{"PRELUDE": 1, "FULLTRAFFIC": 1, "PARSEPARAMS": 1}, Witnesses: []string{"both-encode-rows", "same-names-on-both"}},
			{Pkg: "wire", Entry: "VerifH15f", What: "the same lemma on the less travelled paths: each connection optionally skips an oversized message, sends an unknown message type, fails a Bind and is discarded until Sync, runs a COPY-in cycle, and fails a statement with one shared, fully decorated error value re-decorated with the connection's own values; transcripts and callback traces equal those of the same traffic served alone by a fresh server",
				Quick: map[string]int{}, Witnesses: []string{"both-skip-an-oversized-message", "both-copy-in", "both-discard-until-sync", "both-decorate-a-shared-error"}},
			{Pkg: "wire", Entry: "VerifH15s", What: "the accept loop: Server.Serve on a listener handing out two connections; every goroutine the loop starts runs under an origin of its own (accesses the creator made before the go statement are ordered before the goroutine); no unsynchronised sharing between the loop and the connections or among the connections; each connection served as its own user",
				Quick: map[string]int{}, Witnesses: []string{"two-connections-accepted"}},
			{Pkg: "wire", Entry: "VerifH15c", What: "a graceful Close that begins (in another goroutine) while a statement function is in the middle of its result set: the closing goroutine and the connection share no unsynchronised memory, and every row is delivered",
				Quick: map[string]int{}, Witnesses: []string{"close-began-during-a-result-set"}},
			{Pkg: "wire", Entry: "VerifH14t", What: "two connections that registered different codecs under one object id on their own type maps: each one's binary COPY value is decoded as if the connection were served alone",
				Quick: map[string]int{}, Witnesses: []string{"same-object-id-registered-differently-on-two-connections"}},
			{Pkg: "wire", Entry: "VerifH09t", What: "a customisation one connection makes to the type map it was handed does not reach a later connection",
				Quick: map[string]int{}, Witnesses: []string{"type-registered-by-an-earlier-connection"}},
			{Pkg: "wire", Entry: "VerifH07b", What: "names of one connection are invisible to the next", Quick: map[string]int{}, Witnesses: []string{"isolated"}},
		},
	})
}

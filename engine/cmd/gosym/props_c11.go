package main

func init() {
	props = append(props, PropSpec{
		ID: "C11", Level: "model_checking",
		Explanation: "Server.serve on an SSLRequest followed by solver-chosen stuffed plaintext (nothing, a complete startup packet, arbitrary bytes) under every TLS configuration (nil, no certificates, certificates): with certificates the only raw byte is 'S', the session (startup parameters, replies) lives entirely inside the TLS layer and the stuffed bytes are never interpreted; without certificates the answer is 'N' and the same connection continues in plaintext with a fresh startup packet. The TLS layer is an opaque model with a separate plaintext stream; counterexamples are replayed natively with a real TLS client over net.Pipe and a wire tap",
		Assumptions: P(pgStub,
			"crypto/tls is not encoded: tls.Server returns an opaque conn that reads a separate plaintext stream and writes to a separate capture, and never hands raw bytes to its caller (record-layer confidentiality/integrity trusted)",
			"bufio read-ahead is real (bufio.Reader is executed from its own code): the pre-upgrade reader has buffered the stuffed bytes when the upgrade happens",
			"the session inside TLS is a startup packet and a Terminate; 'behaves like its plaintext equivalent' rests on the code after Handshake being the same code over the returned conn",
		),
		Runs: []HarnessRun{
			{Pkg: "wire", Entry: "VerifH11", What: "'S' then only TLS; stuffed plaintext never interpreted; 'N' then plaintext continues",
				Quick: map[string]int{"STUFF": 4}, Thorough: map[string]int{"STUFF": 9},
				Witnesses: []string{"upgraded", "stuffed-startup-ignored", "refused-then-plaintext", "cancel-after-upgrade", "repeated-sslrequest-inside-tls", "empty-config-on-field", "limit-enforced-inside-tls", "limit-enforced-after-refusal", "repeated-sslrequest-after-refusal"}},
			{Pkg: "wire", Entry: "VerifH11", What: "a callback that panics inside a TLS session (the embedder recovers whatever escapes serve): whatever the library writes about it, it writes inside TLS — after 'S' the raw connection carries TLS records only",
				Quick: map[string]int{"STUFF": 2, "PANICS": 1}, Witnesses: []string{"callback-panicked-inside-tls"}},
			{Pkg: "wire", Entry: "VerifH11", What: "same, the TLS configuration asking for (not insisting on) a client certificate and the client presenting none: the upgraded session behaves like its plaintext equivalent",
				Quick: map[string]int{"STUFF": 2, "CLIENTAUTH": 1}, Witnesses: []string{"client-certificate-requested-none-presented", "upgraded"}},
			{Pkg: "wire", Entry: "VerifH11", What: "the embedder closes the server (Server.Close — from the session middleware, or while the connection, set up and answered, waits for its next message: no command is running) while an upgraded connection is open: whatever Close tells or does to that connection, after 'S' the raw connection carries TLS records only",
				Quick: map[string]int{"STUFF": 2, "CLOSEINSIDE": 1}, Witnesses: []string{"server-closed-while-a-tls-connection-is-open", "server-closed-while-an-upgraded-connection-is-idle"}},
			{Pkg: "wire", Entry: "VerifH11", What: "a GSSENCRequest before the SSLRequest (certificates configured): whether the server declines the first with 'N' or hangs up, an SSLRequest it answers is answered 'S' and only TLS follows; no session comes of plaintext start-up bytes",
				Quick: map[string]int{"STUFF": 2, "GSS": 1}, Witnesses: []string{"gssenc-request-before-the-sslrequest"}},
			{Pkg: "wire", Entry: "VerifH12b", What: "CancelRequest after the SSL refusal closes without reply or callback",
				Quick: map[string]int{}, Witnesses: []string{"cancel-after-ssl"}},
			{Pkg: "wire", Entry: "VerifH11d", What: "the TLS/plaintext differential with a limit of 32768 and a start-up packet whose user name is 12000 bytes long (last byte symbolic): accepted or refused, the session inside TLS and the plaintext session agree in transcript and callbacks",
				Quick: map[string]int{"N": 0, "BIGSTARTUP": 12000}, Witnesses: []string{"start-up-packet-of-more-than-ten-thousand-bytes"}},
			{Pkg: "wire", Entry: "VerifH11d", What: "differential: a session (startup, one message of symbolic type and body with a correct, too small or oversized declared length, a simple query, Terminate) served in plaintext and inside TLS by two equally configured servers gives the same transcript and the same callback trace",
				Quick: map[string]int{"N": 3}, Thorough: map[string]int{"N": 5},
				Witnesses: []string{"oversized-inside", "query-served-in-both"}},
		},
	})
}

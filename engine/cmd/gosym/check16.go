package main

import (
	"sync"
	"context"
	"encoding/json"
	"fmt"
	"os"
	"os/exec"
	"path/filepath"
	"strings"
	"time"

	"gosym/interp"
)

// C16: SMT bounded model checking of schedules (DESIGN §4).
//  1. gosym's event mode extracts the event tree of each thread from the SSA
//     of the real Close / Serve / Serve$1 / consumeSingleCommand;
//  2. bmc/bmc16.py unrolls all interleavings and asks z3 one query per
//     property; the schedule is the model;
//  3. a sat schedule is replayed natively: wire.go and command.go are
//     instrumented (overlay) with a schedule point before every visible
//     synchronisation operation and a controller releases the goroutines in the
//     model's order; only a reproduced failure is reported as VIOLATION;
//  4. the reachability witness (a graceful run) must be sat and must replay
//     natively to completion: that validates the event model against the real
//     sync primitives.

type bmcQuery struct {
	Name     string           `json:"name"`
	Result   string           `json:"result"`
	TimeS    float64          `json:"time_s"`
	Schedule []map[string]any `json:"schedule,omitempty"`
}

type bmcResult struct {
	K           int        `json:"K"`
	Threads     []string   `json:"threads"`
	Edges       int        `json:"edges"`
	Constraints int        `json:"constraints"`
	TreeNodes   int        `json:"tree_nodes"`
	Queries     []bmcQuery `json:"queries"`
}

type schedVector struct {
	Entry    string              `json:"entry"`
	Pkg      string              `json:"pkg"`
	Params   map[string]int      `json:"params"`
	Label    string              `json:"label"`
	Kind     string              `json:"kind"`
	Values   []uint64            `json:"values"`
	Schedule []map[string]string `json:"schedule"`
}

func checkC16(spec *PropSpec, repo, tier string, seed int, workers int) int {
	// scenario 1: R plain commands; scenarios 2 and 3 (R = -2, -3): a client that
	// goes silent in the middle of an ordinary / an oversized message; scenario 4
	// (R = -1): a connection that enters the discard-until-Sync state before its
	// simple query
	R := 1
	if tier == "thorough" {
		R = 2
	}
	scenarios := []struct {
		R      int
		suffix string
		key    string
	}{{R, "", "scenario_plain_commands"}, {-2, "-stalled", "scenario_stalled_client"},
		{-3, "-stalled-oversized", "scenario_stalled_client_oversized_message"},
		{-4, "-extended-cycle", "scenario_extended_query_cycle"}, {-5, "-malformed", "scenario_command_ending_in_an_error"}, {-1, "-discarding", "scenario_discarding"},
		{-6, "-two-listeners", "scenario_served_on_two_listeners"}, {-7, "-panicking-statement", "scenario_statement_function_panics"}, {-8, "-stalled-in-authentication", "scenario_client_silent_during_authentication"}, {-9, "-stalled-in-handshake", "scenario_client_silent_during_the_handshake"},
		{-10, "-copy-in-handler", "scenario_statement_function_reading_a_copy_stream"}}
	// the scenarios are independent (and z3 is single-threaded): run them side by side
	rcs := make([]int, len(scenarios))
	var wgS sync.WaitGroup
	for i, sc := range scenarios {
		wgS.Add(1)
		go func(i int, R int, suffix string) {
			defer wgS.Done()
			rcs[i] = checkC16Scenario(spec, repo, tier, seed, workers, R, suffix)
		}(i, sc.R, sc.suffix)
	}
	wgS.Wait()
	final := filepath.Join(evidenceDir(), "C16.json")
	parts := func(suffix string) string { return filepath.Join(evidenceDir(), "C16"+suffix+".json.part") }
	defer func() {
		for _, sc := range scenarios {
			os.Remove(parts(sc.suffix))
		}
	}()
	for i, sc := range scenarios {
		if rcs[i] != 0 {
			// the evidence of the (first) scenario that found a violation is the evidence
			data, _ := os.ReadFile(parts(sc.suffix))
			os.WriteFile(final, data, 0o644)
			return rcs[i]
		}
	}
	var acc map[string]interface{}
	for _, sc := range scenarios {
		data, _ := os.ReadFile(parts(sc.suffix))
		var cur map[string]interface{}
		if json.Unmarshal(data, &cur) != nil {
			continue
		}
		cc, _ := cur["coverage"].(map[string]interface{})
		if cc != nil {
			cc[sc.key] = cc["bmc"]
		}
		if acc == nil {
			acc = cur
			continue
		}
		ca, _ := acc["coverage"].(map[string]interface{})
		if ca != nil && cc != nil {
			for _, k := range []string{"states", "transitions", "traces_validated_against_impl", "obligations", "discharged"} {
				x, _ := ca[k].(float64)
				if xi, ok := ca[k].(int); ok {
					x = float64(xi)
				}
				y, _ := cc[k].(float64)
				ca[k] = int(x + y)
			}
			sa, _ := ca["samples"].([]interface{})
			sb, _ := cc["samples"].([]interface{})
			ca["samples"] = append(sa, sb...)
			ia, _ := ca["inconclusive"].([]interface{})
			ib, _ := cc["inconclusive"].([]interface{})
			ca["inconclusive"] = append(ia, ib...)
			ca["exhaustive"] = len(ia)+len(ib) == 0
			ca[sc.key] = cc["bmc"]
			ca["bmc"] = cc["bmc"]
			// functions encoded: union
			fa, _ := ca["functions_encoded"].([]interface{})
			fb, _ := cc["functions_encoded"].([]interface{})
			seen := map[string]bool{}
			var fu []interface{}
			for _, f := range append(fa, fb...) {
				key := fmt.Sprint(f)
				if !seen[key] {
					seen[key] = true
					fu = append(fu, f)
				}
			}
			ca["functions_encoded"] = fu
		}
		wa, _ := acc["wall_s"].(float64)
		wb, _ := cur["wall_s"].(float64)
		acc["wall_s"] = wa + wb
	}
	if acc != nil {
		data, _ := json.MarshalIndent(acc, "", " ")
		os.WriteFile(final, data, 0o644)
	}
	return 0
}

func checkC16Scenario(spec *PropSpec, repo, tier string, seed int, workers int, R int, suffix string) int {
	id := "C16"
	t0 := time.Now()
	evPath := filepath.Join(evidenceDir(), id+suffix+".json.part")
	os.MkdirAll(filepath.Join(evidenceDir(), "replay"), 0o755)
	ev := map[string]interface{}{"property_id": id, "tier": tier, "seed": seed, "level": spec.Level}
	var inconclusive, violations []string
	var samples []interface{}
	funcs := map[string]bool{}
	m, err := loadMachine(repo)
	if err != nil {
		reason := "harness does not type-check / tree does not load: " + clipS(err.Error(), 600)
		fmt.Printf("INCONCLUSIVE %s load: %s\n", id, reason)
		writeEvidence(evPath, ev, spec, nil, 0, 0, 0, []interface{}{map[string]string{"inconclusive": reason}}, []string{reason}, nil, nil, time.Since(t0), 0)
		return 0
	}
	threads := map[string][][]interp.Event{}
	extract := func(entry string, params map[string]int) [][]interp.Event {
		m.Params = params
		m.Cfg = interp.Config{MaxSteps: 3000000, ConcCap: 64, Solver: "z3", TimeoutMs: 30000, Workers: workers}
		rr, err := m.Explore(pkgImportPath(m.Module, "wire"), entry)
		if err != nil {
			inconclusive = append(inconclusive, entry+": "+err.Error())
			return nil
		}
		for f := range rr.Funcs {
			funcs[f] = true
		}
		for o, n := range rr.Outcomes {
			if o != "ok" {
				inconclusive = append(inconclusive, fmt.Sprintf("%s: %d paths ended %s: %v", entry, n, o, interp.SortedKeys(rr.Details)))
			}
		}
		fmt.Printf("thread %s: %d paths of the event tree extracted from SSA\n", entry, len(rr.EventPaths))
		return rr.EventPaths
	}
	closePaths := extract("VerifT16Close", map[string]int{})
	threads["closeA"] = closePaths
	threads["closeB"] = closePaths
	threads["serve"] = extract("VerifT16Serve", map[string]int{})
	if R == -6 {
		// scenario 7: one Server served on two listeners (Serve called twice), no
		// connection: each Close must stop both accept loops
		threads["serve2"] = extract("VerifT16Serve", map[string]int{"LID": 1})
	} else {
		threads["conn"] = extract("VerifT16Conn", map[string]int{"R": R})
	}
	for name, p := range threads {
		if len(p) == 0 {
			inconclusive = append(inconclusive, "no event paths for thread "+name)
		}
	}
	scratch, _ := os.MkdirTemp("", "gosym-c16-")
	defer os.RemoveAll(scratch)
	var br bmcResult
	if len(inconclusive) == 0 {
		// lower-case keys for the python side
		low := map[string][][]map[string]any{}
		var conv func(evs []interp.Event) []map[string]any
		conv = func(evs []interp.Event) []map[string]any {
			var out []map[string]any
			for _, e := range evs {
				x := map[string]any{"op": e.Op, "obj": e.Obj, "arg": e.Arg, "outcome": e.Outcome, "where": e.Where}
				if len(e.Spawn) > 0 {
					x["spawn"] = conv(e.Spawn)
				}
				if len(e.Alts) > 0 {
					x["alts"] = conv(e.Alts)
				}
				out = append(out, x)
			}
			return out
		}
		for name, ps := range threads {
			for _, p := range ps {
				low[name] = append(low[name], conv(p))
			}
		}
		specPath := filepath.Join(scratch, "spec.json")
		data, _ := json.Marshal(map[string]any{"threads": low, "timeout_ms": 900000, "need_handler": R != -2 && R != -3 && R != -5 && R != -6 && R != -8 && R != -9})
		os.WriteFile(specPath, data, 0o644)
		ctx, cancel := context.WithTimeout(context.Background(), 40*time.Minute)
		defer cancel()
		cmd := exec.CommandContext(ctx, "python3-vt", filepath.Join(verifDir, "bmc", "bmc16.py"), specPath)
		out, err := cmd.Output()
		if err != nil {
			inconclusive = append(inconclusive, "bmc16.py failed: "+err.Error())
		} else if err := json.Unmarshal(out, &br); err != nil {
			inconclusive = append(inconclusive, "bmc16.py output unreadable: "+err.Error())
		}
	}
	// native replay with the instrumented overlay
	var sched *nativeRunner
	mkSched := func() *nativeRunner {
		if sched != nil {
			return sched
		}
		sched = newSchedRunner(repo)
		return sched
	}
	defer func() {
		if sched != nil {
			sched.close()
		}
	}()
	replay := func(q bmcQuery) (replayOutcome, string) {
		n := mkSched()
		if n == nil {
			return replayOutcome{Status: "error"}, ""
		}
		vec := schedVector{Entry: "VerifT16Replay", Pkg: m.Module, Params: map[string]int{"R": R}, Label: q.Name, Kind: "schedule"}
		for _, s := range q.Schedule {
			op, _ := s["op"].(string)
			obj, _ := s["obj"].(string)
			th, _ := s["thread"].(string)
			if op == "spawn" {
				continue
			}
			vec.Schedule = append(vec.Schedule, map[string]string{"thread": th, "op": op, "obj": obj})
		}
		path := filepath.Join(evidenceDir(), "replay", fmt.Sprintf("%s-schedule%s-%s.json", id, suffix, q.Name))
		data, _ := json.MarshalIndent(vec, "", " ")
		os.WriteFile(path, data, 0o644)
		bin, err := n.bin("wire")
		if err != nil {
			return replayOutcome{Status: "error", Output: err.Error()}, path
		}
		return runVectorFile(bin, repo, path), path
	}
	validated := 0
	discharged, total := 0, 0
	fmtSched := func(q bmcQuery) string {
		var parts []string
		for _, s := range q.Schedule {
			o := fmt.Sprintf("%v:%v(%v)", s["thread"], s["op"], s["obj"])
			if out, _ := s["outcome"].(string); out != "" {
				o += "=" + out
			}
			parts = append(parts, o)
		}
		return strings.Join(parts, " | ")
	}
	for _, q := range br.Queries {
		fmt.Printf("query %s: %s in %.1fs (K=%d, %d edges)\n", q.Name, q.Result, q.TimeS, br.K, br.Edges)
		if q.Name == "w-graceful-run" {
			if q.Result != "sat" {
				inconclusive = append(inconclusive, "vacuous: the graceful-run witness is not reachable in the encoding ("+q.Result+")")
				continue
			}
			ro, _ := replay(q)
			if os.Getenv("GOSYM_DEBUG16") != "" {
				fmt.Println("WITNESS-REPLAY-OUTPUT:", ro.Output)
			}
			ok := ro.Status == "done" && contains(ro.Reach, "all-threads-finished") && strings.Contains(ro.Output, fmt.Sprintf("followed=%d/", countPoints(q)))
			if ok {
				validated++
			} else {
				inconclusive = append(inconclusive, "encoding_mismatch: the graceful-run schedule does not replay natively: "+ro.Status+" "+clipS(ro.Output, 400))
			}
			samples = append(samples, map[string]interface{}{"witness_schedule": fmtSched(q), "native": ro.Status})
			continue
		}
		total++
		switch q.Result {
		case "unsat":
			discharged++
		case "sat":
			ro, path := replay(q)
			confirmed := ro.Status == "fail" || ro.Status == "panic"
			if q.Name == "a-no-panic" {
				confirmed = ro.Status == "panic"
			}
			if q.Name == "e-no-deadlock" {
				// threads that are blocked for real: the harness reports it after its
				// own 8 s wait, or the test binary's deadline expires
				confirmed = ro.Status == "fail" || ro.Status == "timeout"
			}
			msg := fmt.Sprintf("%s schedule=[%s] native=%s %v", q.Name, fmtSched(q), ro.Status, ro.Labels)
			if confirmed {
				violations = append(violations, msg)
				fmt.Printf("VIOLATION property=%s replay=%s\n  %s\n", id, path, msg)
				samples = append(samples, map[string]interface{}{"violation": q.Name, "schedule": fmtSched(q)})
			} else {
				inconclusive = append(inconclusive, "unconfirmed: "+msg+" | "+clipS(ro.Output, 300))
				fmt.Printf("UNCONFIRMED %s %s\n", id, msg)
			}
		default:
			inconclusive = append(inconclusive, fmt.Sprintf("query %s: solver answered %s", q.Name, q.Result))
		}
	}
	if len(br.Queries) == 0 && len(inconclusive) == 0 {
		inconclusive = append(inconclusive, "no queries were run")
	}
	for _, msg := range inconclusive {
		fmt.Printf("INCONCLUSIVE %s %s\n", id, msg)
	}
	if len(samples) == 0 {
		samples = append(samples, map[string]string{"note": "no schedules produced"})
	}
	// evidence
	cov := map[string]interface{}{
		"states":                        maxInt(br.TreeNodes*maxInt(br.K, 1), 1),
		"transitions":                   maxInt(br.Edges*maxInt(br.K, 1), 1),
		"traces_validated_against_impl": validated,
		"samples":                       samples,
		"rule":                          "states = event-tree nodes x unrolling depth K (program-counter valuations per step); transitions = tree edges x K (edge instances in the unrolled transition relation); every interleaving of the bounded threads is a model of the formula",
		"bmc":                           br,
		"threads":                       map[string]int{"closeA": len(threads["closeA"]), "closeB": len(threads["closeB"]), "serve": len(threads["serve"]), "serve2": len(threads["serve2"]), "conn": len(threads["conn"])},
		"bounds":                        map[string]int{"close_callers": 2, "connections": 1, "commands_per_connection": R, "K": br.K},
		"obligations":                   total,
		"discharged":                    discharged,
		"functions_encoded":             m.FuncInfos(funcs),
		"inconclusive":                  inconclusive,
		"explanation":                   spec.Explanation,
		"exhaustive":                    len(inconclusive) == 0,
	}
	ev["coverage"] = cov
	ev["assumptions"] = spec.Assumptions
	ev["wall_s"] = time.Since(t0).Seconds()
	ev["violations"] = len(violations)
	data, _ := json.MarshalIndent(ev, "", " ")
	os.WriteFile(evPath, data, 0o644)
	if len(violations) > 0 {
		return 1
	}
	fmt.Printf("OK %s%s tier=%s: %d/%d properties unsat over all schedules (K=%d), witness replayed natively=%d, %d inconclusive, %.1fs\n", id, suffix, tier, discharged, total, br.K, validated, len(inconclusive), time.Since(t0).Seconds())
	return 0
}

func countPoints(q bmcQuery) int {
	n := 0
	for _, s := range q.Schedule {
		if op, _ := s["op"].(string); op != "spawn" {
			n++
		}
	}
	return n
}

func maxInt(a, b int) int {
	if a > b {
		return a
	}
	return b
}

// newSchedRunner is a native runner whose overlay also replaces wire.go and
// command.go by their schedule-point-instrumented versions.
func newSchedRunner(repo string) *nativeRunner {
	n, err := newNativeRunner(repo)
	if err != nil {
		return nil
	}
	var repl map[string]map[string]string
	data, _ := os.ReadFile(n.overlay)
	json.Unmarshal(data, &repl)
	for _, f := range []string{"wire.go", "command.go"} {
		src, err := os.ReadFile(filepath.Join(repo, f))
		if err != nil {
			continue
		}
		out, _, err := instrumentSched(f, src)
		if err != nil {
			fmt.Printf("INCONCLUSIVE C16 schedule points could not be placed in %s (%v): schedules will not replay\n", f, err)
			continue
		}
		real := filepath.Join(n.scratch, "instr_"+f)
		os.WriteFile(real, out, 0o644)
		repl["Replace"][filepath.Join(repo, f)] = real
	}
	data, _ = json.MarshalIndent(repl, "", " ")
	os.WriteFile(n.overlay, data, 0o644)
	return n
}

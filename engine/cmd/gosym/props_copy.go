package main

func init() {
	props = append(props, PropSpec{
		ID: "C13", Level: "model_checking",
		Explanation: "CopyReader.Read step by step over K client messages with symbolic type byte and body against the protocol's rules; the COPY cycle through handleSimpleQuery with a statement that starts COPY-in and reads until an error, a solver-chosen client message sequence (CopyData/CopyDone/CopyFail/Flush/Sync/Query) and a solver-chosen point at which the handler stops; stray COPY messages after the cycle",
		Assumptions: P(pgStub,
			"a client stream that simply ends inside COPY (transport EOF) is covered by C04, not here",
		),
		Runs: []HarnessRun{
			{Pkg: "wire", Entry: "VerifH13a", What: "Read: CopyData -> payload, Flush/Sync skipped, CopyDone -> EOF, CopyFail/other -> non-nil non-EOF, reader itself writes nothing",
				Quick: map[string]int{"K": 2, "N": 4}, Thorough: map[string]int{"K": 3, "N": 5},
				Witnesses: []string{"copy-done", "copy-fail", "foreign-message", "flush-or-sync-skipped", "second-copydata", "truncated-copydata"}},
			{Pkg: "wire", Entry: "VerifH13b", What: "cycle: CopyInResponse per column/format, payloads in order, exactly one E and one Z on abort, C Z on success, stray COPY messages ignored",
				Quick: map[string]int{"K": 2, "N": 1}, Thorough: map[string]int{"K": 3, "N": 2},
				Witnesses: []string{"copy-completed", "copy-aborted", "handler-stopped", "stray-copy-message"}},
			{Pkg: "wire", Entry: "VerifH13b", What: "same cycle, the handler that gives up on the COPY returning the reader's error as it is or its own account of it (errors wrapping io.ErrUnexpectedEOF, io.EOF, net.ErrClosed): a failed COPY is one ErrorResponse and one ReadyForQuery whatever the error's identity",
				Quick: map[string]int{"K": 2, "N": 1, "FAILKINDS": 1}, Thorough: map[string]int{"K": 2, "N": 1, "FAILKINDS": 1},
				Witnesses: []string{"copy-aborted", "handler-stopped", "handler-reports-a-short-row"}},
			{Pkg: "wire", Entry: "VerifH13e", What: "same through Parse/Bind/Execute",
				Quick: map[string]int{"K": 1, "FAILKINDS": 1}, Witnesses: []string{"extended-copy-aborted", "handler-reports-a-short-row"}},
			{Pkg: "wire", Entry: "VerifH10i", What: "an oversized message (body made of well-formed messages, one of them a Query) arriving while a handler reads COPY data: skipped in full, nothing of it taken for a message, the COPY aborted with exactly one ErrorResponse and one ReadyForQuery, the query after it served",
				Quick: map[string]int{}, Witnesses: []string{"oversized-copydata", "query-inside-the-oversized-body"}},
			{Pkg: "wire", Entry: "VerifH13d", What: "binary COPY read through the library's row reader: whether the COPY ended well is decided by CopyDone / CopyFail / a non-COPY message, also when the data already carried its end-of-data trailer",
				Quick: map[string]int{"TUPLES": 2}, Witnesses: []string{"completed", "copyfail-after-trailer", "copy-ended-before-any-copydata"}},
			{Pkg: "wire", Entry: "VerifH13e", What: "COPY-in started through Parse/Bind/Execute with any admissible Bind result-format codes: the CopyInResponse announces the handler's requested format overall and per column, payloads in order, one CommandComplete or ErrorResponse and one ReadyForQuery at Sync",
				Quick: map[string]int{"K": 2}, Witnesses: []string{"bind-result-formats-differ-from-the-copy-format", "extended-copy-aborted", "extended-copy-completed"}},
		},
	})
	props = append(props, PropSpec{
		ID: "C14", Level: "model_checking",
		Explanation: "the binary COPY row reader on the standard header followed by R arbitrary bytes (tuples, corrupt counts and lengths, trailer), cut into CopyData messages at solver-chosen split points; the reference decodes the unsplit stream; results must agree for every split",
		Assumptions: P(pgStub,
			"header concrete (flags 0, no extension) as every client sends; streams that end at a tuple boundary without the trailer are outside the claim (the format requires the trailer); empty CopyData chunks included; text columns (pgx TextCodec.DecodeValue executed from its own code)",
		),
		Runs: []HarnessRun{
			{Pkg: "wire", Entry: "VerifH14", What: "rows = reference rows for every split; bad field count / truncated field -> error, never a panic or a fabricated row; trailer -> EOF",
				Quick: map[string]int{"R": 8, "SPLITS": 2, "COLS": 2}, Thorough: map[string]int{"R": 11, "SPLITS": 2, "COLS": 2},
				Witnesses: []string{"row-decoded", "null-field", "bad-row", "trailer", "split-at-boundary", "split-inside-tuple", "empty-chunk"}},
			{Pkg: "wire", Entry: "VerifH14r", What: "three tuples whose rows the handler keeps until the stream has ended: each kept row still is the row decoded for it (values and a NULL in between)",
				Quick: map[string]int{}, Witnesses: []string{"rows-kept-until-the-end-of-the-stream", "a-null-between-two-values"}},
			{Pkg: "wire", Entry: "VerifH14t", What: "each value per its column type AS THIS CONNECTION'S type map defines it: two connections that registered different codecs under one object id on their own maps each get their COPY value decoded by their own codec",
				Quick: map[string]int{}, Witnesses: []string{"same-object-id-registered-differently-on-two-connections"}},
			{Pkg: "wire", Entry: "VerifH14q", What: "the stream starts with the first CopyData message: surplus bytes after the last field of the Query or Execute message that starts the COPY are not part of it — the row reader returns exactly the tuple the client encoded",
				Quick: map[string]int{"S": 3}, Witnesses: []string{"surplus-after-the-last-field-of-the-starting-message", "copy-started-by-execute"}},
			{Pkg: "wire", Entry: "VerifH14", What: "splits anywhere in the stream, also inside the 19-byte header",
				Quick: map[string]int{"R": 6, "SPLITS": 2, "COLS": 1, "HEADERSPLIT": 1}, Thorough: map[string]int{"R": 8, "SPLITS": 2, "COLS": 1, "HEADERSPLIT": 1},
				Witnesses: []string{"split-inside-tuple", "empty-chunk", "trailer"}},
			{Pkg: "wire", Entry: "VerifH14", What: "column types chosen by the solver among text, int2, int4, int8 (pgx's binary codecs executed from their own code): integer fields decode to the value sent, a fixed-width field of any other length (shorter or longer) is an error, never a fabricated row",
				Quick: map[string]int{"R": 12, "SPLITS": 0, "COLS": 1, "TYPES": 1}, Thorough: map[string]int{"R": 16, "SPLITS": 1, "COLS": 2, "TYPES": 1},
				Witnesses: []string{"integer-field", "bad-row", "null-field"}},
		},
	})
}

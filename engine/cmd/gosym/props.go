package main

// The registry: which harnesses decide which property, with the bounds that
// ran clean on the unchanged tree in each tier.

var commonAssumptions = []string{
	"64-bit int (amd64); machine words wrap (bit-vectors), no mathematical integers",
	"code of psql-wire and io/bufio/bytes/encoding/binary/errors helpers is executed from go/ssa built from /repo's current working tree; harnesses are injected through an overlay",
	"log/slog calls are no-ops; sync primitives have sequential semantics in single-connection harnesses",
	"claims hold within the stated bounds only; everything outside them is not covered",
}

func P(xs ...string) []string { return append(append([]string{}, commonAssumptions...), xs...) }

var props = []PropSpec{}

func findProp(id string) *PropSpec {
	for i := range props {
		if props[i].ID == id {
			return &props[i]
		}
	}
	return nil
}

func cmdSelftest(args []string) int { return 0 }

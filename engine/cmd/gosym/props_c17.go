package main

func init() {
	props = append(props, PropSpec{
		ID: "C17", Level: "model_checking",
		Explanation: "bounded symbolic model checking of errors/*.go and ErrorCode: the error value is built by a solver-chosen nesting of D decorators (8 choices per layer incl. fmt %w wrapping) with symbolic payload bytes; the emitted ErrorResponse is parsed by an independent strict grammar and compared field by field with a reference that walks the same choices",
		Assumptions: P(
			"decorator payloads are non-empty and NUL-free (user-supplied text; the protocol cannot represent NUL)",
			"strconv.Itoa modelled relationally for 0..99999 (digits d_i with v = sum d_i*10^i); fmt.Errorf modelled for %w/%s/%v/%d",
			"source line in 0..999 (1-3 digits)",
		),
		Runs: []HarnessRun{
			{Pkg: "wire", Entry: "VerifH17", What: "every decoration reaches its field as text, outermost wins, each field at most once",
				Quick: map[string]int{"D": 2}, Thorough: map[string]int{"D": 3},
				Witnesses: []string{"source-decorated", "hint-and-detail", "constraint", "empty-message"}},
			{Pkg: "wire", Entry: "VerifH17", What: "same with payloads that may be long (300 concrete bytes + one symbolic byte: every length threshold up to 301 is crossed) and the largest line number",
				Quick: map[string]int{"D": 1, "LONG": 300}, Thorough: map[string]int{"D": 2, "LONG": 300},
				Witnesses: []string{"long-payload", "source-decorated", "constraint"}},
			{Pkg: "wire", Entry: "VerifH17", What: "the same error returned by a callback — a statement function in a simple query, a statement function under Execute, the ParseFn — instead of being handed to ErrorCode: the client gets exactly one ErrorResponse with the same fields; the base error may be a standard-library sentinel (context.Canceled, context.DeadlineExceeded, io.EOF, io.ErrUnexpectedEOF, net.ErrClosed) under the handler's decorations",
				Quick: map[string]int{"D": 1, "VIA": 1, "BASES": 1}, Thorough: map[string]int{"D": 2, "VIA": 1, "BASES": 1},
				Witnesses: []string{"error-returned-after-a-rejected-row", "error-returned-by-a-callback", "sentinel-base", "constraint"}},
			{Pkg: "wire", Entry: "VerifH17", What: "same with layers of the handler's own error type (it unwraps to its cause and its Is method matches every error of its type) between the decorators: the decorations below and above such layers still reach their fields",
				Quick: map[string]int{"D": 3, "APPERR": 1}, Thorough: map[string]int{"D": 3, "APPERR": 1},
				Witnesses: []string{"application-error-layer", "source-decorated"}},
			{Pkg: "wire", Entry: "VerifH17m", What: "decorating never changes the error it is given: after X(X(base,a),b) the inner error still carries a, for every decorator",
				Quick: map[string]int{}, Witnesses: []string{"detail-twice"}},
			{Pkg: "wire", Entry: "VerifH17n", What: "nil error -> FATAL / XX000 with a message",
				Quick: map[string]int{}, Witnesses: []string{"nil-error"}},
		},
	})
}

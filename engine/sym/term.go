// Package sym holds the scalar term language (booleans and machine words as
// SMT-LIB2 bit-vectors, with constant folding) and the solver pipe.
package sym

import (
	"fmt"
	"strings"
)

// Sc is a scalar: a Go bool (W==0) or a machine word of W bits (8,16,32,64).
// Either a constant (K) or an SMT-LIB2 term of sort Bool / (_ BitVec W).
// Machine words wrap; nothing here is a mathematical integer.
type Sc struct {
	W int
	K bool
	V uint64
	T string
}

func mask(w int) uint64 {
	if w >= 64 {
		return ^uint64(0)
	}
	return (uint64(1) << uint(w)) - 1
}

// Const builds a W-bit constant.
func Const(w int, v uint64) Sc { return Sc{W: w, K: true, V: v & mask(w)} }

// Bool builds a boolean constant.
func Bool(b bool) Sc {
	if b {
		return Sc{W: 0, K: true, V: 1}
	}
	return Sc{W: 0, K: true, V: 0}
}

// Var names a declared solver constant.
func Var(w int, name string) Sc { return Sc{W: w, T: name} }

func (s Sc) IsBool() bool { return s.W == 0 }

// Signed returns the constant as a sign-extended int64.
func (s Sc) Signed() int64 {
	if s.W >= 64 || s.W == 0 {
		return int64(s.V)
	}
	sh := uint(64 - s.W)
	return int64(s.V<<sh) >> sh
}

func (s Sc) IsTrue() bool  { return s.K && s.V != 0 }
func (s Sc) IsFalse() bool { return s.K && s.V == 0 }

// Term renders the scalar as SMT-LIB2.
func (s Sc) Term() string {
	if !s.K {
		return s.T
	}
	if s.W == 0 {
		if s.V != 0 {
			return "true"
		}
		return "false"
	}
	if s.W%4 == 0 {
		return fmt.Sprintf("#x%0*x", s.W/4, s.V)
	}
	return fmt.Sprintf("(_ bv%d %d)", s.V, s.W)
}

func (s Sc) String() string {
	if s.K {
		if s.W == 0 {
			return fmt.Sprint(s.V != 0)
		}
		return fmt.Sprintf("%d:u%d", s.V, s.W)
	}
	return s.T
}

func app(op string, args ...Sc) string {
	var b strings.Builder
	b.WriteByte('(')
	b.WriteString(op)
	for _, a := range args {
		b.WriteByte(' ')
		b.WriteString(a.Term())
	}
	b.WriteByte(')')
	return b.String()
}

func chk(a, b Sc) {
	if a.W != b.W {
		panic(fmt.Sprintf("sym: width mismatch %d vs %d (%s, %s)", a.W, b.W, a, b))
	}
}

// ---- boolean connectives ----

func Not(a Sc) Sc {
	if a.W != 0 {
		panic("sym.Not on non-bool")
	}
	if a.K {
		return Bool(a.V == 0)
	}
	if strings.HasPrefix(a.T, "(not ") {
		return Sc{W: 0, T: a.T[5 : len(a.T)-1]}
	}
	return Sc{W: 0, T: "(not " + a.T + ")"}
}

func And(a, b Sc) Sc {
	if a.K {
		if a.V == 0 {
			return a
		}
		return b
	}
	if b.K {
		if b.V == 0 {
			return b
		}
		return a
	}
	if a.T == b.T {
		return a
	}
	return Sc{W: 0, T: app("and", a, b)}
}

func Or(a, b Sc) Sc {
	if a.K {
		if a.V != 0 {
			return a
		}
		return b
	}
	if b.K {
		if b.V != 0 {
			return b
		}
		return a
	}
	if a.T == b.T {
		return a
	}
	return Sc{W: 0, T: app("or", a, b)}
}

func Implies(a, b Sc) Sc { return Or(Not(a), b) }

// Ite works on both sorts.
func Ite(c, a, b Sc) Sc {
	chk(a, b)
	if c.K {
		if c.V != 0 {
			return a
		}
		return b
	}
	if a.K && b.K && a.V == b.V {
		return a
	}
	if !a.K && !b.K && a.T == b.T {
		return a
	}
	if a.W == 0 && a.K && b.K {
		if a.V != 0 {
			return c
		}
		return Not(c)
	}
	return Sc{W: a.W, T: app("ite", c, a, b)}
}

// Eq works on both sorts.
func Eq(a, b Sc) Sc {
	chk(a, b)
	if a.K && b.K {
		return Bool(a.V == b.V)
	}
	if !a.K && !b.K && a.T == b.T {
		return Bool(true)
	}
	if a.W == 0 {
		if a.K {
			if a.V != 0 {
				return b
			}
			return Not(b)
		}
		if b.K {
			if b.V != 0 {
				return a
			}
			return Not(a)
		}
	}
	// canonical order: symbolic first, constant second (helps the literal cache)
	if a.K {
		a, b = b, a
	}
	return Sc{W: 0, T: app("=", a, b)}
}

// ---- bit-vector arithmetic ----

func bin(op string, a, b Sc, f func(x, y uint64) uint64) Sc {
	chk(a, b)
	if a.K && b.K {
		return Const(a.W, f(a.V, b.V))
	}
	return Sc{W: a.W, T: app(op, a, b)}
}

func Add(a, b Sc) Sc {
	if a.K && a.V == 0 {
		chk(a, b)
		return b
	}
	if b.K && b.V == 0 {
		chk(a, b)
		return a
	}
	return bin("bvadd", a, b, func(x, y uint64) uint64 { return x + y })
}

func Sub(a, b Sc) Sc {
	if b.K && b.V == 0 {
		chk(a, b)
		return a
	}
	if !a.K && !b.K && a.T == b.T {
		return Const(a.W, 0)
	}
	return bin("bvsub", a, b, func(x, y uint64) uint64 { return x - y })
}

func Mul(a, b Sc) Sc {
	if a.K && a.V == 1 {
		chk(a, b)
		return b
	}
	if b.K && b.V == 1 {
		chk(a, b)
		return a
	}
	if (a.K && a.V == 0) || (b.K && b.V == 0) {
		chk(a, b)
		return Const(a.W, 0)
	}
	return bin("bvmul", a, b, func(x, y uint64) uint64 { return x * y })
}

func BvAnd(a, b Sc) Sc {
	if (a.K && a.V == 0) || (b.K && b.V == 0) {
		chk(a, b)
		return Const(a.W, 0)
	}
	if a.K && a.V == mask(a.W) {
		chk(a, b)
		return b
	}
	if b.K && b.V == mask(b.W) {
		chk(a, b)
		return a
	}
	return bin("bvand", a, b, func(x, y uint64) uint64 { return x & y })
}

func BvOr(a, b Sc) Sc {
	if a.K && a.V == 0 {
		chk(a, b)
		return b
	}
	if b.K && b.V == 0 {
		chk(a, b)
		return a
	}
	return bin("bvor", a, b, func(x, y uint64) uint64 { return x | y })
}

func BvXor(a, b Sc) Sc {
	return bin("bvxor", a, b, func(x, y uint64) uint64 { return x ^ y })
}

func BvNot(a Sc) Sc {
	if a.K {
		return Const(a.W, ^a.V)
	}
	return Sc{W: a.W, T: app("bvnot", a)}
}

func Neg(a Sc) Sc {
	if a.K {
		return Const(a.W, -a.V)
	}
	return Sc{W: a.W, T: app("bvneg", a)}
}

// Shl: shift count b must already have width a.W (caller converts); Go
// semantics for counts >= W (result 0) coincide with SMT-LIB bvshl.
func Shl(a, b Sc) Sc {
	chk(a, b)
	if b.K && b.V == 0 {
		return a
	}
	if a.K && b.K {
		if b.V >= uint64(a.W) {
			return Const(a.W, 0)
		}
		return Const(a.W, a.V<<b.V)
	}
	return Sc{W: a.W, T: app("bvshl", a, b)}
}

func Lshr(a, b Sc) Sc {
	chk(a, b)
	if b.K && b.V == 0 {
		return a
	}
	if a.K && b.K {
		if b.V >= uint64(a.W) {
			return Const(a.W, 0)
		}
		return Const(a.W, a.V>>b.V)
	}
	return Sc{W: a.W, T: app("bvlshr", a, b)}
}

func Ashr(a, b Sc) Sc {
	chk(a, b)
	if b.K && b.V == 0 {
		return a
	}
	if a.K && b.K {
		n := b.V
		if n >= uint64(a.W) {
			n = uint64(a.W) - 1
		}
		return Const(a.W, uint64(a.Signed()>>n))
	}
	return Sc{W: a.W, T: app("bvashr", a, b)}
}

func UDiv(a, b Sc) Sc {
	return bin("bvudiv", a, b, func(x, y uint64) uint64 {
		if y == 0 {
			return ^uint64(0)
		}
		return x / y
	})
}

func URem(a, b Sc) Sc {
	return bin("bvurem", a, b, func(x, y uint64) uint64 {
		if y == 0 {
			return x
		}
		return x % y
	})
}

func SDiv(a, b Sc) Sc {
	chk(a, b)
	if a.K && b.K && b.V != 0 {
		return Const(a.W, uint64(a.Signed()/b.Signed()))
	}
	return Sc{W: a.W, T: app("bvsdiv", a, b)}
}

func SRem(a, b Sc) Sc {
	chk(a, b)
	if a.K && b.K && b.V != 0 {
		return Const(a.W, uint64(a.Signed()%b.Signed()))
	}
	return Sc{W: a.W, T: app("bvsrem", a, b)}
}

func cmp(op string, a, b Sc, f func() bool) Sc {
	chk(a, b)
	if a.K && b.K {
		return Bool(f())
	}
	return Sc{W: 0, T: app(op, a, b)}
}

func Ult(a, b Sc) Sc {
	if b.K && b.V == 0 {
		chk(a, b)
		return Bool(false)
	}
	return cmp("bvult", a, b, func() bool { return a.V < b.V })
}
func Ule(a, b Sc) Sc {
	if a.K && a.V == 0 {
		chk(a, b)
		return Bool(true)
	}
	return cmp("bvule", a, b, func() bool { return a.V <= b.V })
}
func Slt(a, b Sc) Sc { return cmp("bvslt", a, b, func() bool { return a.Signed() < b.Signed() }) }
func Sle(a, b Sc) Sc { return cmp("bvsle", a, b, func() bool { return a.Signed() <= b.Signed() }) }

// ---- width changes ----

func ZeroExt(a Sc, w int) Sc {
	if w == a.W {
		return a
	}
	if w < a.W {
		return Trunc(a, w)
	}
	if a.K {
		return Const(w, a.V)
	}
	return Sc{W: w, T: fmt.Sprintf("((_ zero_extend %d) %s)", w-a.W, a.T)}
}

func SignExt(a Sc, w int) Sc {
	if w == a.W {
		return a
	}
	if w < a.W {
		return Trunc(a, w)
	}
	if a.K {
		return Const(w, uint64(a.Signed()))
	}
	return Sc{W: w, T: fmt.Sprintf("((_ sign_extend %d) %s)", w-a.W, a.T)}
}

func Trunc(a Sc, w int) Sc {
	if w == a.W {
		return a
	}
	if w > a.W {
		panic("sym.Trunc widening")
	}
	if a.K {
		return Const(w, a.V)
	}
	// (extract (zero_extend k x)) with w <= width(x) simplifies
	return Sc{W: w, T: fmt.Sprintf("((_ extract %d 0) %s)", w-1, a.T)}
}

// Concat: a is the high part.
func Concat(a, b Sc) Sc {
	if a.K && b.K {
		return Const(a.W+b.W, a.V<<uint(b.W)|b.V)
	}
	return Sc{W: a.W + b.W, T: app("concat", a, b)}
}

package sym

import (
	"bufio"
	"fmt"
	"io"
	"os"
	"os/exec"
	"strconv"
	"strings"
	"time"
)

// Solver is one long-lived SMT solver process driven over stdin/stdout.
type Solver struct {
	Name    string
	cmd     *exec.Cmd
	in      io.WriteCloser
	out     *bufio.Reader
	seq     int
	Queries int
	Sat     int
	Unsat   int
	Unknown int
	Fallbacks int // unknown answers settled by the fallback solver
	Errors  int
	Time    time.Duration
	// scope transcript (declarations, definitions, assertions of the current
	// path), kept so that any query can be dumped as a standalone script.
	Script []string
	marks  []int
	Dead   bool
	// HardTimeout kills the solver process when one check-sat takes longer.
	HardTimeout time.Duration
}

// DumpSlow, when set, names a file that receives the standalone script of a
// query that hit the hard timeout.
var DumpSlow = os.Getenv("GOSYM_DUMPSLOW")

// SlowLog, when set, is called for queries slower than two seconds.
var SlowLog func(d time.Duration, extra string, scriptLines int)

// Result of a check-sat.
type Result int

const (
	Unsat Result = iota
	Sat
	Unknown
)

func (r Result) String() string { return [...]string{"unsat", "sat", "unknown"}[r] }

// NewSolver starts a solver. kind: "z3", "z3-new", "cvc5".
func NewSolver(kind string, timeoutMs int) (*Solver, error) {
	var cmd *exec.Cmd
	switch kind {
	case "z3", "z3-new":
		cmd = exec.Command(kind, "-in", "-smt2", fmt.Sprintf("-t:%d", timeoutMs))
	case "cvc5":
		cmd = exec.Command("cvc5", "--incremental", "--lang=smt2", "--produce-models", fmt.Sprintf("--tlimit-per=%d", timeoutMs))
	default:
		return nil, fmt.Errorf("unknown solver %q", kind)
	}
	in, err := cmd.StdinPipe()
	if err != nil {
		return nil, err
	}
	out, err := cmd.StdoutPipe()
	if err != nil {
		return nil, err
	}
	cmd.Stderr = nil
	if err := cmd.Start(); err != nil {
		return nil, err
	}
	s := &Solver{Name: kind, cmd: cmd, in: in, out: bufio.NewReaderSize(out, 1<<16),
		HardTimeout: time.Duration(timeoutMs)*time.Millisecond*2 + 5*time.Second}
	if kind == "cvc5" {
		s.raw("(set-logic ALL)")
	} else {
		s.raw("(set-option :produce-models true)")
	}
	if _, err := s.sync(); err != nil {
		return nil, err
	}
	return s, nil
}

func (s *Solver) Close() {
	if s.cmd != nil {
		s.in.Close()
		s.cmd.Process.Kill()
		s.cmd.Wait()
		s.cmd = nil
	}
}

func (s *Solver) raw(line string) {
	if s.Dead {
		return
	}
	if _, err := io.WriteString(s.in, line+"\n"); err != nil {
		s.Dead = true
	}
}

// sync writes an echo marker and collects every output line before it.
func (s *Solver) sync() ([]string, error) {
	s.seq++
	mark := fmt.Sprintf("@@%d", s.seq)
	s.raw(fmt.Sprintf("(echo \"%s\")", mark))
	var lines []string
	for {
		line, err := s.out.ReadString('\n')
		if err != nil {
			s.Dead = true
			return lines, fmt.Errorf("solver %s died: %v", s.Name, err)
		}
		line = strings.TrimSpace(line)
		if strings.Trim(line, "\"") == mark {
			return lines, nil
		}
		if line != "" {
			lines = append(lines, line)
		}
	}
}

// Emit sends a declaration/definition/assertion that belongs to the current scope.
func (s *Solver) Emit(line string) {
	s.Script = append(s.Script, line)
	s.raw(line)
}

func (s *Solver) Push() {
	s.marks = append(s.marks, len(s.Script))
	s.raw("(push 1)")
}

func (s *Solver) Pop() {
	n := s.marks[len(s.marks)-1]
	s.marks = s.marks[:len(s.marks)-1]
	s.Script = s.Script[:n]
	s.raw("(pop 1)")
}

// Depth of push scopes.
func (s *Solver) Depth() int { return len(s.marks) }

// Check runs (check-sat) under the extra assumption (may be empty) inside a
// temporary scope. Any "(error" line makes the answer Unknown.
func (s *Solver) Check(extra string) Result {
	r, _ := s.CheckModel(extra, nil)
	return r
}

// Fallback names a second solver binary that is asked, one-shot and with a
// longer time limit, whenever the incremental solver answers unknown (a soft
// timeout under load, mostly). Its sat/unsat verdict replaces the unknown; a
// verdict without a model is only used where no model is needed (unsat, or a
// feasibility question).
var Fallback = "z3-new"
var FallbackTimeoutMs = 120000

func (s *Solver) fallback(extra string, needModel bool) Result {
	if Fallback == "" || s.Dead {
		return Unknown
	}
	r := OneShot(Fallback, s.Standalone(extra), FallbackTimeoutMs)
	if r == Unknown || (r == Sat && needModel) {
		return Unknown
	}
	s.Fallbacks++
	if s.Unknown > 0 {
		s.Unknown--
	}
	return r
}

// CheckModel is Check, and on sat reads back the values of the named constants.
func (s *Solver) CheckModel(extra string, names []string) (Result, map[string]uint64) {
	r, m := s.checkModel(extra, names)
	if r == Unknown {
		if r2 := s.fallback(extra, len(names) > 0); r2 != Unknown {
			return r2, nil
		}
	}
	return r, m
}

func (s *Solver) checkModel(extra string, names []string) (Result, map[string]uint64) {
	t0 := time.Now()
	defer func() {
		d := time.Since(t0)
		s.Time += d
		if SlowLog != nil && d > 2*time.Second {
			SlowLog(d, extra, len(s.Script))
		}
	}()
	s.Queries++
	if s.Dead {
		s.Unknown++
		return Unknown, nil
	}
	if extra != "" {
		s.raw("(push 1)")
		s.raw("(assert " + extra + ")")
	}
	s.raw("(check-sat)")
	// watchdog: a solver that does not honour its soft timeout is killed; the
	// query (and the rest of the path, whose scope is lost) is inconclusive
	var watchdog *time.Timer
	if s.HardTimeout > 0 {
		script := ""
		if DumpSlow != "" {
			script = s.Standalone(extra)
		}
		watchdog = time.AfterFunc(s.HardTimeout, func() {
			if DumpSlow != "" {
				os.WriteFile(DumpSlow, []byte(script), 0o644)
			}
			s.cmd.Process.Kill()
		})
	}
	lines, err := s.sync()
	if watchdog != nil {
		watchdog.Stop()
	}
	res := Unknown
	bad := err != nil
	for _, l := range lines {
		switch {
		case l == "sat":
			res = Sat
		case l == "unsat":
			res = Unsat
		case l == "unknown":
			res = Unknown
		case strings.HasPrefix(l, "(error"):
			bad = true
		}
	}
	if bad {
		s.Errors++
		res = Unknown
	}
	var model map[string]uint64
	if res == Sat && len(names) > 0 {
		model = s.values(names)
		if model == nil {
			res = Unknown
			s.Errors++
		}
	}
	if extra != "" {
		s.raw("(pop 1)")
	}
	switch res {
	case Sat:
		s.Sat++
	case Unsat:
		s.Unsat++
	default:
		s.Unknown++
	}
	return res, model
}

func (s *Solver) values(names []string) map[string]uint64 {
	model := map[string]uint64{}
	const batch = 200
	for i := 0; i < len(names); i += batch {
		j := i + batch
		if j > len(names) {
			j = len(names)
		}
		s.raw("(get-value (" + strings.Join(names[i:j], " ") + "))")
		lines, err := s.sync()
		if err != nil {
			return nil
		}
		text := strings.Join(lines, " ")
		if strings.Contains(text, "(error") {
			return nil
		}
		parseValues(text, model)
	}
	return model
}

// parseValues reads "((a #x01) (b true) (c (_ bv3 7)))".
func parseValues(text string, into map[string]uint64) {
	toks := tokenize(text)
	// walk pairs: '(' name value ')'
	for i := 0; i < len(toks); i++ {
		if toks[i] != "(" || i+2 >= len(toks) {
			continue
		}
		name := toks[i+1]
		if name == "(" || name == ")" {
			continue
		}
		// value
		j := i + 2
		var v uint64
		ok := false
		switch {
		case toks[j] == "true":
			v, ok = 1, true
		case toks[j] == "false":
			v, ok = 0, true
		case strings.HasPrefix(toks[j], "#x"):
			u, err := strconv.ParseUint(toks[j][2:], 16, 64)
			v, ok = u, err == nil
		case strings.HasPrefix(toks[j], "#b"):
			u, err := strconv.ParseUint(toks[j][2:], 2, 64)
			v, ok = u, err == nil
		case toks[j] == "(" && j+3 < len(toks) && toks[j+1] == "_" && strings.HasPrefix(toks[j+2], "bv"):
			u, err := strconv.ParseUint(toks[j+2][2:], 10, 64)
			v, ok = u, err == nil
		}
		if ok {
			into[name] = v
		}
	}
}

func tokenize(s string) []string {
	var toks []string
	cur := strings.Builder{}
	flush := func() {
		if cur.Len() > 0 {
			toks = append(toks, cur.String())
			cur.Reset()
		}
	}
	for _, r := range s {
		switch r {
		case '(', ')':
			flush()
			toks = append(toks, string(r))
		case ' ', '\t', '\n', '\r':
			flush()
		default:
			cur.WriteRune(r)
		}
	}
	flush()
	return toks
}

// Standalone renders the current scope plus one extra assertion as a
// self-contained script (used for cross-solver diffing).
func (s *Solver) Standalone(extra string) string {
	var b strings.Builder
	b.WriteString("(set-logic ALL)\n")
	for _, l := range s.Script {
		b.WriteString(l)
		b.WriteByte('\n')
	}
	if extra != "" {
		b.WriteString("(assert " + extra + ")\n")
	}
	b.WriteString("(check-sat)\n")
	return b.String()
}

// OneShot runs a standalone script on a solver binary and returns its verdict.
func OneShot(kind, script string, timeoutMs int) Result {
	var cmd *exec.Cmd
	switch kind {
	case "z3", "z3-new":
		cmd = exec.Command(kind, "-in", "-smt2", fmt.Sprintf("-t:%d", timeoutMs))
	case "cvc5":
		cmd = exec.Command("cvc5", "--lang=smt2", fmt.Sprintf("--tlimit=%d", timeoutMs))
	default:
		return Unknown
	}
	cmd.Stdin = strings.NewReader(script)
	out, _ := cmd.Output()
	text := string(out)
	if strings.Contains(text, "(error") {
		return Unknown
	}
	for _, l := range strings.Split(text, "\n") {
		switch strings.TrimSpace(l) {
		case "sat":
			return Sat
		case "unsat":
			return Unsat
		}
	}
	return Unknown
}

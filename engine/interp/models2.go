package interp

import (
	"golang.org/x/tools/go/ssa"
)

func modelRegexpCompile(e *Exec, c *frame, fn *ssa.Function, a []Value) Value {
	e.unsupported("regexp model TODO")
	return nil
}
func modelFindAllStringSubmatch(e *Exec, c *frame, fn *ssa.Function, a []Value) Value {
	e.unsupported("regexp model TODO")
	return nil
}
func modelPgNewMap(e *Exec, c *frame, fn *ssa.Function, a []Value) Value {
	e.unsupported("pgtype model TODO")
	return nil
}
func modelPgEncode(e *Exec, c *frame, fn *ssa.Function, a []Value) Value {
	e.unsupported("pgtype model TODO")
	return nil
}
func modelPgTypeForOID(e *Exec, c *frame, fn *ssa.Function, a []Value) Value {
	e.unsupported("pgtype model TODO")
	return nil
}
func modelTLSServer(e *Exec, c *frame, fn *ssa.Function, a []Value) Value {
	e.unsupported("tls model TODO")
	return nil
}
func footBegin(e *Exec, c *frame, fn *ssa.Function, a []Value) Value  { return nil }
func footReport(e *Exec, c *frame, fn *ssa.Function, a []Value) Value { return nil }

func (f *footprint) access(e *Exec, p *Value, write, atomic bool) {}
func (f *footprint) newObj(e *Exec, p *Value)                     {}
func (f *footprint) derive(e *Exec, base, p *Value)               {}
func (f *footprint) storeCell(e *Exec, st *Store, p *Value)       {}
func (f *footprint) lock(p *Value, d int)                         {}
func (f *footprint) read(p *Value)                                {}

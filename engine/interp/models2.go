package interp

import (
	"go/types"
	"strconv"

	"gosym/sym"

	"golang.org/x/tools/go/ssa"
)

// ---------------------------------------------------------------------------
// regexp: only the QueryParameters pattern `\$(\d+)|\?` is modelled, by a
// hand-written leftmost-first matcher. Any other pattern is unsupported.
// ---------------------------------------------------------------------------

type reCompiled struct {
	pat  string
	root *reNode
	ncap int
}

func modelRegexpCompile(e *Exec, c *frame, fn *ssa.Function, a []Value) Value {
	pat, ok := e.concreteString(a[0].(Slice))
	if !ok {
		e.unsupported("regexp.MustCompile with symbolic pattern")
	}
	t := e.M.namedType("regexp", "Regexp")
	p := new(Value)
	*p = zero(t)
	if e.regexps == nil {
		e.regexps = map[*Value]*reCompiled{}
	}
	rc := &reCompiled{pat: pat}
	root, ncap, err := parseRegexp(pat)
	if err == nil {
		rc.root, rc.ncap = root, ncap
	}
	e.regexps[p] = rc
	return p
}

// FindAllStringSubmatch through the engine's own leftmost-first matcher
// (regex.go); substrings alias the subject like the real package's do.
func modelFindAllStringSubmatch(e *Exec, c *frame, fn *ssa.Function, a []Value) Value {
	rc := e.regexps[a[0].(*Value)]
	if rc == nil || rc.root == nil {
		pat := "?"
		if rc != nil {
			pat = rc.pat
		}
		e.unsupported("regexp model cannot handle the pattern %q", pat)
	}
	s := a[1].(Slice)
	limit := a[2].(sym.Sc)
	if !limit.K {
		e.unsupported("FindAllStringSubmatch with a symbolic match limit")
	}
	found := e.reFindAll(rc.root, rc.ncap, s, int(limit.Signed()))
	if len(found) == 0 {
		return Slice{Len: i64zero, Cap: i64zero}
	}
	base := e.o(s)
	strT := types.Typ[types.String]
	sliceOfStr := types.NewSlice(strT)
	sub := func(r [2]int) Slice {
		if r[0] < 0 || r[0] == r[1] {
			return Slice{Len: i64zero, Cap: i64zero}
		}
		return Slice{St: s.St, Off: i64(base + r[0]), Len: i64(r[1] - r[0]), Cap: i64(r[1] - r[0])}
	}
	out := e.newStore(sliceOfStr, i64(len(found)))
	for i, m := range found {
		st := e.newStore(strT, i64(len(m)))
		for g := range m {
			*st.cell(g) = sub(m[g])
		}
		*out.cell(i) = Slice{St: st, Len: st.N, Cap: st.N}
	}
	return Slice{St: out, Len: out.N, Cap: out.N}
}

// ---------------------------------------------------------------------------
// pgx pgtype.Map: documented contract only (DESIGN §3). Per-type codec
// correctness is pgx's and outside every claim.
// ---------------------------------------------------------------------------

const (
	oidText    = 25
	oidVarchar = 1043
	oidInt4    = 23
)

func modelPgNewMap(e *Exec, c *frame, fn *ssa.Function, a []Value) Value {
	t := e.M.namedType("github.com/jackc/pgx/v5/pgtype", "Map")
	p := new(Value)
	*p = zero(t)
	e.noteAllocAny(p)
	return p
}

// Encode: value nil / nil pointer / invalid pgtype.Text -> (nil, nil);
// string, []byte, *string, valid pgtype.Text on a text-like OID -> buf ++ bytes;
// anything else -> error. Declared footprint: writes its receiver (plan
// memoisation, pgx pgtype.go PlanEncode).
func modelPgEncode(e *Exec, c *frame, fn *ssa.Function, a []Value) Value {
	recv := a[0].(*Value)
	if recv == nil {
		e.goPanic("invalid memory address or nil pointer dereference")
	}
	oid := a[1].(sym.Sc)
	val := a[3].(Iface)
	buf := a[4].(Slice)
	null := Tuple{Slice{Len: i64zero, Cap: i64zero}, Iface{}}
	if val.T == nil {
		return null
	}
	e.noteWrite(recv) // memoised plans
	e.encLog = append(e.encLog, sym.SignExt(a[2].(sym.Sc), 64))
	fail := func(msg string) Value {
		return Tuple{Slice{Len: i64zero, Cap: i64zero}, e.newErrorString("unable to encode: " + msg)}
	}
	// int4 with an int32 value: 4 bytes big-endian in binary format, decimal
	// text otherwise (makes the format handed to the encoder observable on the wire)
	if iv, isInt := val.V.(sym.Sc); isInt && iv.W == 32 {
		if e.Branch(sym.Eq(oid, sym.Const(32, oidInt4))) {
			format := a[2].(sym.Sc)
			if e.Branch(sym.Eq(format, sym.Const(16, 1))) {
				st := e.newStore(byteT, i64(4))
				for k := 0; k < 4; k++ {
					*st.cell(k) = e.norm(sym.Trunc(sym.Lshr(iv, sym.Const(32, uint64(24-8*k))), 8))
				}
				return Tuple{e.appendBytes(buf, Slice{St: st, Len: st.N, Cap: st.N}), Iface{}}
			}
			var txt Slice
			if iv.K {
				txt = litString(strconv.FormatInt(iv.Signed(), 10))
			} else {
				if !e.Branch(sym.And(sym.Sle(sym.Const(32, 0), iv), sym.Slt(iv, sym.Const(32, 100000)))) {
					e.unsupported("pgtype model: text encoding of a symbolic int4 outside 0..99999")
				}
				txt = e.decimal(sym.ZeroExt(iv, 64))
			}
			return Tuple{e.appendBytes(buf, txt), Iface{}}
		}
	}
	// int4 with a Go string: pgx encodes any string as is in TEXT format
	// (encodePlanStringToAnyTextFormat) and has no plan for it in binary format
	if isString(val.T) {
		if e.Branch(sym.Eq(oid, sym.Const(32, oidInt4))) {
			if e.Branch(sym.Eq(a[2].(sym.Sc), sym.Const(16, 1))) {
				return fail("string into binary int4")
			}
			return Tuple{e.appendBytes(buf, val.V.(Slice)), Iface{}}
		}
	}
	// a time.Time into a date/time column, by contract: the encoding is a
	// function of the instant AND — for timestamp, date and time, which pgx
	// writes from the value's wall clock in its own Location — of the Location;
	// for timestamptz of the instant alone. The model's output is a digest of
	// exactly those components (not pgx's text), so that a harness can compare
	// the wire with Encode of the value the handler gave (natively: real pgx).
	if n, ok := val.T.(*types.Named); ok && n.Obj().Pkg() != nil && n.Obj().Pkg().Path() == "time" && n.Obj().Name() == "Time" {
		if oc := oid.V; oid.K && (oc == 1114 || oc == 1082 || oc == 1083 || oc == 1184) {
			tv := val.V.(Struct)
			st := e.newStore(byteT, i64(16))
			for k := 0; k < 8; k++ {
				*st.cell(k) = e.norm(sym.Trunc(sym.Lshr(tv[0].(sym.Sc), sym.Const(64, uint64(56-8*k))), 8))
				*st.cell(8 + k) = e.norm(sym.Trunc(sym.Lshr(tv[1].(sym.Sc), sym.Const(64, uint64(56-8*k))), 8))
			}
			out := e.appendBytes(buf, Slice{St: st, Len: st.N, Cap: st.N})
			if oc != 1184 {
				loc, _ := tv[2].(*Value)
				if loc == nil {
					out = e.appendBytes(out, litString("UTC"))
				} else {
					out = e.appendBytes(out, (*loc).(Struct)[0].(Slice))
				}
			}
			return Tuple{out, Iface{}}
		}
	}
	// text-like OIDs only
	textLike := sym.Or(sym.Eq(oid, sym.Const(32, oidText)), sym.Eq(oid, sym.Const(32, oidVarchar)))
	if !e.Branch(textLike) {
		e.unsupported("pgtype.Map.Encode model covers text-like OIDs only")
	}
	v := val.V
	t := val.T
	for {
		pt, isPtr := under(t).(*types.Pointer)
		if !isPtr {
			break
		}
		p := v.(*Value)
		if p == nil {
			return null
		}
		v = *p
		t = pt.Elem()
	}
	switch {
	case isString(t):
		return Tuple{e.appendBytes(buf, v.(Slice)), Iface{}}
	case isByteSlice(t):
		s := v.(Slice)
		if s.St == nil {
			return null
		}
		return Tuple{e.appendBytes(buf, s), Iface{}}
	}
	if n, ok := t.(*types.Named); ok && n.Obj().Pkg() != nil && n.Obj().Pkg().Path() == "github.com/jackc/pgx/v5/pgtype" && n.Obj().Name() == "Text" {
		st := v.(Struct)
		if !e.Branch(st[1].(sym.Sc)) {
			return null
		}
		return Tuple{e.appendBytes(buf, st[0].(Slice)), Iface{}}
	}
	return fail(t.String())
}

// PlanEncode: returns pgx's own plan types for the value kinds the Encode model
// covers on text-like OIDs (string, []byte, pgtype.Text); their Encode methods
// are then executed from pgx's SSA, so a plan applied to a value of another Go
// type fails exactly as it does in pgx (a type-assertion panic).
func modelPgPlanEncode(e *Exec, c *frame, fn *ssa.Function, a []Value) Value {
	recv := a[0].(*Value)
	if recv == nil {
		e.goPanic("invalid memory address or nil pointer dereference")
	}
	oid := a[1].(sym.Sc)
	format := a[2].(sym.Sc)
	val := a[3].(Iface)
	if val.T == nil {
		return Iface{}
	}
	e.noteWrite(recv) // memoised plans
	textLike := sym.Or(sym.Eq(oid, sym.Const(32, oidText)), sym.Eq(oid, sym.Const(32, oidVarchar)))
	if !e.Branch(textLike) {
		e.unsupported("pgtype.Map.PlanEncode model covers text-like OIDs only")
	}
	plan := func(name string) Value {
		t := e.M.namedType("github.com/jackc/pgx/v5/pgtype", name)
		return Iface{T: t, V: zero(t)}
	}
	text := e.Branch(sym.Eq(format, sym.Const(16, 0)))
	t := val.T
	switch {
	case isString(t):
		if text {
			return plan("encodePlanStringToAnyTextFormat")
		}
		return plan("encodePlanTextCodecString")
	case isByteSlice(t):
		return plan("encodePlanTextCodecByteSlice")
	}
	if n, ok := t.(*types.Named); ok && n.Obj().Pkg() != nil && n.Obj().Pkg().Path() == "github.com/jackc/pgx/v5/pgtype" && n.Obj().Name() == "Text" {
		if text {
			return plan("encodePlanTextValuerToAnyTextFormat")
		}
		return plan("encodePlanTextCodecTextValuer")
	}
	e.unsupported("pgtype.Map.PlanEncode model: value type " + t.String())
	return nil
}

func isByteSlice(t types.Type) bool {
	sl, ok := under(t).(*types.Slice)
	if !ok {
		return false
	}
	b, ok := under(sl.Elem()).(*types.Basic)
	return ok && b.Kind() == types.Uint8
}

// appendBytes is Go's append(buf, s...): it writes into buf's backing array
// when there is room (so a shared scratch buffer is visibly shared) and
// allocates otherwise.
func (e *Exec) appendBytes(buf, s Slice) Slice {
	if e.ConcInt(s.Len) == 0 {
		return buf
	}
	return e.appendOp(buf, s, nil).(Slice)
}

// TypeForOID: text, varchar, int2/4/8, bool and bytea are known (their codecs
// are executed from pgx's own code); the OIDs 0 and >= 100000 are unknown;
// other OIDs are not modelled.
func modelPgTypeForOID(e *Exec, c *frame, fn *ssa.Function, a []Value) Value {
	recv := a[0].(*Value)
	if recv == nil {
		e.goPanic("invalid memory address or nil pointer dereference")
	}
	e.noteRead(recv)
	oid := a[1].(sym.Sc)
	// types registered on THIS map (RegisterType) come first, latest first
	if regs := e.pgRegistered[recv]; len(regs) > 0 {
		tt := e.M.namedType("github.com/jackc/pgx/v5/pgtype", "Type")
		oi := structFieldIndex(tt, "OID")
		for i := len(regs) - 1; i >= 0; i-- {
			if e.Branch(sym.Eq(oid, (*regs[i]).(Struct)[oi].(sym.Sc))) {
				return Tuple{regs[i], sym.Bool(true)}
			}
		}
	}
	mk := func(codec, name string, id uint64) Value {
		codecT := e.M.namedType("github.com/jackc/pgx/v5/pgtype", codec)
		p := new(Value)
		*p = Struct{Iface{T: codecT, V: zero(codecT)}, litString(name), sym.Const(32, id)}
		return Tuple{p, sym.Bool(true)}
	}
	// the codecs themselves are pgx's own code, executed from its SSA
	known := []struct {
		oid         uint64
		codec, name string
	}{
		{oidText, "TextCodec", "text"}, {oidVarchar, "TextCodec", "varchar"},
		{1042, "TextCodec", "bpchar"}, {19, "TextCodec", "name"}, {705, "TextCodec", "unknown"},
		{20, "Int8Codec", "int8"}, {21, "Int2Codec", "int2"}, {23, "Int4Codec", "int4"},
		{16, "BoolCodec", "bool"}, {17, "ByteaCodec", "bytea"},
	}
	for _, k := range known {
		if e.Branch(sym.Eq(oid, sym.Const(32, k.oid))) {
			return mk(k.codec, k.name, k.oid)
		}
	}
	unknown := sym.Or(sym.Eq(oid, sym.Const(32, 0)), sym.Ule(sym.Const(32, 100000), oid))
	if e.Branch(unknown) {
		return Tuple{(*Value)(nil), sym.Bool(false)}
	}
	e.unsupported("pgtype.Map.TypeForOID model covers text/varchar/bpchar/name/unknown/int2/int4/int8/bool/bytea and unregistered OIDs only")
	return nil
}

func (e *Exec) noteAllocAny(p *Value) {
	if e.foot != nil {
		e.foot.newObj(e, p)
	}
}

// ---------------------------------------------------------------------------
// crypto/tls: tls.Server returns an opaque connection over the raw conn. Its
// Read serves a separate plaintext stream and its Write goes to a separate
// "inside TLS" capture, both supplied by the harness conn through the method
// VerifTLSInner; it never hands raw bytes to the caller. Record-layer
// confidentiality/integrity is trusted (DESIGN §3).
// ---------------------------------------------------------------------------

func modelTLSServer(e *Exec, c *frame, fn *ssa.Function, a []Value) Value {
	raw := a[0].(Iface)
	t := e.M.namedType("crypto/tls", "Conn")
	p := new(Value)
	st := zero(t).(Struct)
	st[structFieldIndex(t, "conn")] = raw
	*p = st
	return p
}

func (e *Exec) tlsInner(recv *Value) Iface {
	if recv == nil {
		e.goPanic("invalid memory address or nil pointer dereference")
	}
	t := e.M.namedType("crypto/tls", "Conn")
	raw := (*recv).(Struct)[structFieldIndex(t, "conn")].(Iface)
	if raw.T == nil {
		e.goPanic("tls.Conn over nil conn")
	}
	m := e.methodByName(raw.T, "VerifTLSInner")
	if m == nil {
		e.unsupported("tls model: the raw conn %v has no VerifTLSInner method", raw.T)
	}
	inner := e.CallValue(m, raw.V).(Iface)
	if inner.T == nil {
		e.unsupported("tls model: no inner stream configured")
	}
	return inner
}

func tlsForward(name string) Intrinsic {
	return func(e *Exec, c *frame, fn *ssa.Function, a []Value) Value {
		inner := e.tlsInner(a[0].(*Value))
		m := e.methodByName(inner.T, name)
		if m == nil {
			e.unsupported("tls model: inner conn lacks %s", name)
		}
		args := append([]Value{inner.V}, a[1:]...)
		return e.CallValue(m, args...)
	}
}

func init() {
	for _, n := range []string{"Read", "Write", "LocalAddr", "RemoteAddr", "SetDeadline", "SetReadDeadline", "SetWriteDeadline"} {
		models["(*crypto/tls.Conn)."+n] = tlsForward(n)
	}
	// ConnectionState: what was negotiated is the peer's business — an arbitrary
	// state within the documented contract: TLS 1.3 with its first cipher suite
	// (not varied), resumed or not, and a peer certificate list that is EMPTY or
	// has one entry (a client need not present one unless the server requires it)
	models["(*crypto/tls.Conn).ConnectionState"] = func(e *Exec, c *frame, fn *ssa.Function, a []Value) Value {
		t := e.M.namedType("crypto/tls", "ConnectionState")
		st := zero(t).(Struct)
		st[structFieldIndex(t, "Version")] = sym.Const(16, 0x0304)
		st[structFieldIndex(t, "HandshakeComplete")] = sym.Bool(true)
		st[structFieldIndex(t, "CipherSuite")] = sym.Const(16, 0x1301)
		st[structFieldIndex(t, "DidResume")] = e.Internal(0, "tlsresumed")
		if e.Branch(e.Internal(0, "tlspeercert")) {
			ct := e.M.namedType("crypto/x509", "Certificate")
			cp := new(Value)
			*cp = zero(ct)
			store := e.newStore(types.NewPointer(ct), i64(1))
			*store.cell(0) = cp
			st[structFieldIndex(t, "PeerCertificates")] = Slice{St: store, Len: i64(1), Cap: i64(1)}
		}
		return st
	}
	models["crypto/tls.VersionName"] = func(e *Exec, c *frame, fn *ssa.Function, a []Value) Value {
		return litString("TLS 1.3")
	}
	models["crypto/tls.CipherSuiteName"] = func(e *Exec, c *frame, fn *ssa.Function, a []Value) Value {
		return litString("TLS_AES_128_GCM_SHA256")
	}
	// Close closes the raw connection as well as the TLS layer
	models["(*crypto/tls.Conn).Close"] = func(e *Exec, c *frame, fn *ssa.Function, a []Value) Value {
		recv := a[0].(*Value)
		inner := e.tlsInner(recv)
		if m := e.methodByName(inner.T, "Close"); m != nil {
			e.CallValue(m, inner.V)
		}
		t := e.M.namedType("crypto/tls", "Conn")
		raw := (*recv).(Struct)[structFieldIndex(t, "conn")].(Iface)
		return e.CallValue(e.methodByName(raw.T, "Close"), raw.V)
	}
}


// ---------------------------------------------------------------------------
// sync.Map and the integer atomics (sequential semantics; operations count as
// synchronisation in the footprint lemma). A sync.Map's content lives in a side
// table keyed by the map's address; keys are compared like interface values
// (a comparison of symbolic strings forks).
// ---------------------------------------------------------------------------

type syncMapEntry struct{ k, v Iface }

func (e *Exec) syncMap(p *Value) *[]syncMapEntry {
	if p == nil {
		e.goPanic("invalid memory address or nil pointer dereference")
	}
	if e.syncMaps == nil {
		e.syncMaps = map[*Value]*[]syncMapEntry{}
	}
	m := e.syncMaps[p]
	if m == nil {
		m = &[]syncMapEntry{}
		e.syncMaps[p] = m
	}
	e.noteAtomic(p)
	return m
}

func (e *Exec) syncMapFind(m *[]syncMapEntry, k Iface) int {
	for i, en := range *m {
		if e.Branch(e.valueEq(nil, en.k, k)) {
			return i
		}
	}
	return -1
}

func init() {
	models["(*sync.Map).Load"] = func(e *Exec, c *frame, fn *ssa.Function, a []Value) Value {
		m := e.syncMap(a[0].(*Value))
		if i := e.syncMapFind(m, a[1].(Iface)); i >= 0 {
			return Tuple{(*m)[i].v, sym.Bool(true)}
		}
		return Tuple{Iface{}, sym.Bool(false)}
	}
	models["(*sync.Map).Store"] = func(e *Exec, c *frame, fn *ssa.Function, a []Value) Value {
		m := e.syncMap(a[0].(*Value))
		if i := e.syncMapFind(m, a[1].(Iface)); i >= 0 {
			(*m)[i].v = a[2].(Iface)
			return nil
		}
		*m = append(*m, syncMapEntry{a[1].(Iface), a[2].(Iface)})
		return nil
	}
	models["(*sync.Map).LoadOrStore"] = func(e *Exec, c *frame, fn *ssa.Function, a []Value) Value {
		m := e.syncMap(a[0].(*Value))
		if i := e.syncMapFind(m, a[1].(Iface)); i >= 0 {
			return Tuple{(*m)[i].v, sym.Bool(true)}
		}
		*m = append(*m, syncMapEntry{a[1].(Iface), a[2].(Iface)})
		return Tuple{a[2].(Iface), sym.Bool(false)}
	}
	models["(*sync.Map).LoadAndDelete"] = func(e *Exec, c *frame, fn *ssa.Function, a []Value) Value {
		m := e.syncMap(a[0].(*Value))
		if i := e.syncMapFind(m, a[1].(Iface)); i >= 0 {
			v := (*m)[i].v
			*m = append(append([]syncMapEntry{}, (*m)[:i]...), (*m)[i+1:]...)
			return Tuple{v, sym.Bool(true)}
		}
		return Tuple{Iface{}, sym.Bool(false)}
	}
	models["(*sync.Map).Delete"] = func(e *Exec, c *frame, fn *ssa.Function, a []Value) Value {
		m := e.syncMap(a[0].(*Value))
		if i := e.syncMapFind(m, a[1].(Iface)); i >= 0 {
			*m = append(append([]syncMapEntry{}, (*m)[:i]...), (*m)[i+1:]...)
		}
		return nil
	}
	models["(*sync.Map).Range"] = func(e *Exec, c *frame, fn *ssa.Function, a []Value) Value {
		m := e.syncMap(a[0].(*Value))
		for _, en := range append([]syncMapEntry{}, (*m)...) {
			r := e.CallValue(a[1], en.k, en.v).(sym.Sc)
			if !e.Branch(r) {
				break
			}
		}
		return nil
	}
	// sync.Pool: Get hands back the item Put most recently (the worst case for
	// a caller that relies on a pooled object being fresh), else New(), else nil.
	// Get and Put are synchronisation on the pool object.
	models["(*sync.Pool).Get"] = func(e *Exec, c *frame, fn *ssa.Function, a []Value) Value {
		p := a[0].(*Value)
		if p == nil {
			e.goPanic("invalid memory address or nil pointer dereference")
		}
		e.noteAtomic(p)
		if e.pools == nil {
			e.pools = map[*Value][]Value{}
		}
		if items := e.pools[p]; len(items) > 0 {
			it := items[len(items)-1]
			e.pools[p] = items[:len(items)-1]
			return it
		}
		nt := e.M.namedType("sync", "Pool")
		newFn := (*p).(Struct)[structFieldIndex(nt, "New")]
		if cl, ok := newFn.(*Closure); ok && cl == nil {
			return Iface{}
		}
		if newFn == nil {
			return Iface{}
		}
		return e.CallValue(newFn)
	}
	models["(*sync.Pool).Put"] = func(e *Exec, c *frame, fn *ssa.Function, a []Value) Value {
		p := a[0].(*Value)
		if p == nil {
			e.goPanic("invalid memory address or nil pointer dereference")
		}
		e.noteAtomic(p)
		if e.pools == nil {
			e.pools = map[*Value][]Value{}
		}
		if it, ok := a[1].(Iface); ok && it.T == nil {
			return nil
		}
		e.pools[p] = append(e.pools[p], a[1])
		return nil
	}
	// integer atomics: the value lives in the struct's field "v"
	for _, t := range []struct {
		name string
		w    int
	}{{"Int64", 64}, {"Uint64", 64}, {"Int32", 32}, {"Uint32", 32}} {
		t := t
		field := func(e *Exec, p *Value) *Value {
			if p == nil {
				e.goPanic("invalid memory address or nil pointer dereference")
			}
			nt := e.M.namedType("sync/atomic", t.name)
			f := &((*p).(Struct)[structFieldIndex(nt, "v")])
			e.noteAtomic(f)
			return f
		}
		models["(*sync/atomic."+t.name+").Load"] = func(e *Exec, c *frame, fn *ssa.Function, a []Value) Value {
			return *field(e, a[0].(*Value))
		}
		models["(*sync/atomic."+t.name+").Store"] = func(e *Exec, c *frame, fn *ssa.Function, a []Value) Value {
			*field(e, a[0].(*Value)) = a[1]
			return nil
		}
		models["(*sync/atomic."+t.name+").Add"] = func(e *Exec, c *frame, fn *ssa.Function, a []Value) Value {
			f := field(e, a[0].(*Value))
			*f = e.norm(sym.Add((*f).(sym.Sc), a[1].(sym.Sc)))
			return *f
		}
		models["(*sync/atomic."+t.name+").Swap"] = func(e *Exec, c *frame, fn *ssa.Function, a []Value) Value {
			f := field(e, a[0].(*Value))
			old := *f
			*f = a[1]
			return old
		}
		models["(*sync/atomic."+t.name+").CompareAndSwap"] = func(e *Exec, c *frame, fn *ssa.Function, a []Value) Value {
			f := field(e, a[0].(*Value))
			if e.Branch(sym.Eq((*f).(sym.Sc), a[1].(sym.Sc))) {
				*f = a[2]
				return sym.Bool(true)
			}
			return sym.Bool(false)
		}
	}
}

// RegisterType: remembered per map (a customisation made on one map is visible
// to whoever uses that map afterwards, and to nobody else). Writes its receiver.
func modelPgRegisterType(e *Exec, c *frame, fn *ssa.Function, a []Value) Value {
	recv := a[0].(*Value)
	if recv == nil {
		e.goPanic("invalid memory address or nil pointer dereference")
	}
	e.noteWrite(recv)
	t, _ := a[1].(*Value)
	if t == nil {
		e.goPanic("invalid memory address or nil pointer dereference")
	}
	if e.pgRegistered == nil {
		e.pgRegistered = map[*Value][]*Value{}
	}
	e.pgRegistered[recv] = append(e.pgRegistered[recv], t)
	return nil
}

package interp

import (
	"fmt"
	"go/constant"
	"go/token"
	"go/types"
	"os"
	"slices"
	"strings"

	"gosym/sym"

	"golang.org/x/tools/go/ssa"
)

// Exec is the state of one path execution. A fresh Exec (fresh heap) is
// built for every path: forking is by re-execution from the decision prefix.
type Exec struct {
	M *Machine
	S *sym.Solver

	goSeq   int // goroutines inlined so far (footprint mode)
	goDepth int

	globals map[*ssa.Global]*Value
	deadlineErr *Iface
	pkgInit map[*ssa.Package]bool

	prefix []Dec
	pos    int
	trace  []Dec
	lits   map[string]bool
	conc   map[string]uint64

	nondets  []NondetVar
	nameSeq  int
	storeSeq int
	steps    int
	res      *PathResult

	entryName string
	entryPkg  string
	cur       *frame
	origin    string

	// model state used by intrinsics
	locks    map[*Value]int
	syncMaps map[*Value]*[]syncMapEntry
	pools    map[*Value][]Value
	pgRegistered map[*Value][]*Value
	ctxCanceled Value
	foot     *footprint
	misc     map[string]Value
	crashAt   string
	ev        *eventState
	encLog    []sym.Sc
	regexps   map[*Value]*reCompiled
	allocHook func(instr *ssa.MakeSlice, elem types.Type, n sym.Sc)
}

type deferred struct {
	fn    Value
	args  []Value
	instr *ssa.Defer
	tail  *deferred
}

type frame struct {
	e                *Exec
	caller           *frame
	fn               *ssa.Function
	block, prevBlock *ssa.BasicBlock
	env              map[ssa.Value]Value
	defers           *deferred
	result           Value
	panicking        bool
	panic            interface{}
	curInstr         ssa.Instruction
	deferred         map[*ssa.UnOp]bool
}

var traceFn = os.Getenv("GOSYM_TRACE")
var progress = os.Getenv("GOSYM_PROGRESS") != ""

// targetPanic is a Go panic of the interpreted program.
type targetPanic struct{ v Value }

func (e *Exec) where() string {
	fr := e.cur
	if fr == nil || fr.curInstr == nil {
		return "?"
	}
	pos := fr.curInstr.Pos()
	if pos == token.NoPos {
		return fr.fn.String()
	}
	p := e.M.Prog.Fset.Position(pos)
	return fmt.Sprintf("%s (%s:%d)", fr.fn.String(), shortFile(p.Filename), p.Line)
}

func shortFile(f string) string {
	if i := strings.LastIndex(f, "/"); i >= 0 {
		return f[i+1:]
	}
	return f
}

func (e *Exec) stack() string {
	var b strings.Builder
	for fr := e.cur; fr != nil; fr = fr.caller {
		if fr.curInstr != nil && fr.curInstr.Pos() != token.NoPos {
			p := e.M.Prog.Fset.Position(fr.curInstr.Pos())
			fmt.Fprintf(&b, "%s@%s:%d < ", fr.fn.Name(), shortFile(p.Filename), p.Line)
		} else {
			fmt.Fprintf(&b, "%s < ", fr.fn.Name())
		}
	}
	return b.String()
}

// goPanic raises a Go run-time panic (index out of range, nil dereference …).
func (e *Exec) goPanic(msg string) {
	panic(targetPanic{Iface{T: e.M.runtimeErrT, V: litString("runtime error: " + msg)}})
}

func (fr *frame) get(key ssa.Value) Value {
	switch key := key.(type) {
	case nil:
		return nil
	case *ssa.Function:
		return key
	case *ssa.Builtin:
		return key
	case *ssa.Const:
		return fr.e.constValue(key)
	case *ssa.Global:
		return fr.e.global(key)
	}
	if r, ok := fr.env[key]; ok {
		if ll, isLazy := r.(lazyLoad); isLazy {
			fr.e.noteRead(ll.p)
			v := copyVal(*ll.p)
			fr.env[key] = v
			return v
		}
		return r
	}
	panic(fmt.Sprintf("get: no value for %T: %v in %s", key, key.Name(), fr.fn))
}

func (fr *frame) set(key ssa.Value, v Value) {
	if s, ok := v.(sym.Sc); ok {
		v = fr.e.norm(s)
	}
	fr.env[key] = v
}

func (e *Exec) constValue(c *ssa.Const) Value {
	if c.Value == nil {
		return zero(c.Type())
	}
	t := under(c.Type())
	if b, ok := t.(*types.Basic); ok {
		switch {
		case b.Info()&types.IsBoolean != 0:
			return sym.Bool(constant.BoolVal(c.Value))
		case b.Info()&types.IsString != 0:
			if c.Value.Kind() == constant.String {
				return litString(constant.StringVal(c.Value))
			}
		case b.Info()&types.IsInteger != 0:
			w, _, _ := width(b)
			if u, ok := constant.Uint64Val(constant.ToInt(c.Value)); ok {
				return sym.Const(w, u)
			}
			i, _ := constant.Int64Val(constant.ToInt(c.Value))
			return sym.Const(w, uint64(i))
		case b.Info()&types.IsFloat != 0:
			f, _ := constant.Float64Val(c.Value)
			return f
		}
	}
	if _, ok := t.(*types.TypeParam); ok {
		panic("const of type parameter")
	}
	e.unsupported("constant %v of type %v", c, c.Type())
	return nil
}

// global returns the address of a package-level variable. Globals of
// packages whose initialiser is not executed are usable only when that
// initialiser never touches them (they are then zero-initialised).
func (e *Exec) global(g *ssa.Global) *Value {
	if p, ok := e.globals[g]; ok {
		return p
	}
	if g.Pkg != nil && !e.M.runsInit(g.Pkg) && e.M.initTouches(g) {
		if v, ok := e.M.globalModel(e, g); ok {
			p := new(Value)
			*p = v
			e.globals[g] = p
			return p
		}
		e.unsupported("global %s of package %s whose init is not executed", g.Name(), g.Pkg.Pkg.Path())
	}
	p := new(Value)
	*p = zero(deref(g.Type()))
	e.globals[g] = p
	return p
}

// ---- instruction dispatch ----

type continuation int

const (
	kNext continuation = iota
	kReturn
	kJump
)

func (fr *frame) visit(instr ssa.Instruction) continuation {
	e := fr.e
	e.steps++
	if e.steps > e.M.Cfg.MaxSteps {
		e.abort("budget", "step budget %d exhausted at %s", e.M.Cfg.MaxSteps, e.where())
	}
	fr.curInstr = instr
	if progress && e.steps%200000 == 0 {
		fmt.Fprintf(os.Stderr, "PROGRESS steps=%d decisions=%d %s\n", e.steps, e.res.Decisions, e.stack())
	}
	if traceFn != "" && strings.Contains(fr.fn.String(), traceFn) {
		defer func() {
			if v, ok := instr.(ssa.Value); ok {
				fmt.Fprintf(os.Stderr, "TRACE %s: %s = %s  => %s\n", fr.fn.Name(), v.Name(), instr, describe(fr.env[v]))
			} else {
				fmt.Fprintf(os.Stderr, "TRACE %s: %s\n", fr.fn.Name(), instr)
			}
		}()
	}
	switch instr := instr.(type) {
	case *ssa.DebugRef:

	case *ssa.UnOp:
		if instr.Op == token.MUL && fr.deferred[instr] {
			if p, ok := fr.get(instr.X).(*Value); ok && p != nil {
				fr.env[instr] = lazyLoad{p}
				break
			}
		}
		fr.set(instr, e.unop(instr, fr.get(instr.X)))

	case *ssa.BinOp:
		fr.set(instr, e.binop(instr.Op, instr.X.Type(), instr.Y.Type(), fr.get(instr.X), fr.get(instr.Y)))

	case *ssa.Call:
		fn, args := fr.prepareCall(&instr.Call)
		fr.set(instr, e.call(fr, instr.Pos(), fn, args))

	case *ssa.ChangeInterface:
		fr.set(instr, fr.get(instr.X))

	case *ssa.ChangeType:
		fr.set(instr, fr.get(instr.X))

	case *ssa.Convert:
		fr.set(instr, e.conv(instr.Type(), instr.X.Type(), fr.get(instr.X)))

	case *ssa.MakeInterface:
		fr.set(instr, Iface{T: instr.X.Type(), V: copyVal(fr.get(instr.X))})

	case *ssa.Extract:
		fr.set(instr, fr.get(instr.Tuple).(Tuple)[instr.Index])

	case *ssa.Slice:
		fr.set(instr, e.sliceOp(instr, fr.get(instr.X), fr.get(instr.Low), fr.get(instr.High), fr.get(instr.Max)))

	case *ssa.Return:
		switch len(instr.Results) {
		case 0:
		case 1:
			fr.result = fr.get(instr.Results[0])
		default:
			res := make(Tuple, 0, len(instr.Results))
			for _, r := range instr.Results {
				res = append(res, fr.get(r))
			}
			fr.result = res
		}
		fr.block = nil
		return kReturn

	case *ssa.RunDefers:
		fr.runDefers()

	case *ssa.Panic:
		panic(targetPanic{fr.get(instr.X)})

	case *ssa.Store:
		p := fr.get(instr.Addr).(*Value)
		if p == nil {
			e.goPanic("invalid memory address or nil pointer dereference")
		}
		e.noteWrite(p)
		storeInto(p, fr.get(instr.Val))

	case *ssa.If:
		c := fr.get(instr.Cond).(sym.Sc)
		succ := 1
		if e.Branch(c) {
			succ = 0
		}
		fr.prevBlock, fr.block = fr.block, fr.block.Succs[succ]
		return kJump

	case *ssa.Jump:
		fr.prevBlock, fr.block = fr.block, fr.block.Succs[0]
		return kJump

	case *ssa.Defer:
		fn, args := fr.prepareCall(&instr.Call)
		if instr.DeferStack != nil {
			e.unsupported("defer with explicit defer stack (range-over-func)")
		}
		fr.defers = &deferred{fn: fn, args: args, instr: instr, tail: fr.defers}

	case *ssa.Go:
		fn, args := fr.prepareCall(&instr.Call)
		e.goStmt(fr, fn, args)

	case *ssa.MakeChan:
		e.storeSeq++
		size := 0
		if sz, ok := fr.get(instr.Size).(sym.Sc); ok {
			if !sz.K {
				e.unsupported("make(chan) with a symbolic size at %s", e.where())
			}
			size = int(sz.Signed())
		}
		fr.set(instr, &Chan{ID: e.storeSeq, cap: size})

	case *ssa.Alloc:
		p := new(Value)
		*p = zero(deref(instr.Type()))
		e.noteAlloc(p, instr)
		fr.set(instr, p)

	case *ssa.MakeSlice:
		fr.set(instr, e.makeSlice(instr, fr.get(instr.Len).(sym.Sc), fr.get(instr.Cap).(sym.Sc)))

	case *ssa.MakeMap:
		mt := under(instr.Type()).(*types.Map)
		e.storeSeq++
		fr.set(instr, &Map{keyT: mt.Key(), elemT: mt.Elem(), ID: e.storeSeq})

	case *ssa.Range:
		fr.set(instr, e.rangeIter(fr.get(instr.X), instr.X.Type()))

	case *ssa.Next:
		fr.set(instr, fr.get(instr.Iter).(iter).next(e))

	case *ssa.FieldAddr:
		p := fr.get(instr.X).(*Value)
		if p == nil {
			e.goPanic("invalid memory address or nil pointer dereference")
		}
		fp := &(*p).(Struct)[instr.Field]
		e.noteDerived(p, fp)
		fr.set(instr, fp)

	case *ssa.Field:
		fr.set(instr, copyVal(fr.get(instr.X).(Struct)[instr.Field]))

	case *ssa.IndexAddr:
		fr.set(instr, e.indexAddr(fr.get(instr.X), fr.get(instr.Index).(sym.Sc), instr.Index.Type()))

	case *ssa.Index:
		x := fr.get(instr.X)
		idx := fr.get(instr.Index).(sym.Sc)
		switch x := x.(type) {
		case Array:
			i := e.boundsIndex(idx, instr.Index.Type(), x.St.N)
			fr.set(instr, copyVal(x.St.peek(i)))
		case Slice: // string
			i := e.boundsIndex(idx, instr.Index.Type(), x.Len)
			fr.set(instr, x.St.peek(e.o(x)+i))
		default:
			e.unsupported("Index on %T", x)
		}

	case *ssa.Lookup:
		fr.set(instr, e.lookup(instr, fr.get(instr.X), fr.get(instr.Index)))

	case *ssa.MapUpdate:
		m := fr.get(instr.Map).(*Map)
		if m == nil {
			panic(targetPanic{Iface{T: e.M.runtimeErrT, V: litString("assignment to entry in nil map")}})
		}
		e.mapInsert(m, fr.get(instr.Key), copyVal(fr.get(instr.Value)))

	case *ssa.TypeAssert:
		fr.set(instr, e.typeAssert(instr, fr.get(instr.X).(Iface)))

	case *ssa.MakeClosure:
		var bindings []Value
		for _, b := range instr.Bindings {
			bindings = append(bindings, fr.get(b))
		}
		fr.set(instr, &Closure{instr.Fn.(*ssa.Function), bindings})

	case *ssa.Phi:
		panic("unreachable: phi")

	case *ssa.Send:
		e.chanSend(fr.get(instr.Chan), fr.get(instr.X), instr.Chan.Type())

	case *ssa.Select:
		fr.set(instr, e.selectStmt(fr, instr))

	default:
		e.unsupported("instruction %T", instr)
	}
	return kNext
}

func (fr *frame) prepareCall(call *ssa.CallCommon) (fn Value, args []Value) {
	e := fr.e
	v := fr.get(call.Value)
	if call.Method == nil {
		fn = v
	} else {
		recv := v.(Iface)
		if recv.T == nil {
			e.goPanic("invalid memory address or nil pointer dereference (method on nil interface)")
		}
		f := e.M.lookupMethod(recv.T, call.Method)
		if f == nil {
			e.unsupported("method set of %v lacks %s", recv.T, call.Method)
		}
		fn = f
		args = append(args, recv.V)
	}
	for _, a := range call.Args {
		args = append(args, fr.get(a))
	}
	return
}

func (e *Exec) call(caller *frame, pos token.Pos, fn Value, args []Value) Value {
	switch fn := fn.(type) {
	case *ssa.Function:
		if fn == nil {
			e.goPanic("invalid memory address or nil pointer dereference (call of nil func)")
		}
		return e.callSSA(caller, fn, args, nil)
	case *Closure:
		if fn == nil {
			e.goPanic("invalid memory address or nil pointer dereference (call of nil func)")
		}
		return e.callSSA(caller, fn.Fn, args, fn.Env)
	case *ssa.Builtin:
		return e.callBuiltin(caller, fn, args)
	case *Native:
		return fn.Fn(e, args)
	}
	e.unsupported("call of %T", fn)
	return nil
}

// CallValue lets intrinsics call back into interpreted code.
func (e *Exec) CallValue(fn Value, args ...Value) Value {
	return e.call(e.cur, token.NoPos, fn, args)
}

func (e *Exec) callSSA(caller *frame, fn *ssa.Function, args []Value, env []Value) Value {
	if fn.Parent() == nil || fn.Synthetic == "" {
		name := fn.String()
		if e.ev != nil {
			if in, ok := eventModels[name]; ok {
				return in(e, caller, fn, args)
			}
		}
		if in := e.M.intrinsic(fn, name); in != nil {
			return in(e, caller, fn, args)
		}
	}
	if fn.Blocks == nil {
		e.unsupported("no body for %s (called from %s)", fn.String(), e.where())
	}
	if fn.TypeParams().Len() > 0 && len(fn.TypeArgs()) == 0 {
		e.unsupported("uninstantiated generic %s", fn)
	}
	e.M.noteFunc(e, fn)
	fr := &frame{e: e, caller: caller, fn: fn, deferred: deferredLoads(fn)}
	fr.env = make(map[ssa.Value]Value, 16)
	fr.block = fn.Blocks[0]
	for i, p := range fn.Params {
		fr.env[p] = args[i]
	}
	for i, fv := range fn.FreeVars {
		fr.env[fv] = env[i]
	}
	saved := e.cur
	e.cur = fr
	defer func() { e.cur = saved }()
	for fr.block != nil {
		fr.run()
	}
	return fr.result
}

func (fr *frame) run() {
	defer func() {
		if fr.block == nil {
			return // normal return
		}
		r := recover()
		if _, isAbort := r.(abort); isAbort {
			panic(r) // engine-level path end: do not run target defers
		}
		if _, isTP := r.(targetPanic); !isTP {
			if fr.e.crashAt == "" {
				fr.e.crashAt = fr.e.stack()
			}
			panic(r) // interpreter bug: crash loudly
		}
		fr.panicking = true
		fr.panic = r
		fr.e.cur = fr
		fr.runDefers()
		fr.block = fr.fn.Recover
		if fr.block == nil {
			// recovered, no named results: return zero values
			fr.result = zero(fr.fn.Signature.Results())
			if fr.fn.Signature.Results().Len() == 0 {
				fr.result = nil
			}
		}
	}()
	for {
		nonPhis := fr.executePhis()
		for _, instr := range nonPhis {
			if fr.visit(instr) == kReturn {
				return
			}
		}
	}
}

func (fr *frame) executePhis() []ssa.Instruction {
	firstNonPhi := -1
	for i, instr := range fr.block.Instrs {
		if _, ok := instr.(*ssa.Phi); !ok {
			firstNonPhi = i
			break
		}
	}
	nonPhis := fr.block.Instrs[firstNonPhi:]
	if firstNonPhi > 0 {
		phis := fr.block.Instrs[:firstNonPhi]
		predIndex := slices.Index(fr.block.Preds, fr.prevBlock)
		tmp := make([]Value, 0, len(phis))
		for _, phi := range phis {
			tmp = append(tmp, fr.get(phi.(*ssa.Phi).Edges[predIndex]))
		}
		for i, phi := range phis {
			fr.env[phi.(*ssa.Phi)] = tmp[i]
		}
	}
	return nonPhis
}

func (fr *frame) runDefer(d *deferred) {
	var ok bool
	defer func() {
		if !ok {
			r := recover()
			if _, isTP := r.(targetPanic); !isTP {
				panic(r)
			}
			fr.panicking = true
			fr.panic = r
		}
	}()
	fr.e.call(fr, d.instr.Pos(), d.fn, d.args)
	ok = true
}

func (fr *frame) runDefers() {
	for d := fr.defers; d != nil; d = d.tail {
		fr.runDefer(d)
	}
	fr.defers = nil
	if fr.panicking {
		panic(fr.panic)
	}
}

func (e *Exec) doRecover(caller *frame) Value {
	// recover() is effective only when called directly by a deferred
	// function of a panicking frame.
	if caller != nil && !caller.panicking && caller.caller != nil && caller.caller.panicking {
		caller.caller.panicking = false
		p := caller.caller.panic
		caller.caller.panic = nil
		if tp, ok := p.(targetPanic); ok {
			return tp.v
		}
		panic(p)
	}
	return Iface{}
}

// ---- type assertions and method lookup ----

func (e *Exec) typeAssert(instr *ssa.TypeAssert, itf Iface) Value {
	var v Value
	ok := false
	if idst, isI := under(instr.AssertedType).(*types.Interface); isI {
		if itf.T != nil && types.Implements(itf.T, idst) {
			v, ok = itf, true
		}
	} else if itf.T != nil && types.Identical(itf.T, instr.AssertedType) {
		v, ok = copyVal(itf.V), true
	}
	if instr.CommaOk {
		if !ok {
			v = zero(instr.AssertedType)
		}
		return Tuple{v, sym.Bool(ok)}
	}
	if !ok {
		msg := fmt.Sprintf("interface conversion: interface is %v, not %v", itf.T, instr.AssertedType)
		panic(targetPanic{Iface{T: e.M.runtimeErrT, V: litString(msg)}})
	}
	return v
}

// storeInto assigns v to *p. Aggregates are copied element-wise into the
// existing storage, so that addresses of fields/elements taken earlier stay
// valid (go/ssa takes &x.f before storing a composite literal into *x).
func storeInto(p *Value, v Value) {
	switch nv := v.(type) {
	case Struct:
		if old, ok := (*p).(Struct); ok && len(old) == len(nv) {
			for i := range nv {
				storeInto(&old[i], nv[i])
			}
			return
		}
	case Array:
		if old, ok := (*p).(Array); ok && old.St != nv.St {
			seen := map[int]bool{}
			for i := range nv.St.cells {
				seen[i] = true
				storeInto(old.St.cell(i), nv.St.peek(i))
			}
			for i := range old.St.cells {
				if !seen[i] {
					storeInto(old.St.cell(i), nv.St.peek(i))
				}
			}
			if nv.St.lit != "" {
				for i := 0; i < len(nv.St.lit); i++ {
					if !seen[i] {
						storeInto(old.St.cell(i), nv.St.peek(i))
					}
				}
			}
			return
		}
	}
	*p = copyVal(v)
}

package interp

import (
	"go/types"

	"gosym/sym"

	"golang.org/x/tools/go/ssa"
)

// footprint records, per origin tag, which heap cells were read and written
// (C15's conflict-freedom lemma). Disabled unless a harness arms it.
type footprint struct {
	owner  map[*Value]*objInfo
	reads  map[*objInfo]map[string]accessInfo
	writes map[*objInfo]map[string]accessInfo
	held   map[*Value]int
	seq    int
}

type objInfo struct {
	id     int
	origin string
	where  string
}

type accessInfo struct {
	where  string
	locked bool
	atomic bool
}

func (e *Exec) noteWrite(p *Value) {
	if e.foot != nil {
		e.foot.access(e, p, true, false)
	}
}

func (e *Exec) noteRead(p *Value) {
	if e.foot != nil {
		e.foot.access(e, p, false, false)
	}
}

func (e *Exec) noteAtomic(p *Value) {
	if e.foot != nil {
		e.foot.access(e, p, true, true)
	}
}

func (e *Exec) noteAlloc(p *Value, instr *ssa.Alloc) {
	if e.foot != nil {
		e.foot.newObj(e, p)
	}
}

func (e *Exec) noteDerived(base, p *Value) {
	if e.foot != nil {
		e.foot.derive(e, base, p)
	}
}

func (e *Exec) noteStoreCell(st *Store, p *Value) {
	if e.foot != nil {
		e.foot.storeCell(e, st, p)
	}
}

var _ = types.Typ
var _ = sym.Bool

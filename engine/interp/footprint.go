package interp

import (
	"fmt"
	"os"
	"sort"
	"strings"

	"gosym/sym"

	"golang.org/x/tools/go/ssa"
)

// footprint records which heap cells the code under test reads and writes
// while serving each connection (the origin tag set by the harness), with the
// locks held at the time. C15's conflict-freedom lemma is a check over these
// sets on every explored path: no cell written under one origin is read or
// written under another unless both accesses are operations of sync/atomic
// or hold a common lock. Accesses made by harness code itself (callbacks'
// own bookkeeping) are not part of the library's footprint and are skipped.
type footprint struct {
	acc  map[interface{}][]access
	held map[*Value]int
	n    int
}

type access struct {
	origin string
	write  bool
	atomic bool
	locks  []*Value
	where  string
	// epoch: how many goroutines the path had started when the access was made
	// (the latest such access of its kind is kept). An access of a creator made
	// before it started goroutine #N happens-before everything #N does.
	epoch int
}

func (e *Exec) inHarnessCode() bool {
	fr := e.cur
	if fr == nil {
		return true
	}
	if fr.fn.Pos().IsValid() {
		f := e.M.Prog.Fset.Position(fr.fn.Pos()).Filename
		return strings.Contains(f, "zz_verif_")
	}
	return false
}

func (f *footprint) record(e *Exec, key interface{}, write, atomic bool) {
	if e.origin == "" || e.inHarnessCode() {
		return
	}
	list := f.acc[key]
	// keep one representative per (origin, kind) to bound the log
	for i, a := range list {
		if a.origin == e.origin && a.write == write && a.atomic == atomic && len(a.locks) == len(f.held) {
			if e.goSeq > a.epoch {
				list[i].epoch, list[i].where = e.goSeq, e.where()
			}
			return
		}
	}
	var locks []*Value
	for l, n := range f.held {
		if n > 0 {
			locks = append(locks, l)
		}
	}
	f.acc[key] = append(list, access{origin: e.origin, write: write, atomic: atomic, locks: locks, where: e.where(), epoch: e.goSeq})
	f.n++
}

func (f *footprint) access(e *Exec, p *Value, write, atomic bool) {
	f.record(e, p, write, atomic)
	// a whole-aggregate access touches every field cell as well
	if s, ok := (*p).(Struct); ok {
		for i := range s {
			f.access(e, &s[i], write, atomic)
		}
	}
}

func (f *footprint) newObj(e *Exec, p *Value)               {}
func (f *footprint) derive(e *Exec, base, p *Value)         {}
func (f *footprint) storeCell(e *Exec, st *Store, p *Value) { f.record(e, p, true, false) }
func (f *footprint) read(p *Value)                          {}

func (f *footprint) lock(p *Value, d int) {
	f.held[p] += d
	if f.held[p] <= 0 {
		delete(f.held, p)
	}
}

func (e *Exec) noteMapAccess(m *Map, write bool) {
	if e.foot != nil && m != nil {
		e.foot.record(e, m, write, false)
	}
}

func common(a, b []*Value) bool {
	for _, x := range a {
		for _, y := range b {
			if x == y {
				return true
			}
		}
	}
	return false
}

// conflicts lists unsynchronised cross-origin access pairs.
func (f *footprint) conflicts() []string {
	var out []string
	for _, list := range f.acc {
		for i := 0; i < len(list); i++ {
			for j := i + 1; j < len(list); j++ {
				a, b := list[i], list[j]
				if a.origin == b.origin || (!a.write && !b.write) {
					continue
				}
				if a.atomic && b.atomic {
					continue
				}
				if common(a.locks, b.locks) {
					continue
				}
				if startedAfter(a, b) || startedAfter(b, a) {
					continue
				}
				out = append(out, fmt.Sprintf("%s(%s,%s) vs %s(%s,%s)", a.origin, rw(a.write), a.where, b.origin, rw(b.write), b.where))
			}
		}
	}
	sort.Strings(out)
	return out
}

// startedAfter: b belongs to a goroutine (or a descendant of one) that a's
// origin started after making the access a — the go statement orders them.
func startedAfter(a, b access) bool {
	if !strings.HasPrefix(b.origin, a.origin+"/go#") {
		return false
	}
	rest := b.origin[len(a.origin)+len("/go#"):]
	n := 0
	for _, c := range rest {
		if c < '0' || c > '9' {
			break
		}
		n = n*10 + int(c-'0')
	}
	return a.epoch < n
}

func rw(w bool) string {
	if w {
		return "write"
	}
	return "read"
}

func footBegin(e *Exec, c *frame, fn *ssa.Function, a []Value) Value {
	e.foot = &footprint{acc: map[interface{}][]access{}, held: map[*Value]int{}}
	return nil
}

// vFootReport(label, kf): asserts conflict-freedom of what was recorded.
func footReport(e *Exec, c *frame, fn *ssa.Function, a []Value) Value {
	if e.foot == nil {
		e.unsupported("vFootReport without vFootBegin")
	}
	label := e.strArg(a[0])
	kf := e.strArg(a[1])
	conf := e.foot.conflicts()
	if e.replaying() {
		return nil
	}
	if len(conf) > 0 {
		if os.Getenv("GOSYM_FOOT") != "" {
			fmt.Fprintln(os.Stderr, "FOOT", strings.Join(conf, "\nFOOT "))
		}
		e.res.Observed = append(e.res.Observed, conf...)
		// distinguish the known site (the shared pgtype.Map) from anything else
		onlyKnown := true
		for _, c := range conf {
			if !strings.Contains(c, "Column.Write") && !strings.Contains(c, "pgtype") && !strings.Contains(c, "Parameter.Scan") && !strings.Contains(c, "NewScanner") {
				onlyKnown = false
			}
		}
		detail := conf[0]
		if len(conf) > 1 {
			detail += fmt.Sprintf(" (+%d more)", len(conf)-1)
		}
		e.misc["foot:last"] = litString(detail)
		if onlyKnown && kf != "" && e.M.Known[kf] {
			e.Assert(label, sym.Bool(false), kf, sym.Bool(true))
			return nil
		}
		e.Assert(label+": "+clip(detail), sym.Bool(false), "", sym.Bool(false))
		return nil
	}
	e.Assert(label, sym.Bool(true), "", sym.Bool(false))
	return nil
}

func (e *Exec) noteWrite(p *Value) {
	if e.foot != nil {
		e.foot.access(e, p, true, false)
	}
}

func (e *Exec) noteRead(p *Value) {
	if e.foot != nil {
		e.foot.access(e, p, false, false)
	}
}

func (e *Exec) noteAtomic(p *Value) {
	if e.foot != nil {
		e.foot.record(e, p, true, true)
	}
}

func (e *Exec) noteAlloc(p *Value, instr *ssa.Alloc) {}
func (e *Exec) noteDerived(base, p *Value)           {}

func (e *Exec) noteStoreCell(st *Store, p *Value) {
	if e.foot != nil {
		e.foot.storeCell(e, st, p)
	}
}

package interp

import (
	"fmt"
	"strconv"

	"gosym/sym"
)

// A small regular-expression engine that runs over symbolic bytes: a
// backtracking matcher with Perl/RE2 "leftmost-first" preference (earlier
// alternative first, greedy quantifiers), which is what Go's regexp package
// implements for non-POSIX patterns. Every data-dependent test is a
// solver-decided branch of the engine. Supported syntax: literals, escapes
// (\d \D \w \W \s \S and escaped punctuation), '.', character classes with
// ranges and negation, capturing and non-capturing groups, alternation, and
// the greedy quantifiers * + ? {m} {m,} {m,n}. Anything else is reported as
// unsupported (the paths through it are inconclusive, never silently wrong).

type reNode struct {
	kind     byte // 'l' literal, 'c' class, '.' any, 'g' group, 'a' alt, 's' seq, 'q' quantifier, 'e' empty
	lit      byte
	set      [256]bool
	subs     []*reNode
	capIdx   int // for groups: capture index (0 = non-capturing)
	min, max int // for quantifiers (max<0: unbounded)
}

type reParser struct {
	s    string
	i    int
	ncap int
	err  error
}

func parseRegexp(pat string) (*reNode, int, error) {
	p := &reParser{s: pat}
	n := p.alt()
	if p.err == nil && p.i != len(p.s) {
		p.err = fmt.Errorf("unexpected %q at %d", p.s[p.i], p.i)
	}
	return n, p.ncap, p.err
}

func (p *reParser) alt() *reNode {
	alts := []*reNode{p.seq()}
	for p.err == nil && p.i < len(p.s) && p.s[p.i] == '|' {
		p.i++
		alts = append(alts, p.seq())
	}
	if len(alts) == 1 {
		return alts[0]
	}
	return &reNode{kind: 'a', subs: alts}
}

func (p *reParser) seq() *reNode {
	n := &reNode{kind: 's'}
	for p.err == nil && p.i < len(p.s) && p.s[p.i] != '|' && p.s[p.i] != ')' {
		a := p.atom()
		if p.err != nil {
			break
		}
		n.subs = append(n.subs, p.quant(a))
	}
	return n
}

func (p *reParser) quant(a *reNode) *reNode {
	if p.i >= len(p.s) {
		return a
	}
	min, max := -1, -1
	switch p.s[p.i] {
	case '*':
		min, max = 0, -1
		p.i++
	case '+':
		min, max = 1, -1
		p.i++
	case '?':
		min, max = 0, 1
		p.i++
	case '{':
		j := p.i + 1
		num := func() int {
			st := j
			for j < len(p.s) && p.s[j] >= '0' && p.s[j] <= '9' {
				j++
			}
			if st == j {
				return -1
			}
			v, _ := strconv.Atoi(p.s[st:j])
			return v
		}
		lo := num()
		if lo < 0 {
			return a // literal '{'
		}
		hi := lo
		if j < len(p.s) && p.s[j] == ',' {
			j++
			hi = num()
		}
		if j >= len(p.s) || p.s[j] != '}' {
			return a
		}
		p.i = j + 1
		min, max = lo, hi
	default:
		return a
	}
	if p.i < len(p.s) && (p.s[p.i] == '?' || p.s[p.i] == '+') {
		p.err = fmt.Errorf("lazy/possessive quantifiers are not supported")
	}
	return &reNode{kind: 'q', subs: []*reNode{a}, min: min, max: max}
}

func classOf(c byte) (set [256]bool, ok bool) {
	in := func(b int) bool {
		switch c | 0x20 {
		case 'd':
			return b >= '0' && b <= '9'
		case 'w':
			return b >= '0' && b <= '9' || b >= 'a' && b <= 'z' || b >= 'A' && b <= 'Z' || b == '_'
		case 's':
			return b == ' ' || b == '\t' || b == '\n' || b == '\r' || b == '\f' || b == '\v'
		}
		return false
	}
	switch c {
	case 'd', 'w', 's', 'D', 'W', 'S':
		neg := c < 'a'
		for b := 0; b < 256; b++ {
			set[b] = in(b) != neg
		}
		return set, true
	}
	return set, false
}

func (p *reParser) atom() *reNode {
	c := p.s[p.i]
	switch c {
	case '(':
		p.i++
		capIdx := 0
		if p.i+1 < len(p.s) && p.s[p.i] == '?' {
			if p.s[p.i+1] != ':' {
				p.err = fmt.Errorf("group flags are not supported")
				return nil
			}
			p.i += 2
		} else {
			p.ncap++
			capIdx = p.ncap
		}
		sub := p.alt()
		if p.i >= len(p.s) || p.s[p.i] != ')' {
			p.err = fmt.Errorf("missing )")
			return nil
		}
		p.i++
		return &reNode{kind: 'g', subs: []*reNode{sub}, capIdx: capIdx}
	case '[':
		p.i++
		n := &reNode{kind: 'c'}
		neg := false
		if p.i < len(p.s) && p.s[p.i] == '^' {
			neg = true
			p.i++
		}
		first := true
		for p.i < len(p.s) && (p.s[p.i] != ']' || first) {
			first = false
			lo := p.s[p.i]
			if lo == '\\' && p.i+1 < len(p.s) {
				p.i++
				if set, ok := classOf(p.s[p.i]); ok {
					for b := range set {
						if set[b] {
							n.set[b] = true
						}
					}
					p.i++
					continue
				}
				lo = p.s[p.i]
			}
			hi := lo
			if p.i+2 < len(p.s) && p.s[p.i+1] == '-' && p.s[p.i+2] != ']' {
				hi = p.s[p.i+2]
				p.i += 2
			}
			for b := int(lo); b <= int(hi); b++ {
				n.set[b] = true
			}
			p.i++
		}
		if p.i >= len(p.s) {
			p.err = fmt.Errorf("missing ]")
			return nil
		}
		p.i++
		if neg {
			for b := range n.set {
				n.set[b] = !n.set[b]
			}
		}
		return n
	case '.':
		p.i++
		n := &reNode{kind: 'c'}
		for b := range n.set {
			n.set[b] = b != '\n'
		}
		return n
	case '\\':
		if p.i+1 >= len(p.s) {
			p.err = fmt.Errorf("trailing backslash")
			return nil
		}
		p.i += 2
		e := p.s[p.i-1]
		if set, ok := classOf(e); ok {
			return &reNode{kind: 'c', set: set}
		}
		if e >= '0' && e <= '9' || e >= 'a' && e <= 'z' || e >= 'A' && e <= 'Z' {
			p.err = fmt.Errorf("escape \\%c is not supported", e)
			return nil
		}
		return &reNode{kind: 'l', lit: e}
	case '^', '$', '*', '+', '?':
		p.err = fmt.Errorf("%q is not supported here", c)
		return nil
	}
	p.i++
	if c >= 0x80 {
		p.err = fmt.Errorf("non-ASCII pattern bytes are not supported")
	}
	return &reNode{kind: 'l', lit: c}
}

// reMatcher runs the backtracking match over a symbolic subject.
type reMatcher struct {
	e    *Exec
	at   func(i int) sym.Sc
	n    int
	caps []int // 2*(ncap+1) offsets
}

func (m *reMatcher) inSet(b sym.Sc, set *[256]bool) sym.Sc {
	// build a disjunction of ranges
	r := sym.Bool(false)
	for lo := 0; lo < 256; {
		if !set[lo] {
			lo++
			continue
		}
		hi := lo
		for hi+1 < 256 && set[hi+1] {
			hi++
		}
		var c sym.Sc
		if lo == hi {
			c = sym.Eq(b, sym.Const(8, uint64(lo)))
		} else {
			c = sym.And(sym.Ule(sym.Const(8, uint64(lo)), b), sym.Ule(b, sym.Const(8, uint64(hi))))
		}
		r = sym.Or(r, c)
		lo = hi + 1
	}
	return m.e.norm(r)
}

// match tries node at pos and calls k(pos') for every way it can match, in
// preference order; returns true as soon as a continuation succeeds.
func (m *reMatcher) match(nd *reNode, pos int, k func(int) bool) bool {
	switch nd.kind {
	case 'l':
		if pos < m.n && m.e.Branch(sym.Eq(m.at(pos), sym.Const(8, uint64(nd.lit)))) {
			return k(pos + 1)
		}
		return false
	case 'c':
		if pos < m.n && m.e.Branch(m.inSet(m.at(pos), &nd.set)) {
			return k(pos + 1)
		}
		return false
	case 's':
		var step func(i, p int) bool
		step = func(i, p int) bool {
			if i == len(nd.subs) {
				return k(p)
			}
			return m.match(nd.subs[i], p, func(q int) bool { return step(i+1, q) })
		}
		return step(0, pos)
	case 'a':
		for _, alt := range nd.subs {
			if m.match(alt, pos, k) {
				return true
			}
		}
		return false
	case 'g':
		if nd.capIdx == 0 {
			return m.match(nd.subs[0], pos, k)
		}
		oldS, oldE := m.caps[2*nd.capIdx], m.caps[2*nd.capIdx+1]
		ok := m.match(nd.subs[0], pos, func(q int) bool {
			ps, pe := m.caps[2*nd.capIdx], m.caps[2*nd.capIdx+1]
			m.caps[2*nd.capIdx], m.caps[2*nd.capIdx+1] = pos, q
			if k(q) {
				return true
			}
			m.caps[2*nd.capIdx], m.caps[2*nd.capIdx+1] = ps, pe
			return false
		})
		if !ok {
			m.caps[2*nd.capIdx], m.caps[2*nd.capIdx+1] = oldS, oldE
		}
		return ok
	case 'q':
		var rep func(count, p int) bool
		rep = func(count, p int) bool {
			// greedy: try one more repetition first
			if nd.max < 0 || count < nd.max {
				if m.match(nd.subs[0], p, func(q int) bool {
					if q == p {
						return false // no progress: avoid infinite loops on empty matches
					}
					return rep(count+1, q)
				}) {
					return true
				}
			}
			if count >= nd.min {
				return k(p)
			}
			return false
		}
		return rep(0, pos)
	}
	return false
}

// findAllSubmatch implements (*Regexp).FindAllStringSubmatch(s, limit):
// all matches for limit < 0, at most limit matches otherwise.
func (e *Exec) reFindAll(re *reNode, ncap int, s Slice, limit int) [][][2]int {
	n := e.ConcInt(s.Len)
	base := e.o(s)
	m := &reMatcher{e: e, n: n, at: func(i int) sym.Sc { return s.St.peek(base + i).(sym.Sc) }}
	var out [][][2]int
	pos := 0
	prevEnd := -1
	for pos <= n {
		if limit >= 0 && len(out) >= limit {
			break
		}
		m.caps = make([]int, 2*(ncap+1))
		for i := range m.caps {
			m.caps[i] = -1
		}
		end := -1
		found := m.match(re, pos, func(q int) bool { end = q; return true })
		if found && !(end == pos && pos == prevEnd) {
			mm := make([][2]int, ncap+1)
			mm[0] = [2]int{pos, end}
			for c := 1; c <= ncap; c++ {
				mm[c] = [2]int{m.caps[2*c], m.caps[2*c+1]}
			}
			out = append(out, mm)
			prevEnd = end
			if end > pos {
				pos = end
			} else {
				pos++
			}
			continue
		}
		pos++
	}
	return out
}

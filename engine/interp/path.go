package interp

import (
	"fmt"
	"sort"
	"strings"

	"gosym/sym"
)

// Dec is one recorded decision of a path: the outcome of a symbolic branch
// (Kind 'b', Val 0/1) or the value picked when a term had to be made concrete
// (Kind 'c'). Forced decisions had only one feasible outcome.
type Dec struct {
	Kind   byte
	Val    uint64
	Forced bool
}

// NondetVar is one symbolic input drawn by the harness, in draw order.
type NondetVar struct {
	Name string `json:"name"`
	Kind string `json:"kind"` // byte,u16,u32,u64,int,bool,choose
	W    int    `json:"w"`
	Tag  string `json:"tag,omitempty"`
}

// Vector is a concrete input assignment for native replay.
type Vector struct {
	Entry  string            `json:"entry"`
	Pkg    string            `json:"pkg"`
	Params map[string]int    `json:"params"`
	Label  string            `json:"label"`
	Kind   string            `json:"kind"` // assert | panic | reach | budget
	Values []uint64          `json:"values"`
	Kinds  []string          `json:"kinds"`
	Detail string            `json:"detail,omitempty"`
	Extra  map[string]string `json:"extra,omitempty"`
	Known  []string          `json:"known,omitempty"`
}

// AssertRec is the outcome of one assertion instance on one path.
type AssertRec struct {
	Label  string
	Status string // discharged | violated | unknown | known
	KF     string
	Vec    *Vector
}

// PathResult is what one explored path reports.
type PathResult struct {
	Outcome   string // ok | pruned | panic | unsupported | budget | conccap | unknown | infeasible
	Detail    string
	Steps     int
	Decisions int
	Forks     [][]Dec
	Asserts   []AssertRec
	Reached   map[string]*Vector
	PanicVec  *Vector
	Observed  []string
	UnknownBr int
	Funcs     map[string]bool
	Allocs    []string
	Truncs    []string
	Events    []Event
}

// abort ends the current path (not a Go panic of the target program).
type abort struct {
	kind   string
	detail string
}

func (e *Exec) abort(kind, format string, args ...interface{}) {
	panic(abort{kind, fmt.Sprintf(format, args...)})
}

func (e *Exec) unsupported(format string, args ...interface{}) {
	e.abort("unsupported", format, args...)
}

// solverAlive ends the path when the solver process had to be killed: the
// path's scope is gone with it, nothing further can be decided.
func (e *Exec) solverAlive() {
	if e.S.Dead {
		e.abort("unknown", "solver exceeded its hard timeout and was killed at %s", e.where())
	}
}

func (e *Exec) replaying() bool { return e.pos < len(e.prefix) }

// forkBudget bounds the alternatives one path may schedule and the length of
// its decision trace: a loop whose trip count is a symbolic 16-bit value forks
// at every iteration and each alternative copies the whole trace (quadratic
// memory). Beyond the bound the path ends as "truncated" — an inconclusive
// outcome, never an out-of-memory kill.
func (e *Exec) forkBudget() {
	if len(e.res.Forks) > 3000 || len(e.trace) > 200000 {
		e.abort("truncated", "more than 3000 alternatives scheduled by one path (or a trace of more than 200000 decisions) at %s", e.where())
	}
}

// ---- path condition ----

func (e *Exec) commit(c sym.Sc, val bool, emit bool) {
	if c.K {
		return
	}
	t := c
	if !val {
		t = sym.Not(c)
	}
	if emit {
		e.S.Emit("(assert " + t.Term() + ")")
	}
	e.noteLit(t)
}

func (e *Exec) noteLit(t sym.Sc) {
	if t.K {
		return
	}
	e.lits[t.T] = true
	if strings.HasPrefix(t.T, "(not ") {
		e.lits[t.T[5:len(t.T)-1]] = false
	} else {
		e.lits["(not "+t.T+")"] = false
	}
	// conjunctions: note the conjuncts as well
	if strings.HasPrefix(t.T, "(and ") {
		// cheap split only for two named/atomic operands is not attempted
	}
}

// Branch decides a symbolic condition, forking the exploration when both
// outcomes are feasible under the path condition.
func (e *Exec) Branch(c sym.Sc) bool {
	if c.W != 0 {
		panic("Branch on non-bool")
	}
	if c.K {
		return c.V != 0
	}
	if v, ok := e.lits[c.T]; ok {
		return v
	}
	e.res.Decisions++
	if e.pos < len(e.prefix) {
		d := e.prefix[e.pos]
		e.pos++
		if d.Kind != 'b' {
			e.abort("internal", "decision kind mismatch at %d: want b got %c", e.pos-1, d.Kind)
		}
		e.commit(c, d.Val != 0, !d.Forced)
		e.trace = append(e.trace, d)
		return d.Val != 0
	}
	rt := e.S.Check(c.Term())
	rf := sym.Sat
	if rt != sym.Unsat {
		rf = e.S.Check(sym.Not(c).Term())
	}
	e.solverAlive()
	if rt == sym.Unknown || rf == sym.Unknown {
		e.res.UnknownBr++
	}
	tOK, fOK := rt != sym.Unsat, rf != sym.Unsat
	switch {
	case tOK && fOK:
		e.forkBudget()
		alt := append(append([]Dec{}, e.trace...), Dec{Kind: 'b', Val: 0})
		e.res.Forks = append(e.res.Forks, alt)
		e.trace = append(e.trace, Dec{Kind: 'b', Val: 1})
		e.commit(c, true, true)
		return true
	case tOK:
		e.trace = append(e.trace, Dec{Kind: 'b', Val: 1, Forced: true})
		e.commit(c, true, false)
		return true
	case fOK:
		e.trace = append(e.trace, Dec{Kind: 'b', Val: 0, Forced: true})
		e.commit(c, false, false)
		return false
	}
	e.abort("infeasible", "path condition became unsatisfiable")
	return false
}

// Feasible asks whether c can hold under the path condition, without committing.
func (e *Exec) Feasible(c sym.Sc) sym.Result {
	if c.K {
		if c.V != 0 {
			return sym.Sat
		}
		return sym.Unsat
	}
	if v, ok := e.lits[c.T]; ok {
		if v {
			return sym.Sat
		}
		return sym.Unsat
	}
	return e.S.Check(c.Term())
}

// Assume restricts the path; an infeasible assumption ends it silently.
func (e *Exec) Assume(c sym.Sc) {
	if c.K {
		if c.V == 0 {
			e.abort("pruned", "assumption false")
		}
		return
	}
	if v, ok := e.lits[c.T]; ok {
		if !v {
			e.abort("pruned", "assumption contradicts path")
		}
		return
	}
	e.res.Decisions++
	if e.pos < len(e.prefix) {
		d := e.prefix[e.pos]
		e.pos++
		if d.Kind != 'a' {
			e.abort("internal", "decision kind mismatch at %d: want a got %c", e.pos-1, d.Kind)
		}
		e.trace = append(e.trace, d)
		e.commit(c, true, true)
		return
	}
	r := e.S.Check(c.Term())
	e.solverAlive()
	if r == sym.Unsat {
		e.abort("pruned", "assumption infeasible")
	}
	if r == sym.Unknown {
		e.res.UnknownBr++
	}
	e.trace = append(e.trace, Dec{Kind: 'a', Val: 1})
	e.commit(c, true, true)
}

// Conc makes a word concrete, forking over its feasible values.
func (e *Exec) Conc(v sym.Sc) uint64 {
	if v.K {
		return v.V
	}
	if x, ok := e.conc[v.T]; ok {
		return x
	}
	e.res.Decisions++
	if e.pos < len(e.prefix) {
		d := e.prefix[e.pos]
		e.pos++
		if d.Kind != 'c' {
			e.abort("internal", "decision kind mismatch at %d: want c got %c", e.pos-1, d.Kind)
		}
		e.trace = append(e.trace, d)
		eq := sym.Eq(v, sym.Const(v.W, d.Val))
		e.commit(eq, true, !d.Forced)
		e.conc[v.T] = d.Val
		return d.Val
	}
	name := e.fresh("c")
	e.S.Emit(fmt.Sprintf("(define-fun %s () (_ BitVec %d) %s)", name, v.W, v.T))
	var vals []uint64
	e.S.Push()
	capN := e.M.Cfg.ConcCap
	for {
		r, m := e.S.CheckModel("", []string{name})
		if r == sym.Unsat {
			break
		}
		if r == sym.Unknown {
			e.S.Pop()
			e.abort("unknown", "solver unknown while enumerating values of %s", v.T)
		}
		x, ok := m[name]
		if !ok {
			e.S.Pop()
			e.abort("unknown", "no model value for %s", name)
		}
		if len(vals) >= capN {
			// more feasible values than the cap: the path goes on with the values
			// found so far (a stated under-approximation: the run is reported as
			// inconclusive for the rest, but what lies behind this point — e.g. a
			// crash — is still explored and, if found, replayed)
			e.res.Truncs = append(e.res.Truncs, fmt.Sprintf("conccap: more than %d feasible values for %s at %s (first %d explored)", capN, clip(v.T), e.where(), capN))
			// make the sample cover the edges of the type (and, for bytes, of the
			// ASCII / UTF-8 classes): feasible edge values replace ordinary ones
			have := map[uint64]bool{}
			for _, x := range vals {
				have[x] = true
			}
			var mask uint64 = ^uint64(0)
			if v.W < 64 {
				mask = (uint64(1) << uint(v.W)) - 1
			}
			top := uint64(1) << uint(v.W-1)
			seeds := []uint64{0, 1, top - 1, top, mask, mask - 1, 0x7f, 0x80, 0xbf, 0xc0, 0xc2, 0xe0, 0xf0, 0xf4, 0xf5, 0xff}
			k := 0
			for _, sd := range seeds {
				sd &= mask
				if have[sd] || k >= len(vals) {
					continue
				}
				e.S.Push()
				e.S.Emit(fmt.Sprintf("(assert (= %s %s))", name, sym.Const(v.W, sd).Term()))
				r, _ := e.S.CheckModel("", nil)
				e.S.Pop()
				if r == sym.Sat {
					// overwrite from the end (keeps the first values, which replay prefixes may rely on being present)
					vals[len(vals)-1-k] = sd
					have[sd] = true
					k++
				}
			}
			break
		}
		vals = append(vals, x)
		e.S.Emit(fmt.Sprintf("(assert (not (= %s %s)))", name, sym.Const(v.W, x).Term()))
	}
	e.S.Pop()
	if len(vals) == 0 {
		e.abort("infeasible", "no feasible value")
	}
	sort.Slice(vals, func(i, j int) bool { return vals[i] < vals[j] })
	for _, x := range vals[1:] {
		alt := append(append([]Dec{}, e.trace...), Dec{Kind: 'c', Val: x})
		e.res.Forks = append(e.res.Forks, alt)
	}
	d := Dec{Kind: 'c', Val: vals[0], Forced: len(vals) == 1}
	e.trace = append(e.trace, d)
	e.commit(sym.Eq(v, sym.Const(v.W, d.Val)), true, !d.Forced)
	e.conc[v.T] = d.Val
	return d.Val
}

func clip(s string) string {
	if len(s) > 160 {
		return s[:160] + "…"
	}
	return s
}

// ConcInt concretises a 64-bit word and returns it as a Go int.
func (e *Exec) ConcInt(v sym.Sc) int {
	return int(int64(e.Conc(v)))
}

func (e *Exec) fresh(prefix string) string {
	e.nameSeq++
	return fmt.Sprintf("%s!%d", prefix, e.nameSeq)
}

// norm names long terms so that term text does not blow up.
func (e *Exec) norm(v sym.Sc) sym.Sc {
	if v.K || len(v.T) <= 96 {
		return v
	}
	name := e.fresh("t")
	sort := "Bool"
	if v.W != 0 {
		sort = fmt.Sprintf("(_ BitVec %d)", v.W)
	}
	e.S.Emit(fmt.Sprintf("(define-fun %s () %s %s)", name, sort, v.T))
	return sym.Sc{W: v.W, T: name}
}

// Nondet declares a fresh symbolic input.
func (e *Exec) Nondet(kind string, w int, tag string) sym.Sc {
	name := fmt.Sprintf("in%d_%s", len(e.nondets), kind)
	sort := "Bool"
	if w != 0 {
		sort = fmt.Sprintf("(_ BitVec %d)", w)
	}
	e.S.Emit(fmt.Sprintf("(declare-const %s %s)", name, sort))
	e.nondets = append(e.nondets, NondetVar{Name: name, Kind: kind, W: w, Tag: tag})
	return sym.Var(w, name)
}

// Internal declares a fresh symbolic value that is not a harness input
// (results of abstracted library calls).
func (e *Exec) Internal(w int, tag string) sym.Sc {
	name := e.fresh("x_" + tag)
	sort := "Bool"
	if w != 0 {
		sort = fmt.Sprintf("(_ BitVec %d)", w)
	}
	e.S.Emit(fmt.Sprintf("(declare-const %s %s)", name, sort))
	return sym.Var(w, name)
}

// vector reads the current model (under an extra constraint) back as inputs.
func (e *Exec) vector(extra string, kind, label string) (sym.Result, *Vector) {
	names := make([]string, len(e.nondets))
	for i, n := range e.nondets {
		names[i] = n.Name
	}
	if len(names) == 0 {
		r := e.S.Check(extra)
		if r != sym.Sat {
			return r, nil
		}
		return r, e.mkVector(nil, kind, label)
	}
	r, m := e.S.CheckModel(extra, names)
	if r != sym.Sat {
		return r, nil
	}
	return r, e.mkVector(m, kind, label)
}

func (e *Exec) mkVector(m map[string]uint64, kind, label string) *Vector {
	v := &Vector{Entry: e.entryName, Pkg: e.entryPkg, Params: e.M.Params, Label: label, Kind: kind}
	for k, open := range e.M.Known {
		if open {
			v.Known = append(v.Known, k)
		}
	}
	for _, n := range e.nondets {
		v.Values = append(v.Values, m[n.Name])
		v.Kinds = append(v.Kinds, n.Kind)
	}
	return v
}

// Assert checks a property obligation under the path condition.
// kf/carve implement the known-finding carve-out: when kf names an open known
// finding, a violation inside carve is reported as known; outside it, as a
// violation.
func (e *Exec) Assert(label string, c sym.Sc, kf string, carve sym.Sc) {
	if only := e.M.Cfg.OnlyLabels; len(only) > 0 {
		hit := false
		for _, s := range only {
			if strings.Contains(label, s) {
				hit = true
			}
		}
		if !hit {
			return
		}
	}
	if e.replaying() {
		// already checked by the ancestor path that scheduled this fork
		// (same path condition at this point); continue under c as it did.
		if kf != "" && e.M.Known[kf] {
			e.noteLit(sym.Or(carve, c))
		}
		e.commit(c, true, true)
		return
	}
	open := kf != "" && e.M.Known[kf]
	if !open {
		e.assert1(label, c, "")
		return
	}
	// inside the carve-out
	in := sym.Or(sym.Not(carve), c) // carve => c
	r, vec := e.checkNeg(in, label)
	switch r {
	case sym.Sat:
		e.res.Asserts = append(e.res.Asserts, AssertRec{Label: label, Status: "known", KF: kf, Vec: vec})
	case sym.Unknown:
		e.res.Asserts = append(e.res.Asserts, AssertRec{Label: label, Status: "unknown", KF: kf})
	}
	// outside the carve-out
	out := sym.Or(carve, c)
	e.assert1(label, out, "")
	// continue on the part of the path where the property holds
	e.assumeAfter(c)
}

func (e *Exec) checkNeg(c sym.Sc, label string) (r sym.Result, v *Vector) {
	defer func() {
		if e.S.Dead {
			r = sym.Unknown
		}
	}()
	return e.checkNeg1(c, label)
}

func (e *Exec) checkNeg1(c sym.Sc, label string) (sym.Result, *Vector) {
	if c.K {
		if c.V != 0 {
			return sym.Unsat, nil
		}
		return e.vector("", "assert", label)
	}
	if v, ok := e.lits[c.T]; ok && v {
		return sym.Unsat, nil
	}
	return e.vector(sym.Not(c).Term(), "assert", label)
}

func (e *Exec) assert1(label string, c sym.Sc, kf string) {
	r, vec := e.checkNeg(c, label)
	if e.M.Cfg.DiffSolvers && !c.K {
		e.diffQuery(sym.Not(c).Term(), r, label)
	}
	switch r {
	case sym.Unsat:
		e.res.Asserts = append(e.res.Asserts, AssertRec{Label: label, Status: "discharged"})
		e.noteLit(c) // implied by the path condition; keeps replays in step
	case sym.Sat:
		e.res.Asserts = append(e.res.Asserts, AssertRec{Label: label, Status: "violated", Vec: vec})
		e.assumeAfter(c)
	default:
		e.res.Asserts = append(e.res.Asserts, AssertRec{Label: label, Status: "unknown"})
		e.commit(c, true, true)
	}
}

// assumeAfter continues the path under c after a violation was recorded;
// if c cannot hold at all the path ends.
func (e *Exec) assumeAfter(c sym.Sc) {
	if c.K {
		if c.V == 0 {
			e.abort("stopped", "assertion false on the whole path")
		}
		return
	}
	if v, ok := e.lits[c.T]; ok && v {
		return
	}
	r := e.S.Check(c.Term())
	if r == sym.Unsat {
		e.abort("stopped", "assertion false on the whole path")
	}
	e.commit(c, true, true)
}

// Reach records a reachability witness (with a model to replay).
func (e *Exec) Reach(tag string) {
	if e.replaying() {
		return
	}
	if _, ok := e.res.Reached[tag]; ok {
		return
	}
	var vec *Vector
	if e.M.wantWitnessVec(tag) {
		_, vec = e.vector("", "reach", tag)
	}
	if vec == nil {
		vec = &Vector{Entry: e.entryName, Label: tag, Kind: "reach"}
	}
	e.res.Reached[tag] = vec
}

func (e *Exec) diffQuery(extra string, got sym.Result, label string) {
	if !e.M.wantDiff() {
		return
	}
	script := e.S.Standalone(extra)
	e.M.recordDiff(script, got, label)
}

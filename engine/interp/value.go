// Package interp is a symbolic interpreter for go/ssa. Its structure follows
// golang.org/x/tools/go/ssa/interp (the concrete interpreter), with scalars
// generalised to SMT terms (sym.Sc), runtime panics turned into explicit
// solver-decided branches, and slices/strings represented as views over
// sparse stores so that length fields may stay symbolic.
package interp

import (
	"fmt"
	"go/types"

	"gosym/sym"

	"golang.org/x/tools/go/ssa"
)

// Value is any interpreter value:
//
//	sym.Sc            bool and all integer kinds (incl. uintptr)
//	float64           floating constants (never symbolic)
//	*Value            pointers (nil pointer is (*Value)(nil))
//	Struct            struct values
//	Array             fixed-size array values
//	Slice             slices and strings
//	Iface             interface values
//	*Map              maps
//	*Chan             channels
//	*ssa.Function, *Closure, *ssa.Builtin, *Native   function values
//	Tuple             multiple results
//	RType             reflect type token
type Value interface{}

type Struct []Value

type Array struct{ St *Store }

// Slice is a view over a store; used for both []T and string.
type Slice struct {
	St  *Store // nil: the nil slice / the empty string
	Off sym.Sc // 64-bit element offset into St; zero value means 0; may be symbolic (made concrete on element access)
	Len sym.Sc // 64-bit
	Cap sym.Sc // 64-bit (== Len for strings)
}

// Store is a backing array. Cells are materialised on demand.
type Store struct {
	cells map[int]*Value
	lit   string     // immutable literal base, cells default to lit[i]
	elem  types.Type // element type (for zero values)
	N     sym.Sc     // number of elements (may be symbolic)
	ID    int
	Tag   string // origin tag (who allocated it)
}

type Iface struct {
	T types.Type
	V Value
}

type mapEntry struct {
	k Value
	v *Value
}

type Map struct {
	entries []*mapEntry
	keyT    types.Type
	elemT   types.Type
	ID      int
}

type Chan struct {
	closed bool
	ID     int
	cap    int
	buf    []Value
}

type Closure struct {
	Fn  *ssa.Function
	Env []Value
}

type Tuple []Value

// Native is an engine-implemented function value (e.g. a context cancel func).
type Native struct {
	Name string
	Fn   func(e *Exec, args []Value) Value
}

type RType struct{ T types.Type }

var i64zero = sym.Const(64, 0)

func i64(n int) sym.Sc { return sym.Const(64, uint64(int64(n))) }

func (st *Store) cell(i int) *Value {
	if c, ok := st.cells[i]; ok {
		return c
	}
	c := new(Value)
	if i < len(st.lit) {
		*c = sym.Const(8, uint64(st.lit[i]))
	} else {
		*c = zero(st.elem)
	}
	if st.cells == nil {
		st.cells = map[int]*Value{}
	}
	st.cells[i] = c
	return c
}

// peek reads cell i without materialising it.
func (st *Store) peek(i int) Value {
	if c, ok := st.cells[i]; ok {
		return *c
	}
	if i < len(st.lit) {
		return sym.Const(8, uint64(st.lit[i]))
	}
	return zero(st.elem)
}

func under(t types.Type) types.Type { return t.Underlying() }

func deref(t types.Type) types.Type {
	if p, ok := under(t).(*types.Pointer); ok {
		return p.Elem()
	}
	panic(fmt.Sprintf("deref of non-pointer %v", t))
}

// width returns the bit width of a basic integer/bool type (0 for bool),
// and whether it is signed.
func width(t types.Type) (w int, signed bool, ok bool) {
	b, isb := under(t).(*types.Basic)
	if !isb {
		if _, isp := under(t).(*types.Pointer); isp {
			return 64, false, false
		}
		return 0, false, false
	}
	switch b.Kind() {
	case types.Bool, types.UntypedBool:
		return 0, false, true
	case types.Int8:
		return 8, true, true
	case types.Uint8:
		return 8, false, true
	case types.Int16:
		return 16, true, true
	case types.Uint16:
		return 16, false, true
	case types.Int32, types.UntypedRune:
		return 32, true, true
	case types.Uint32:
		return 32, false, true
	case types.Int, types.Int64, types.UntypedInt:
		return 64, true, true
	case types.Uint, types.Uint64, types.Uintptr:
		return 64, false, true
	}
	return 0, false, false
}

func isString(t types.Type) bool {
	b, ok := under(t).(*types.Basic)
	return ok && b.Info()&types.IsString != 0
}

func isFloat(t types.Type) bool {
	b, ok := under(t).(*types.Basic)
	return ok && b.Info()&types.IsFloat != 0
}

// zero returns the zero value of t.
func zero(t types.Type) Value {
	switch t := under(t).(type) {
	case *types.Basic:
		if t.Kind() == types.UntypedNil {
			return Iface{}
		}
		if t.Info()&types.IsString != 0 {
			return Slice{Len: i64zero, Cap: i64zero}
		}
		if t.Info()&types.IsFloat != 0 {
			return float64(0)
		}
		if t.Kind() == types.UnsafePointer {
			return (*Value)(nil)
		}
		if w, _, ok := width(t); ok {
			if w == 0 {
				return sym.Bool(false)
			}
			return sym.Const(w, 0)
		}
		panic(fmt.Sprintf("zero: unsupported basic %v", t))
	case *types.Pointer:
		return (*Value)(nil)
	case *types.Struct:
		s := make(Struct, t.NumFields())
		for i := range s {
			s[i] = zero(t.Field(i).Type())
		}
		return s
	case *types.Array:
		return Array{St: &Store{elem: t.Elem(), N: i64(int(t.Len()))}}
	case *types.Slice:
		return Slice{Len: i64zero, Cap: i64zero}
	case *types.Map:
		return (*Map)(nil)
	case *types.Interface:
		return Iface{}
	case *types.Signature:
		return (*ssa.Function)(nil)
	case *types.Chan:
		return (*Chan)(nil)
	case *types.Tuple:
		if t.Len() == 1 {
			return zero(t.At(0).Type())
		}
		tu := make(Tuple, t.Len())
		for i := range tu {
			tu[i] = zero(t.At(i).Type())
		}
		return tu
	case *types.TypeParam:
		panic("zero of type parameter")
	}
	panic(fmt.Sprintf("zero: unsupported type %v", t))
}

// copyVal copies aggregates (value semantics of structs and arrays).
func copyVal(v Value) Value {
	switch v := v.(type) {
	case Struct:
		c := make(Struct, len(v))
		for i, f := range v {
			c[i] = copyVal(f)
		}
		return c
	case Array:
		n := &Store{elem: v.St.elem, N: v.St.N, lit: v.St.lit}
		if len(v.St.cells) > 0 {
			n.cells = make(map[int]*Value, len(v.St.cells))
			for i, c := range v.St.cells {
				nc := new(Value)
				*nc = copyVal(*c)
				n.cells[i] = nc
			}
		}
		return Array{St: n}
	case Tuple:
		c := make(Tuple, len(v))
		for i, f := range v {
			c[i] = copyVal(f)
		}
		return c
	}
	return v
}

// litString builds a string value over an immutable literal.
func litString(s string) Slice {
	if len(s) == 0 {
		return Slice{Len: i64zero, Cap: i64zero}
	}
	n := i64(len(s))
	return Slice{St: &Store{lit: s, elem: types.Typ[types.Uint8], N: n}, Len: n, Cap: n}
}

func isNilFunc(v Value) bool {
	switch f := v.(type) {
	case *ssa.Function:
		return f == nil
	case *Closure:
		return f == nil
	case *ssa.Builtin:
		return f == nil
	case *Native:
		return f == nil
	case nil:
		return true
	}
	return false
}

package interp

import (
	"runtime"
	"fmt"
	"go/types"
	"os"
	"runtime/debug"
	"sort"
	"strings"
	"sync"
	"time"

	"gosym/sym"

	"golang.org/x/tools/go/packages"
	"golang.org/x/tools/go/ssa"
	"golang.org/x/tools/go/ssa/ssautil"
)

// Config bounds one exploration.
type Config struct {
	MaxSteps    int
	ConcCap     int
	Solver      string
	TimeoutMs   int
	Workers     int
	MaxPaths    int
	DiffSolvers bool
	Deadline    time.Time
	WitnessVecs bool
	// OnlyLabels, when set, makes every assertion whose label contains none of
	// these substrings a no-op (neither checked nor assumed): the harness lends
	// only part of its oracle to the property being checked, and a violation of
	// the rest must not cut the path short before the relevant assertions.
	OnlyLabels []string
	MaxHeap    uint64 // bytes of Go heap after which the exploration is truncated (default 12 GiB)
}

// Machine is the immutable, shared part: the SSA program built from the
// current working tree plus the overlay harnesses.
type Machine struct {
	Prog     *ssa.Program
	Pkgs     map[string]*ssa.Package // by import path
	Module   string
	Params   map[string]int
	Known    map[string]bool
	Cfg      Config
	LoadTime time.Duration

	runtimeErrT types.Type

	mu        sync.Mutex
	initRefs  map[*ssa.Package]map[*ssa.Global]bool
	funcs     map[string]FuncInfo
	allocs    map[string]bool
	diffs     []DiffRec
	diffSeen  int
	diffTick  int
	diffRnd   uint64
	witnessed map[string]bool
	intrCache sync.Map
}

type FuncInfo struct {
	Name string `json:"name"`
	File string `json:"file"`
	Line int    `json:"line"`
}

type DiffRec struct {
	Script string
	Got    sym.Result
	Label  string
}

// Load type-checks the repository from its current working tree with the
// overlay files injected, and builds SSA for the whole program.
func Load(repo string, overlay map[string][]byte, patterns []string) (*Machine, error) {
	t0 := time.Now()
	cfg := &packages.Config{
		Mode: packages.NeedName | packages.NeedFiles | packages.NeedCompiledGoFiles | packages.NeedImports |
			packages.NeedDeps | packages.NeedTypes | packages.NeedSyntax | packages.NeedTypesInfo |
			packages.NeedTypesSizes | packages.NeedModule,
		Dir:     repo,
		Overlay: overlay,
		Env: append(os.Environ(), "GOFLAGS=-mod=mod", "GOPROXY=off", "GOSUMDB=off", "GOTOOLCHAIN=local",
			"CGO_ENABLED=0"),
	}
	initial, err := packages.Load(cfg, patterns...)
	if err != nil {
		return nil, err
	}
	var errs []string
	packages.Visit(initial, nil, func(p *packages.Package) {
		for _, e := range p.Errors {
			errs = append(errs, e.Error())
		}
	})
	if len(errs) > 0 {
		if len(errs) > 12 {
			errs = errs[:12]
		}
		return nil, &LoadError{Msgs: errs}
	}
	prog, _ := ssautil.AllPackages(initial, ssa.InstantiateGenerics)
	prog.Build()
	m := &Machine{
		Prog:      prog,
		Pkgs:      map[string]*ssa.Package{},
		Params:    map[string]int{},
		Known:     map[string]bool{},
		initRefs:  map[*ssa.Package]map[*ssa.Global]bool{},
		funcs:     map[string]FuncInfo{},
		allocs:    map[string]bool{},
		witnessed: map[string]bool{},
	}
	for _, p := range prog.AllPackages() {
		m.Pkgs[p.Pkg.Path()] = p
	}
	if len(initial) > 0 && initial[0].Module != nil {
		m.Module = initial[0].Module.Path
	}
	rt := m.Pkgs["runtime"]
	if rt == nil {
		return nil, fmt.Errorf("runtime package not loaded")
	}
	m.runtimeErrT = rt.Type("errorString").Object().Type()
	m.LoadTime = time.Since(t0)
	return m, nil
}

// LoadError: the tree (or a harness against it) does not type-check.
type LoadError struct{ Msgs []string }

func (l *LoadError) Error() string { return "load: " + strings.Join(l.Msgs, "; ") }

func (m *Machine) runsInit(p *ssa.Package) bool {
	path := p.Pkg.Path()
	if path == m.Module || strings.HasPrefix(path, m.Module+"/") {
		return true
	}
	switch path {
	case "io", "unicode/utf8":
		return true
	}
	return false
}

// initTouches reports whether g is referenced by its package initialiser.
func (rr *RunResult) noteAlternative(label string, v *Vector) {
	if rr.AltViolations == nil {
		rr.AltViolations = map[string][]*Vector{}
		rr.altSeen = map[string]map[[2]uint64]bool{}
	}
	seen := rr.altSeen[label]
	if seen == nil {
		seen = map[[2]uint64]bool{}
		rr.altSeen[label] = seen
		if first := rr.Violations[label]; first != nil {
			for i, k := range first.Kinds {
				if k == "choose" || k == "bool" {
					seen[[2]uint64{uint64(i), first.Values[i]}] = true
				}
			}
		}
	}
	limit := 12
	if strings.HasPrefix(label, "no-unsynchronised-shared-access") {
		limit = 64
	}
	if len(rr.AltViolations[label]) >= limit {
		return
	}
	fresh := false
	for i, k := range v.Kinds {
		if (k == "choose" || k == "bool") && !seen[[2]uint64{uint64(i), v.Values[i]}] {
			fresh = true
		}
	}
	if !fresh {
		return
	}
	for i, k := range v.Kinds {
		if k == "choose" || k == "bool" {
			seen[[2]uint64{uint64(i), v.Values[i]}] = true
		}
	}
	rr.AltViolations[label] = append(rr.AltViolations[label], v)
}

func (m *Machine) initTouches(g *ssa.Global) bool {
	m.mu.Lock()
	defer m.mu.Unlock()
	refs, ok := m.initRefs[g.Pkg]
	if !ok {
		refs = map[*ssa.Global]bool{}
		var scan func(fn *ssa.Function)
		scan = func(fn *ssa.Function) {
			for _, b := range fn.Blocks {
				for _, in := range b.Instrs {
					for _, op := range in.Operands(nil) {
						if gg, ok := (*op).(*ssa.Global); ok {
							refs[gg] = true
						}
					}
				}
			}
			for _, an := range fn.AnonFuncs {
				scan(an)
			}
		}
		for name, mem := range g.Pkg.Members {
			if fn, ok := mem.(*ssa.Function); ok && (name == "init" || strings.HasPrefix(name, "init#")) {
				scan(fn)
			}
		}
		m.initRefs[g.Pkg] = refs
	}
	return refs[g]
}

func (m *Machine) lookupMethod(t types.Type, meth *types.Func) *ssa.Function {
	return m.Prog.LookupMethod(t, meth.Pkg(), meth.Name())
}

func (m *Machine) noteFunc(e *Exec, fn *ssa.Function) {
	if e.res.Funcs == nil {
		e.res.Funcs = map[string]bool{}
	}
	e.res.Funcs[fn.String()] = true
}

func (m *Machine) noteAlloc(e *Exec, instr *ssa.MakeSlice, elem types.Type, c sym.Sc) {
	if h := e.allocHook; h != nil {
		h(instr, elem, c)
	}
}

func (m *Machine) wantWitnessVec(tag string) bool {
	if !m.Cfg.WitnessVecs {
		return false
	}
	m.mu.Lock()
	defer m.mu.Unlock()
	if m.witnessed[tag] {
		return false
	}
	m.witnessed[tag] = true
	return true
}

// wantDiff thins the stream of candidate queries cheaply (1 in 16 once the
// reservoir is full) before the script text is built.
func (m *Machine) wantDiff() bool {
	m.mu.Lock()
	defer m.mu.Unlock()
	if len(m.diffs) < 400 {
		return true
	}
	m.diffTick++
	return m.diffTick%16 == 0
}

// recordDiff keeps a bounded reservoir sample of assertion queries for the
// cross-solver diff (keeping all of them exhausts memory on large runs).
func (m *Machine) recordDiff(script string, got sym.Result, label string) {
	const capN = 400
	m.mu.Lock()
	defer m.mu.Unlock()
	m.diffSeen++
	if len(m.diffs) < capN {
		m.diffs = append(m.diffs, DiffRec{script, got, label})
		return
	}
	m.diffRnd = m.diffRnd*6364136223846793005 + 1442695040888963407
	if j := int((m.diffRnd >> 33) % uint64(m.diffSeen)); j < capN {
		m.diffs[j] = DiffRec{script, got, label}
	}
}

// ---- exploration ----

type LabelStat struct {
	Discharged int `json:"discharged"`
	Violated   int `json:"violated"`
	Unknown    int `json:"unknown"`
	Known      int `json:"known"`
}

type RunResult struct {
	Entry      string
	Pkg        string
	Paths      int
	Outcomes   map[string]int
	Details    map[string]int // outcome detail -> count (for non-ok outcomes)
	Steps      int
	Decisions  int
	UnknownBr  int
	Labels     map[string]*LabelStat
	Violations map[string]*Vector // first vector per label
	// further counterexamples of footprint labels, kept for diversity: a vector is
	// kept when some solver choice (vChoose / nondetBool) takes a value in it that
	// none of the kept vectors of that label has at that position. A footprint
	// candidate is a violation only if the race detector confirms it natively,
	// and which choice of the harness makes the sharing a real race is not known
	// beforehand.
	AltViolations map[string][]*Vector
	altSeen       map[string]map[[2]uint64]bool
	KnownSeen  map[string]*Vector // by KF id
	Reached    map[string]*Vector
	Panics     map[string]*Vector // by message
	Funcs      map[string]bool
	Queries    int
	Sat        int
	Unsat      int
	UnknownQ   int
	Fallbacks  int // unknown answers of the incremental solver settled by the fallback solver
	SolverErr  int
	SolverTime time.Duration
	Wall       time.Duration
	Truncated  bool
	Samples    []*Vector
	Diffs      []DiffRec
	EventPaths [][]Event
	Budget     []*Vector // inputs on which a path exhausted its step budget
}

// Explore runs the harness entry over all feasible paths within the budgets.
func (m *Machine) Explore(pkgPath, entry string) (*RunResult, error) {
	pkg := m.Pkgs[pkgPath]
	if pkg == nil {
		return nil, fmt.Errorf("package %s not loaded", pkgPath)
	}
	fn := pkg.Func(entry)
	if fn == nil {
		return nil, fmt.Errorf("harness %s not found in %s", entry, pkgPath)
	}
	t0 := time.Now()
	rr := &RunResult{
		Entry: entry, Pkg: pkgPath,
		Outcomes: map[string]int{}, Details: map[string]int{}, Labels: map[string]*LabelStat{},
		Violations: map[string]*Vector{}, KnownSeen: map[string]*Vector{}, Reached: map[string]*Vector{},
		Panics: map[string]*Vector{}, Funcs: map[string]bool{},
	}
	m.mu.Lock()
	m.witnessed = map[string]bool{}
	m.diffs = nil
	m.diffSeen = 0
	m.diffRnd = 1
	m.mu.Unlock()

	var mu sync.Mutex
	cond := sync.NewCond(&mu)
	queue := [][]Dec{nil}
	inflight := 0
	stop := false

	workers := m.Cfg.Workers
	if workers <= 0 {
		workers = 1
	}
	var wg sync.WaitGroup
	var firstErr error
	for w := 0; w < workers; w++ {
		wg.Add(1)
		go func() {
			defer wg.Done()
			s, err := sym.NewSolver(m.Cfg.Solver, m.Cfg.TimeoutMs)
			if err != nil {
				mu.Lock()
				firstErr = err
				stop = true
				cond.Broadcast()
				mu.Unlock()
				return
			}
			defer func() {
				mu.Lock()
				rr.Queries += s.Queries
				rr.Sat += s.Sat
				rr.Unsat += s.Unsat
				rr.UnknownQ += s.Unknown
				rr.Fallbacks += s.Fallbacks
				rr.SolverErr += s.Errors
				rr.SolverTime += s.Time
				mu.Unlock()
				s.Close()
			}()
			for {
				mu.Lock()
				for len(queue) == 0 && inflight > 0 && !stop {
					cond.Wait()
				}
				if stop || len(queue) == 0 {
					mu.Unlock()
					cond.Broadcast()
					return
				}
				prefix := queue[len(queue)-1]
				queue = queue[:len(queue)-1]
				inflight++
				mu.Unlock()

				if s.Dead {
					if progress {
						fmt.Fprintf(os.Stderr, "SOLVER-RESTART after dead solver\n")
					}
					ns, err := sym.NewSolver(m.Cfg.Solver, m.Cfg.TimeoutMs)
					if err == nil {
						ns.Queries, ns.Sat, ns.Unsat, ns.Unknown, ns.Errors, ns.Time = s.Queries, s.Sat, s.Unsat, s.Unknown, s.Errors, s.Time
						s.Close()
						s = ns
					}
				}
				tp := time.Now()
				q0 := s.Queries
				res := m.runPath(s, fn, prefix)
				if progress && time.Since(tp) > time.Second {
					fmt.Fprintf(os.Stderr, "SLOWPATH %.1fs outcome=%s steps=%d decisions=%d queries=%d prefix=%d detail=%s\n", time.Since(tp).Seconds(), res.Outcome, res.Steps, res.Decisions, s.Queries-q0, len(prefix), clip(res.Detail))
				}

				mu.Lock()
				inflight--
				m.merge(rr, res)
				if progress && rr.Paths%500 == 0 {
					fmt.Fprintf(os.Stderr, "PROGRESS paths=%d queue=%d outcomes=%v last=%s/%d steps\n", rr.Paths, len(queue), rr.Outcomes, res.Outcome, res.Steps)
				}
				queue = append(queue, res.Forks...)
				if m.Cfg.MaxPaths > 0 && rr.Paths >= m.Cfg.MaxPaths && (len(queue) > 0 || inflight > 0) {
					rr.Truncated = true
					stop = true
				}
				if !m.Cfg.Deadline.IsZero() && time.Now().After(m.Cfg.Deadline) && (len(queue) > 0 || inflight > 0) {
					rr.Truncated = true
					stop = true
				}
				// memory guard: a runaway fork (e.g. a client-declared 16-bit count
				// driving a loop on a changed tree) must end as "truncated", never
				// as an out-of-memory kill of the check
				if rr.Paths%100 == 0 || len(res.Forks) > 1000 {
					var ms runtime.MemStats
					runtime.ReadMemStats(&ms)
					lim := m.Cfg.MaxHeap
					if lim == 0 {
						lim = 12 << 30
					}
					if ms.HeapAlloc > lim && (len(queue) > 0 || inflight > 0) {
						rr.Truncated = true
						stop = true
						queue = nil
					}
				}
				cond.Broadcast()
				mu.Unlock()
			}
		}()
	}
	wg.Wait()
	if firstErr != nil {
		return nil, firstErr
	}
	rr.Wall = time.Since(t0)
	m.mu.Lock()
	rr.Diffs = m.diffs
	m.mu.Unlock()
	return rr, nil
}

func (m *Machine) merge(rr *RunResult, res *PathResult) {
	rr.Paths++
	rr.Outcomes[res.Outcome]++
	if res.Outcome != "ok" && res.Outcome != "pruned" && res.Outcome != "stopped" {
		rr.Details[res.Outcome+": "+res.Detail]++
	}
	for _, t := range res.Truncs {
		rr.Details[t]++
	}
	rr.Steps += res.Steps
	rr.Decisions += res.Decisions
	rr.UnknownBr += res.UnknownBr
	for _, a := range res.Asserts {
		ls := rr.Labels[a.Label]
		if ls == nil {
			ls = &LabelStat{}
			rr.Labels[a.Label] = ls
		}
		switch a.Status {
		case "discharged":
			ls.Discharged++
		case "violated":
			ls.Violated++
			if _, ok := rr.Violations[a.Label]; !ok {
				rr.Violations[a.Label] = a.Vec
			} else if a.Vec != nil {
				rr.noteAlternative(a.Label, a.Vec)
			}
		case "known":
			ls.Known++
			if _, ok := rr.KnownSeen[a.KF]; !ok {
				rr.KnownSeen[a.KF] = a.Vec
			}
		default:
			ls.Unknown++
		}
	}
	for tag, v := range res.Reached {
		if old, ok := rr.Reached[tag]; !ok || (len(old.Values) == 0 && len(v.Values) > 0) {
			rr.Reached[tag] = v
		}
	}
	if res.Outcome == "panic" {
		if _, ok := rr.Panics[res.Detail]; !ok {
			rr.Panics[res.Detail] = res.PanicVec
		}
	}
	if res.Outcome == "budget" && res.PanicVec != nil && len(rr.Budget) < 3 {
		rr.Budget = append(rr.Budget, res.PanicVec)
	}
	for f := range res.Funcs {
		rr.Funcs[f] = true
	}
	if res.Events != nil && res.Outcome == "ok" {
		rr.EventPaths = append(rr.EventPaths, res.Events)
	}
}

func (m *Machine) runPath(s *sym.Solver, fn *ssa.Function, prefix []Dec) (res *PathResult) {
	res = &PathResult{Reached: map[string]*Vector{}}
	e := &Exec{
		M: m, S: s,
		globals: map[*ssa.Global]*Value{},
		pkgInit: map[*ssa.Package]bool{},
		prefix:  prefix,
		lits:    map[string]bool{},
		conc:    map[string]uint64{},
		res:     res,
		locks:   map[*Value]int{},
		misc:    map[string]Value{},
	}
	e.entryName = fn.Name()
	e.entryPkg = fn.Pkg.Pkg.Path()
	depth := s.Depth()
	s.Push()
	defer func() {
		for s.Depth() > depth {
			s.Pop()
		}
	}()
	defer func() {
		res.Steps = e.steps
		r := recover()
		if r == nil {
			return
		}
		switch r := r.(type) {
		case abort:
			res.Outcome = r.kind
			res.Detail = r.detail
			if r.kind == "budget" {
				for s.Depth() > depth+1 {
					s.Pop()
				}
				_, res.PanicVec = e.vector("", "budget", r.detail)
			}
		case targetPanic:
			res.Outcome = "panic"
			res.Detail = e.panicText(r.v)
			for s.Depth() > depth+1 {
				s.Pop()
			}
			_, res.PanicVec = e.vector("", "panic", res.Detail)
		default:
			res.Outcome = "internal"
			res.Detail = fmt.Sprintf("%v at %s\n%s", r, e.crashAt, trimStack(string(debug.Stack())))
		}
	}()
	if init := fn.Pkg.Func("init"); init != nil {
		e.callSSA(nil, init, nil, nil)
	}
	// initialisers of the few non-repository packages whose tables are needed
	// and that the repository's own init chain does not reach
	for _, path := range []string{"unicode/utf8"} {
		if p := m.Prog.ImportedPackage(path); p != nil {
			if init := p.Func("init"); init != nil {
				e.callSSA(nil, init, nil, nil)
			}
		}
	}
	e.callSSA(nil, fn, nil, nil)
	if e.pos < len(e.prefix) {
		res.Outcome = "internal"
		res.Detail = fmt.Sprintf("path ended with %d unconsumed decisions (non-deterministic replay)", len(e.prefix)-e.pos)
		return
	}
	res.Outcome = "ok"
	return
}

func trimStack(s string) string {
	lines := strings.Split(s, "\n")
	var keep []string
	for _, l := range lines {
		if strings.Contains(l, "gosym/") {
			keep = append(keep, strings.TrimSpace(l))
		}
		if len(keep) > 12 {
			break
		}
	}
	return strings.Join(keep, "\n")
}

func (e *Exec) panicText(v Value) string {
	itf, ok := v.(Iface)
	if !ok || itf.T == nil {
		return "panic(nil)"
	}
	where := ""
	if e.cur != nil {
		where = " at " + e.where()
	}
	if s, ok := itf.V.(Slice); ok {
		if txt, ok := e.concreteString(s); ok {
			return txt + where
		}
	}
	return fmt.Sprintf("panic(%v)%s", itf.T, where)
}

// concreteString reads a string whose bytes are all constants.
func (e *Exec) concreteString(s Slice) (string, bool) {
	if !s.Len.K {
		return "", false
	}
	n := int(s.Len.V)
	b := make([]byte, n)
	for i := 0; i < n; i++ {
		c, ok := s.St.peek(e.o(s) + i).(sym.Sc)
		if !ok || !c.K {
			return "", false
		}
		b[i] = byte(c.V)
	}
	return string(b), true
}

// SortedKeys is a small helper for deterministic reports.
func SortedKeys[V any](m map[string]V) []string {
	ks := make([]string, 0, len(m))
	for k := range m {
		ks = append(ks, k)
	}
	sort.Strings(ks)
	return ks
}

// FuncInfos resolves executed function names to source positions.
func (m *Machine) FuncInfos(names map[string]bool) []FuncInfo {
	byName := map[string]*ssa.Function{}
	for fn := range ssautil.AllFunctions(m.Prog) {
		if names[fn.String()] {
			byName[fn.String()] = fn
		}
	}
	var out []FuncInfo
	for _, n := range SortedKeys(names) {
		fi := FuncInfo{Name: n}
		if fn := byName[n]; fn != nil && fn.Pos().IsValid() {
			p := m.Prog.Fset.Position(fn.Pos())
			fi.File, fi.Line = p.Filename, p.Line
		}
		out = append(out, fi)
	}
	return out
}

package interp

import (
	"fmt"
	"go/token"
	"go/types"
	"strings"

	"gosym/sym"

	"golang.org/x/tools/go/ssa"
)

func (e *Exec) unop(instr *ssa.UnOp, x Value) Value {
	switch instr.Op {
	case token.MUL: // load
		p := x.(*Value)
		if p == nil {
			e.goPanic("invalid memory address or nil pointer dereference")
		}
		e.noteRead(p)
		return copyVal(*p)
	case token.SUB:
		switch x := x.(type) {
		case sym.Sc:
			return sym.Neg(x)
		case float64:
			return -x
		}
	case token.NOT:
		return sym.Not(x.(sym.Sc))
	case token.XOR:
		return sym.BvNot(x.(sym.Sc))
	case token.ARROW:
		return e.chanRecv(x, instr.CommaOk, instr.X.Type())
	}
	e.unsupported("unop %v on %T", instr.Op, x)
	return nil
}

func (e *Exec) binop(op token.Token, xt, yt types.Type, x, y Value) Value {
	switch op {
	case token.EQL:
		return e.valueEq(xt, x, y)
	case token.NEQ:
		return sym.Not(e.valueEq(xt, x, y))
	}
	switch x := x.(type) {
	case sym.Sc:
		ys := y.(sym.Sc)
		if x.W == 0 {
			e.unsupported("bool binop %v", op)
		}
		_, signed, _ := width(xt)
		switch op {
		case token.ADD:
			return sym.Add(x, ys)
		case token.SUB:
			return sym.Sub(x, ys)
		case token.MUL:
			return sym.Mul(x, ys)
		case token.QUO, token.REM:
			if e.Branch(sym.Eq(ys, sym.Const(ys.W, 0))) {
				e.goPanic("integer divide by zero")
			}
			if signed {
				if op == token.QUO {
					return sym.SDiv(x, ys)
				}
				return sym.SRem(x, ys)
			}
			if op == token.QUO {
				return sym.UDiv(x, ys)
			}
			return sym.URem(x, ys)
		case token.AND:
			return sym.BvAnd(x, ys)
		case token.OR:
			return sym.BvOr(x, ys)
		case token.XOR:
			return sym.BvXor(x, ys)
		case token.AND_NOT:
			return sym.BvAnd(x, sym.BvNot(ys))
		case token.SHL, token.SHR:
			_, ysigned, _ := width(yt)
			if ysigned && !ys.K {
				if e.Branch(sym.Slt(ys, sym.Const(ys.W, 0))) {
					e.goPanic("negative shift amount")
				}
			} else if ysigned && ys.Signed() < 0 {
				e.goPanic("negative shift amount")
			}
			// bring the count to x's width, saturating
			var cnt sym.Sc
			var big sym.Sc = sym.Bool(false)
			if ys.W > x.W {
				big = sym.Ult(sym.Const(ys.W, uint64(x.W-1)), ys)
				cnt = sym.Trunc(ys, x.W)
			} else {
				cnt = sym.ZeroExt(ys, x.W)
			}
			var r sym.Sc
			switch {
			case op == token.SHL:
				r = sym.Ite(big, sym.Const(x.W, 0), sym.Shl(x, cnt))
			case signed:
				r = sym.Ashr(x, sym.Ite(big, sym.Const(x.W, uint64(x.W-1)), cnt))
			default:
				r = sym.Ite(big, sym.Const(x.W, 0), sym.Lshr(x, cnt))
			}
			return r
		case token.LSS:
			if signed {
				return sym.Slt(x, ys)
			}
			return sym.Ult(x, ys)
		case token.LEQ:
			if signed {
				return sym.Sle(x, ys)
			}
			return sym.Ule(x, ys)
		case token.GTR:
			if signed {
				return sym.Slt(ys, x)
			}
			return sym.Ult(ys, x)
		case token.GEQ:
			if signed {
				return sym.Sle(ys, x)
			}
			return sym.Ule(ys, x)
		}
	case float64:
		yf := y.(float64)
		switch op {
		case token.ADD:
			return x + yf
		case token.SUB:
			return x - yf
		case token.MUL:
			return x * yf
		case token.QUO:
			return x / yf
		case token.LSS:
			return sym.Bool(x < yf)
		case token.LEQ:
			return sym.Bool(x <= yf)
		case token.GTR:
			return sym.Bool(x > yf)
		case token.GEQ:
			return sym.Bool(x >= yf)
		}
	case Slice: // strings
		ys := y.(Slice)
		switch op {
		case token.ADD:
			return e.concat(x, ys)
		case token.LSS, token.LEQ, token.GTR, token.GEQ:
			return e.stringLess(op, x, ys)
		}
	}
	e.unsupported("binop %v on %T", op, x)
	return nil
}

// valueEq is Go's == as a (possibly symbolic) boolean.
func (e *Exec) valueEq(t types.Type, x, y Value) sym.Sc {
	switch x := x.(type) {
	case sym.Sc:
		return sym.Eq(x, y.(sym.Sc))
	case float64:
		return sym.Bool(x == y.(float64))
	case *Value:
		return sym.Bool(x == y.(*Value))
	case *Map:
		return sym.Bool(x == y.(*Map))
	case *Chan:
		return sym.Bool(x == y.(*Chan))
	case RType:
		yr, ok := y.(RType)
		return sym.Bool(ok && types.Identical(x.T, yr.T))
	case Slice:
		ys := y.(Slice)
		if t != nil && !isString(t) {
			// slices compare only against nil
			return sym.Bool(x.St == nil && ys.St == nil)
		}
		return e.stringEq(x, ys)
	case Iface:
		yi := y.(Iface)
		if x.T == nil || yi.T == nil {
			return sym.Bool(x.T == nil && yi.T == nil)
		}
		if !types.Identical(x.T, yi.T) {
			return sym.Bool(false)
		}
		if !types.Comparable(x.T) {
			panic(targetPanic{Iface{T: e.M.runtimeErrT, V: litString("runtime error: comparing uncomparable type")}})
		}
		return e.valueEq(x.T, x.V, yi.V)
	case Struct:
		ys := y.(Struct)
		st, _ := under(t).(*types.Struct)
		r := sym.Bool(true)
		for i := range x {
			var ft types.Type
			if st != nil {
				ft = st.Field(i).Type()
			}
			r = sym.And(r, e.valueEq(ft, x[i], ys[i]))
			if r.IsFalse() {
				return r
			}
		}
		return r
	case Array:
		ya := y.(Array)
		n := e.ConcInt(x.St.N)
		r := sym.Bool(true)
		for i := 0; i < n; i++ {
			r = sym.And(r, e.valueEq(x.St.elem, x.St.peek(i), ya.St.peek(i)))
		}
		return r
	case *ssa.Function, *Closure, *ssa.Builtin, *Native:
		// funcs compare only against nil
		return sym.Bool(isNilFunc(x) && isNilFunc(y))
	case nil:
		return sym.Bool(y == nil || isNilFunc(y))
	}
	e.unsupported("== on %T", x)
	return sym.Sc{}
}

func (e *Exec) stringEq(x, y Slice) sym.Sc {
	if x.Len.K && y.Len.K {
		if x.Len.V != y.Len.V {
			return sym.Bool(false)
		}
		n := int(x.Len.V)
		r := sym.Bool(true)
		for i := 0; i < n; i++ {
			r = sym.And(r, sym.Eq(x.St.peek(e.o(x)+i).(sym.Sc), y.St.peek(e.o(y)+i).(sym.Sc)))
			if r.IsFalse() {
				return r
			}
		}
		return e.norm(r)
	}
	// symbolic length on one side: decide length equality first
	if !e.Branch(sym.Eq(x.Len, y.Len)) {
		return sym.Bool(false)
	}
	n := e.ConcInt(x.Len)
	e.ConcInt(y.Len)
	x.Len, y.Len = i64(n), i64(n)
	return e.stringEq(x, y)
}

func (e *Exec) stringLess(op token.Token, x, y Slice) sym.Sc {
	nx, ny := e.ConcInt(x.Len), e.ConcInt(y.Len)
	// lexicographic comparison as a nested ite from the tail
	var lt, eq sym.Sc
	// base: all common bytes equal
	lt = sym.Bool(nx < ny)
	eq = sym.Bool(nx == ny)
	n := nx
	if ny < n {
		n = ny
	}
	for i := n - 1; i >= 0; i-- {
		a := x.St.peek(e.o(x) + i).(sym.Sc)
		b := y.St.peek(e.o(y) + i).(sym.Sc)
		same := sym.Eq(a, b)
		lt = e.norm(sym.Or(sym.Ult(a, b), sym.And(same, lt)))
		eq = e.norm(sym.And(same, eq))
	}
	switch op {
	case token.LSS:
		return lt
	case token.LEQ:
		return sym.Or(lt, eq)
	case token.GTR:
		return sym.Not(sym.Or(lt, eq))
	default:
		return sym.Not(lt)
	}
}

func (e *Exec) newStore(elem types.Type, n sym.Sc) *Store {
	e.storeSeq++
	return &Store{elem: elem, N: n, ID: e.storeSeq, Tag: e.origin}
}

var byteT = types.Typ[types.Uint8]

func (e *Exec) concat(x, y Slice) Slice {
	nx, ny := e.ConcInt(x.Len), e.ConcInt(y.Len)
	if nx == 0 {
		return y
	}
	if ny == 0 {
		return x
	}
	st := e.newStore(byteT, i64(nx+ny))
	for i := 0; i < nx; i++ {
		*st.cell(i) = x.St.peek(e.o(x) + i)
	}
	for i := 0; i < ny; i++ {
		*st.cell(nx + i) = y.St.peek(e.o(y) + i)
	}
	return Slice{St: st, Len: st.N, Cap: st.N}
}

// copyBytes makes a fresh copy of a byte view (string <-> []byte conversions).
func (e *Exec) copyBytes(x Slice, keepNonNil bool) Slice {
	n := e.ConcInt(x.Len)
	if n == 0 && !keepNonNil {
		return Slice{Len: i64zero, Cap: i64zero}
	}
	st := e.newStore(byteT, i64(n))
	for i := 0; i < n; i++ {
		*st.cell(i) = x.St.peek(e.o(x) + i)
	}
	return Slice{St: st, Len: st.N, Cap: st.N}
}

func (e *Exec) conv(dst, src types.Type, x Value) Value {
	ud, us := under(dst), under(src)
	switch ud := ud.(type) {
	case *types.Basic:
		if ud.Kind() == types.UnsafePointer {
			return x // pointer or uintptr
		}
		if ud.Info()&types.IsString != 0 {
			switch us := us.(type) {
			case *types.Basic:
				if us.Info()&types.IsString != 0 {
					return x
				}
				if us.Info()&types.IsInteger != 0 {
					return e.runeToString(x.(sym.Sc), src)
				}
			case *types.Slice:
				if b, ok := under(us.Elem()).(*types.Basic); ok && b.Kind() == types.Uint8 {
					return e.copyBytes(x.(Slice), false)
				}
			}
			e.unsupported("conversion %v -> string", src)
		}
		if ud.Info()&types.IsFloat != 0 {
			switch x := x.(type) {
			case float64:
				return x
			case sym.Sc:
				if x.K {
					_, signed, _ := width(src)
					if signed {
						return float64(x.Signed())
					}
					return float64(x.V)
				}
			}
			e.unsupported("symbolic int -> float")
		}
		if w, _, ok := width(ud); ok {
			switch x := x.(type) {
			case sym.Sc:
				_, ssigned, _ := width(src)
				if w == 0 {
					return x
				}
				if x.W == w {
					return x
				}
				if x.W > w {
					return sym.Trunc(x, w)
				}
				if ssigned {
					return sym.SignExt(x, w)
				}
				return sym.ZeroExt(x, w)
			case float64:
				return sym.Const(w, uint64(int64(x)))
			case *Value:
				if ud.Kind() == types.Uintptr {
					e.unsupported("pointer -> uintptr")
				}
			}
		}
	case *types.Slice:
		if isString(src) {
			return e.copyBytes(x.(Slice), true)
		}
		return x
	case *types.Pointer:
		return x // unsafe.Pointer -> *T : same cell, reinterpretation is by use
	}
	e.unsupported("conversion %v -> %v", src, dst)
	return nil
}

func (e *Exec) runeToString(r sym.Sc, src types.Type) Value {
	_, signed, _ := width(src)
	var r32 sym.Sc
	if r.W >= 32 {
		r32 = sym.Trunc(r, 32)
	} else if signed {
		r32 = sym.SignExt(r, 32)
	} else {
		r32 = sym.ZeroExt(r, 32)
	}
	if e.Branch(sym.Ult(r32, sym.Const(32, 0x80))) {
		st := e.newStore(byteT, i64(1))
		*st.cell(0) = sym.Trunc(r32, 8)
		return Slice{St: st, Len: st.N, Cap: st.N}
	}
	if e.Branch(sym.Ult(r32, sym.Const(32, 0x800))) {
		st := e.newStore(byteT, i64(2))
		*st.cell(0) = e.norm(sym.BvOr(sym.Const(8, 0xC0), sym.Trunc(sym.Lshr(r32, sym.Const(32, 6)), 8)))
		*st.cell(1) = e.norm(sym.BvOr(sym.Const(8, 0x80), sym.BvAnd(sym.Trunc(r32, 8), sym.Const(8, 0x3F))))
		return Slice{St: st, Len: st.N, Cap: st.N}
	}
	e.unsupported("string(rune) for rune >= 0x800")
	return nil
}

// boundsIndex checks 0 <= idx < n (a run-time panic branch) and returns a
// concrete index.
func (e *Exec) boundsIndex(idx sym.Sc, it types.Type, n sym.Sc) int {
	i64v := e.toInt64(idx, it)
	in := sym.And(sym.Sle(i64zero, i64v), sym.Slt(i64v, n))
	if !e.Branch(in) {
		e.goPanic("index out of range")
	}
	return e.ConcInt(i64v)
}

func (e *Exec) toInt64(v sym.Sc, t types.Type) sym.Sc {
	if v.W == 64 {
		return v
	}
	_, signed, _ := width(t)
	if signed {
		return sym.SignExt(v, 64)
	}
	return sym.ZeroExt(v, 64)
}

func (e *Exec) indexAddr(x Value, idx sym.Sc, it types.Type) *Value {
	switch x := x.(type) {
	case Slice:
		i := e.boundsIndex(idx, it, x.Len)
		return x.St.cell(e.o(x) + i)
	case *Value: // *array
		if x == nil {
			e.goPanic("invalid memory address or nil pointer dereference")
		}
		a := (*x).(Array)
		i := e.boundsIndex(idx, it, a.St.N)
		p := a.St.cell(i)
		e.noteDerived(x, p)
		return p
	}
	e.unsupported("IndexAddr on %T", x)
	return nil
}

func (e *Exec) makeSlice(instr *ssa.MakeSlice, n, c sym.Sc) Value {
	lt, ct := instr.Len.Type(), instr.Cap.Type()
	n64, c64 := e.toInt64(n, lt), e.toInt64(c, ct)
	ok := sym.And(sym.Sle(i64zero, n64), sym.Sle(n64, c64))
	if !e.Branch(ok) {
		e.goPanic("makeslice: len out of range")
	}
	elem := under(instr.Type()).(*types.Slice).Elem()
	e.M.noteAlloc(e, instr, elem, c64)
	st := e.newStore(elem, c64)
	return Slice{St: st, Len: n64, Cap: c64}
}

func (e *Exec) sliceOp(instr *ssa.Slice, x, lo, hi, max Value) Value {
	var base Slice
	isStr := false
	switch x := x.(type) {
	case Slice:
		base = x
		isStr = isString(instr.X.Type())
	case *Value:
		if x == nil {
			e.goPanic("invalid memory address or nil pointer dereference")
		}
		a := (*x).(Array)
		base = Slice{St: a.St, Len: a.St.N, Cap: a.St.N}
	default:
		e.unsupported("slice of %T", x)
	}
	limit := base.Cap
	if isStr {
		limit = base.Len
	}
	l := i64zero
	if lo != nil {
		l = e.toInt64(lo.(sym.Sc), instr.Low.Type())
	}
	h := base.Len
	if hi != nil {
		h = e.toInt64(hi.(sym.Sc), instr.High.Type())
	}
	m := limit
	if max != nil {
		m = e.toInt64(max.(sym.Sc), instr.Max.Type())
	}
	ok := sym.And(sym.And(sym.Sle(i64zero, l), sym.Sle(l, h)), sym.And(sym.Sle(h, m), sym.Sle(m, limit)))
	if !e.Branch(e.norm(ok)) {
		e.goPanic("slice bounds out of range")
	}
	off := l
	if base.Off.W != 0 {
		off = sym.Add(base.Off, l)
	}
	r := Slice{St: base.St, Off: e.norm(off), Len: sym.Sub(h, l), Cap: sym.Sub(m, l)}
	if isStr {
		r.Cap = r.Len
	}
	r.Len, r.Cap = e.norm(r.Len), e.norm(r.Cap)
	if base.St == nil {
		r.Off = i64zero
	}
	return r
}

// ---- maps ----

func (e *Exec) mapFind(m *Map, k Value) *mapEntry {
	e.noteMapAccess(m, false)
	for _, en := range m.entries {
		if e.Branch(e.valueEq(m.keyT, en.k, k)) {
			return en
		}
	}
	return nil
}

func (e *Exec) mapInsert(m *Map, k, v Value) {
	e.noteMapAccess(m, true)
	if en := e.mapFind(m, k); en != nil {
		*en.v = v
		return
	}
	p := new(Value)
	*p = v
	m.entries = append(m.entries, &mapEntry{k: copyVal(k), v: p})
}

func (e *Exec) mapDelete(m *Map, k Value) {
	if m == nil {
		return
	}
	e.noteMapAccess(m, true)
	for i, en := range m.entries {
		if e.Branch(e.valueEq(m.keyT, en.k, k)) {
			m.entries = append(append([]*mapEntry{}, m.entries[:i]...), m.entries[i+1:]...)
			return
		}
	}
}

func (e *Exec) lookup(instr *ssa.Lookup, x, idx Value) Value {
	switch x := x.(type) {
	case *Map:
		mt := under(instr.X.Type()).(*types.Map)
		var v Value
		ok := false
		if x != nil {
			if en := e.mapFind(x, idx); en != nil {
				v, ok = copyVal(*en.v), true
			}
		}
		if !ok {
			v = zero(mt.Elem())
		}
		if instr.CommaOk {
			return Tuple{v, sym.Bool(ok)}
		}
		return v
	case Slice: // string index
		i := e.boundsIndex(idx.(sym.Sc), instr.Index.Type(), x.Len)
		return x.St.peek(e.o(x) + i)
	}
	e.unsupported("lookup on %T", x)
	return nil
}

type iter interface{ next(e *Exec) Tuple }

type mapIter struct {
	snap []*mapEntry
	m    *Map
	i    int
}

func (it *mapIter) next(e *Exec) Tuple {
	for it.i < len(it.snap) {
		en := it.snap[it.i]
		it.i++
		// skip entries deleted meanwhile
		live := false
		for _, cur := range it.m.entries {
			if cur == en {
				live = true
				break
			}
		}
		if live {
			return Tuple{sym.Bool(true), copyVal(en.k), copyVal(*en.v)}
		}
	}
	return Tuple{sym.Bool(false), nil, nil}
}

type stringIter struct {
	s Slice
	n int
	i int
}

func (it *stringIter) next(e *Exec) Tuple {
	if it.i >= it.n {
		return Tuple{sym.Bool(false), i64zero, sym.Const(32, 0)}
	}
	b := it.s.St.peek(e.o(it.s) + it.i).(sym.Sc)
	if !e.Branch(sym.Ult(b, sym.Const(8, 0x80))) {
		e.unsupported("range over string with non-ASCII byte")
	}
	k := i64(it.i)
	it.i++
	return Tuple{sym.Bool(true), k, sym.ZeroExt(b, 32)}
}

func (e *Exec) rangeIter(x Value, t types.Type) iter {
	switch x := x.(type) {
	case *Map:
		if x == nil {
			return &mapIter{m: &Map{}}
		}
		return &mapIter{snap: append([]*mapEntry{}, x.entries...), m: x}
	case Slice:
		return &stringIter{s: x, n: e.ConcInt(x.Len)}
	}
	e.unsupported("range over %T", x)
	return nil
}

// ---- builtins ----

func (e *Exec) callBuiltin(caller *frame, fn *ssa.Builtin, args []Value) Value {
	switch fn.Name() {
	case "len":
		switch x := args[0].(type) {
		case Slice:
			return x.Len
		case Array:
			return x.St.N
		case *Value:
			if x == nil {
				e.goPanic("nil pointer dereference")
			}
			return (*x).(Array).St.N
		case *Map:
			if x == nil {
				return i64zero
			}
			return i64(len(x.entries))
		case *Chan:
			if x == nil {
				return i64zero
			}
			return i64(len(x.buf))
		}
	case "cap":
		switch x := args[0].(type) {
		case *Chan:
			if x == nil {
				return i64zero
			}
			return i64(x.cap)
		case Slice:
			return x.Cap
		case Array:
			return x.St.N
		case *Value:
			return (*x).(Array).St.N
		}
	case "append":
		return e.appendOp(args[0].(Slice), args[1].(Slice), fn)
	case "copy":
		return e.copyOp(args[0].(Slice), args[1].(Slice))
	case "close":
		c := args[0].(*Chan)
		if c == nil {
			panic(targetPanic{Iface{T: e.M.runtimeErrT, V: litString("close of nil channel")}})
		}
		if e.evOn() {
			e.evClose(c)
			return nil
		}
		e.noteChanAccess(c)
		if c.closed {
			panic(targetPanic{Iface{T: e.M.runtimeErrT, V: litString("close of closed channel")}})
		}
		c.closed = true
		return nil
	case "delete":
		e.mapDelete(args[0].(*Map), args[1])
		return nil
	case "clear":
		switch x := args[0].(type) {
		case *Map:
			if x != nil {
				e.noteMapAccess(x, true)
				x.entries = nil
			}
		case Slice:
			n := e.ConcInt(x.Len)
			for i := 0; i < n; i++ {
				p := x.St.cell(e.o(x) + i)
				e.noteStoreCell(x.St, p)
				*p = zero(x.St.elem)
			}
		default:
			e.unsupported("builtin clear on %T", args[0])
		}
		return nil
	case "print", "println":
		return nil
	case "panic":
		panic(targetPanic{args[0]})
	case "recover":
		return e.doRecover(caller)
	case "ssa:wrapnilchk":
		if p, ok := args[0].(*Value); ok && p == nil {
			e.goPanic("value method called using nil pointer")
		}
		return args[0]
	case "min", "max":
		r := args[0].(sym.Sc)
		sig := fn.Type().(*types.Signature)
		_, signed, _ := width(sig.Params().At(0).Type())
		for _, a := range args[1:] {
			b := a.(sym.Sc)
			var bLess sym.Sc // b < r
			if signed {
				bLess = sym.Slt(b, r)
			} else {
				bLess = sym.Ult(b, r)
			}
			if fn.Name() == "min" {
				r = sym.Ite(bLess, b, r)
			} else {
				r = sym.Ite(bLess, r, b)
			}
		}
		return e.norm(r)
	}
	e.unsupported("builtin %s on %T", fn.Name(), args[0])
	return nil
}

func (e *Exec) appendOp(s, add Slice, fn *ssa.Builtin) Value {
	na := e.ConcInt(add.Len)
	if na == 0 {
		return s
	}
	ns := e.ConcInt(s.Len)
	// room in place?
	room := sym.Sle(i64(ns+na), s.Cap)
	if s.St != nil && e.Branch(room) {
		for i := 0; i < na; i++ {
			p := s.St.cell(e.o(s) + ns + i)
			e.noteStoreCell(s.St, p)
			*p = copyVal(add.St.peek(e.o(add) + i))
		}
		return Slice{St: s.St, Off: s.Off, Len: i64(ns + na), Cap: s.Cap}
	}
	// grow: amortised doubling (the exact size-class rounding of the Go
	// runtime is not modelled; code must not depend on it)
	oc := 0
	if s.St != nil {
		oc = e.ConcInt(s.Cap)
	}
	nc := 2 * oc
	if nc < ns+na {
		nc = ns + na
	}
	elem := add.St.elem
	if s.St != nil {
		elem = s.St.elem
	} else if fn == nil {
		elem = byteT
	} else if sig, ok := fn.Type().(*types.Signature); ok {
		if sl, ok := under(sig.Params().At(0).Type()).(*types.Slice); ok {
			elem = sl.Elem()
		}
	}
	st := e.newStore(elem, i64(nc))
	for i := 0; i < ns; i++ {
		*st.cell(i) = copyVal(s.St.peek(e.o(s) + i))
	}
	for i := 0; i < na; i++ {
		*st.cell(ns + i) = copyVal(add.St.peek(e.o(add) + i))
	}
	return Slice{St: st, Len: i64(ns + na), Cap: st.N}
}

func (e *Exec) copyOp(dst, src Slice) Value {
	// n = min(len(dst), len(src)), decided symbolically then made concrete
	var n int
	if dst.Len.K && src.Len.K {
		n = int(dst.Len.V)
		if int(src.Len.V) < n {
			n = int(src.Len.V)
		}
	} else {
		m := e.norm(sym.Ite(sym.Slt(dst.Len, src.Len), dst.Len, src.Len))
		// copying zeros over zeros (both stores untouched since allocation)
		// changes nothing whatever the count: keep the count symbolic
		if src.St != nil && dst.St != nil && len(src.St.cells) == 0 && src.St.lit == "" &&
			len(dst.St.cells) == 0 && dst.St.lit == "" {
			return m
		}
		n = e.ConcInt(m)
	}
	if n == 0 {
		return i64zero
	}
	tmp := make([]Value, n)
	for i := 0; i < n; i++ {
		tmp[i] = copyVal(src.St.peek(e.o(src) + i))
	}
	for i := 0; i < n; i++ {
		p := dst.St.cell(e.o(dst) + i)
		e.noteStoreCell(dst.St, p)
		*p = tmp[i]
	}
	return i64(n)
}

// ---- channels / goroutines: not part of sequential harnesses ----

// goBlocked unwinds an inlined goroutine (footprint mode) that would block.
type goBlocked struct{}

func chanElemZero(t types.Type) Value {
	if ct, ok := under(t).(*types.Chan); ok {
		return zero(ct.Elem())
	}
	return Struct{}
}

// chanBlock: the current thread would block on a channel operation. Inside an
// inlined goroutine (footprint mode) the goroutine is left blocked; the only
// thread of a sequential harness blocking for good is a self-deadlock, i.e.
// non-termination (same treatment as a mutex that is already held).
func (e *Exec) chanBlock(what string) {
	if e.goDepth > 0 {
		panic(goBlocked{})
	}
	e.abort("budget", "self-deadlock: %s blocks for good at %s", what, e.where())
}

func (e *Exec) chanRecv(c Value, commaOk bool, ct types.Type) Value {
	ch, _ := c.(*Chan)
	if ch == nil {
		e.chanBlock("receive from a nil channel")
	}
	ret := func(v Value, ok bool) Value {
		if commaOk {
			return Tuple{v, sym.Bool(ok)}
		}
		return v
	}
	if e.evOn() {
		if !isEmptyStruct(ct) {
			e.unsupported("event mode: receive of a non-empty element type at %s", e.where())
		}
		if !commaOk {
			e.evAdd(Event{Op: "recv", Obj: e.evName(ch)})
			return Struct{}
		}
		got := e.Nondet("bool", 0, "recvok")
		if e.Branch(got) {
			e.evAdd(Event{Op: "recv", Obj: e.evName(ch), Outcome: "ok"})
			return ret(Struct{}, true)
		}
		e.evAdd(Event{Op: "recv", Obj: e.evName(ch), Outcome: "closed"})
		return ret(Struct{}, false)
	}
	e.noteChanAccess(ch)
	if len(ch.buf) > 0 {
		v := ch.buf[0]
		ch.buf = ch.buf[1:]
		return ret(v, true)
	}
	if ch.closed {
		return ret(chanElemZero(ct), false)
	}
	e.chanBlock("receive from an empty channel")
	return nil
}

func isEmptyStruct(ct types.Type) bool {
	c, ok := under(ct).(*types.Chan)
	if !ok {
		return false
	}
	st, ok := under(c.Elem()).(*types.Struct)
	return ok && st.NumFields() == 0
}

func (e *Exec) chanSend(c, v Value, ct types.Type) {
	ch, _ := c.(*Chan)
	if ch == nil {
		e.chanBlock("send on a nil channel")
	}
	if e.evOn() {
		if ch.cap == 0 {
			e.unsupported("event mode: send on an unbuffered channel at %s", e.where())
		}
		if !isEmptyStruct(ct) {
			e.unsupported("event mode: send of a non-empty element type at %s", e.where())
		}
		e.evAdd(Event{Op: "send", Obj: e.evName(ch), Arg: ch.cap})
		return
	}
	e.noteChanAccess(ch)
	if ch.closed {
		panic(targetPanic{Iface{T: e.M.runtimeErrT, V: litString("send on closed channel")}})
	}
	if len(ch.buf) < ch.cap {
		ch.buf = append(ch.buf, copyVal(v))
		return
	}
	e.chanBlock("send on a full channel")
}

// noteChanAccess: channel operations are synchronisation operations (like
// sync/atomic): recorded as atomic accesses in footprint mode.
func (e *Exec) noteChanAccess(ch *Chan) {
	if e.foot != nil && ch != nil {
		e.foot.record(e, ch, true, true)
	}
}

// selectStmt executes an ssa.Select. Result: (index, recvOk, r_0 ... r_n-1)
// with one r per receive state.
func (e *Exec) selectStmt(fr *frame, instr *ssa.Select) Value {
	n := len(instr.States)
	chans := make([]*Chan, n)
	sends := make([]Value, n)
	for i, st := range instr.States {
		chans[i], _ = fr.get(st.Chan).(*Chan)
		if st.Dir == types.SendOnly {
			sends[i] = fr.get(st.Send)
		}
	}
	result := func(idx int, ok bool, got Value) Value {
		t := Tuple{i64(idx), sym.Bool(ok)}
		for i, st := range instr.States {
			if st.Dir == types.RecvOnly {
				if i == idx && got != nil {
					t = append(t, got)
				} else {
					t = append(t, chanElemZero(st.Chan.Type()))
				}
			}
		}
		return t
	}
	// choose picks one of k alternatives by a chain of fresh booleans
	choose := func(k int, tag string) int {
		for i := 0; i < k-1; i++ {
			if e.Branch(e.Nondet("bool", 0, tag)) {
				return i
			}
		}
		return k - 1
	}
	if e.evOn() {
		// every alternative is an edge of the thread's event tree; which of them
		// are enabled in a given global state is decided by the schedule encoding
		var alts []Event
		for i, st := range instr.States {
			ch := chans[i]
			if ch == nil {
				continue // a nil channel is never ready
			}
			if !isEmptyStruct(st.Chan.Type()) {
				e.unsupported("event mode: select on a channel of a non-empty element type at %s", e.where())
			}
			if st.Dir == types.SendOnly {
				if ch.cap == 0 {
					e.unsupported("event mode: select with a send on an unbuffered channel at %s", e.where())
				}
				alts = append(alts, Event{Op: "send", Obj: e.evName(ch), Arg: ch.cap, Sel: i})
			} else {
				alts = append(alts, Event{Op: "recv", Obj: e.evName(ch), Outcome: "ok", Sel: i})
				alts = append(alts, Event{Op: "recv", Obj: e.evName(ch), Outcome: "closed", Sel: i})
			}
		}
		k := len(alts)
		if !instr.Blocking {
			k++
		}
		if k == 0 {
			e.unsupported("event mode: select without a ready-able case at %s", e.where())
		}
		c := choose(k, "select")
		if c == len(alts) {
			var names []string
			for _, a := range alts {
				names = append(names, a.Obj)
			}
			e.evAdd(Event{Op: "default", Obj: strings.Join(names, "+"), Alts: alts})
			return result(-1, false, nil)
		}
		a := alts[c]
		idx := a.Sel
		a.Sel = 0
		e.evAdd(a)
		return result(idx, a.Op == "recv" && a.Outcome == "ok", nil)
	}
	var ready []int
	for i, st := range instr.States {
		ch := chans[i]
		if ch == nil {
			continue
		}
		if st.Dir == types.SendOnly {
			if ch.closed || len(ch.buf) < ch.cap {
				ready = append(ready, i)
			}
		} else if len(ch.buf) > 0 || ch.closed {
			ready = append(ready, i)
		}
	}
	if len(ready) == 0 {
		if !instr.Blocking {
			return result(-1, false, nil)
		}
		e.chanBlock("select with no ready case")
	}
	idx := ready[0]
	if len(ready) > 1 {
		idx = ready[choose(len(ready), "select")]
	}
	st := instr.States[idx]
	if st.Dir == types.SendOnly {
		e.chanSend(chans[idx], sends[idx], st.Chan.Type())
		return result(idx, false, nil)
	}
	r := e.chanRecv(chans[idx], true, st.Chan.Type()).(Tuple)
	ok := r[1].(sym.Sc)
	return result(idx, ok.K && ok.V != 0, r[0])
}

func (e *Exec) goStmt(fr *frame, fn Value, args []Value) {
	if e.evOn() {
		e.evSpawn(fr, fn, args)
		return
	}
	if e.foot != nil && e.origin != "" {
		// footprint mode: the goroutine's body is executed at once (one of its
		// possible schedules) under an origin of its own, so that the conflict
		// lemma — which does not depend on the order of accesses — also relates
		// the goroutine to its creator and to its siblings. A goroutine that
		// would block on a channel is left blocked.
		e.goSeq++
		saved := e.origin
		e.origin = fmt.Sprintf("%s/go#%d", saved, e.goSeq)
		e.goDepth++
		func() {
			defer func() {
				e.goDepth--
				e.origin = saved
				if r := recover(); r != nil {
					if _, ok := r.(goBlocked); !ok {
						panic(r)
					}
				}
			}()
			e.CallValue(fn, args...)
		}()
		return
	}
	e.unsupported("go statement at %s", e.where())
}

func describe(v Value) string {
	switch v := v.(type) {
	case sym.Sc:
		return v.String()
	case Slice:
		return fmt.Sprintf("slice(off=%s,len=%s,cap=%s,nil=%v)", v.Off, v.Len, v.Cap, v.St == nil)
	case *Value:
		if v == nil {
			return "nil-ptr"
		}
		return fmt.Sprintf("&(%s)", describe(*v))
	case Struct:
		return fmt.Sprintf("struct/%d", len(v))
	case Iface:
		if v.T == nil {
			return "nil-iface"
		}
		return fmt.Sprintf("iface(%v)", v.T)
	case Tuple:
		s := "("
		for _, x := range v {
			s += describe(x) + ", "
		}
		return s + ")"
	}
	return fmt.Sprintf("%T", v)
}

// o returns the concrete element offset of a view (concretising a symbolic one).
func (e *Exec) o(s Slice) int {
	if s.Off.W == 0 {
		return 0
	}
	if s.Off.K {
		return int(int64(s.Off.V))
	}
	return e.ConcInt(s.Off)
}

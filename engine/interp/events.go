package interp

import (
	"fmt"
	"go/types"
	"strings"

	"gosym/sym"

	"golang.org/x/tools/go/ssa"
)

// Event mode (DESIGN §4, C16): while a thread entry runs, every operation on
// sync/atomic, sync.WaitGroup/Mutex/RWMutex/Once, channels, `go` statements
// and harness-declared events becomes an event; the result of a visible
// operation (e.g. closing.Load()) is a fresh symbolic value, so the code after
// it forks. Each explored path of the entry is one root-to-leaf path of the
// thread's event tree. Everything between two visible operations is
// thread-local and fused into the edge.

type Event struct {
	Op      string  `json:"op"`
	Obj     string  `json:"obj"`
	Arg     int     `json:"arg,omitempty"`
	Outcome string  `json:"outcome,omitempty"`
	Where   string  `json:"where,omitempty"`
	Spawn   []Event `json:"spawn,omitempty"` // events of a goroutine started here (straight-line)
	Alts    []Event `json:"alts,omitempty"`  // default of a select: the cases none of which is ready
	Sel     int     `json:"-"`
}

type eventState struct {
	server *Value
	srvT   types.Type
	log    []Event
	nested int
}

func (e *Exec) evOn() bool { return e.ev != nil }

func (e *Exec) evAdd(ev Event) {
	// operations on objects that are not reachable from the Server value
	// (e.g. the per-session cache mutexes) are local to the thread: no event
	if ev.Obj == "other" && ev.Op != "mark" && ev.Op != "spawn" {
		return
	}
	ev.Where = e.where()
	e.ev.log = append(e.ev.log, ev)
}

// evName names a shared object by the Server field that holds it.
func (e *Exec) evName(p interface{}) string {
	if e.ev.server == nil {
		return "?"
	}
	st, _ := under(e.ev.srvT).(*types.Struct)
	s := (*e.ev.server).(Struct)
	var find func(prefix string, st *types.Struct, s Struct) string
	find = func(prefix string, st *types.Struct, s Struct) string {
		for i := range s {
			name := prefix + st.Field(i).Name()
			if pv, ok := p.(*Value); ok && pv == &s[i] {
				return name
			}
			switch fv := s[i].(type) {
			case *Chan:
				if pc, ok := p.(*Chan); ok && pc == fv && fv != nil {
					return name
				}
			case Struct:
				if sub, ok := under(st.Field(i).Type()).(*types.Struct); ok {
					if r := find(name+".", sub, fv); r != "" {
						return r
					}
				}
			}
		}
		return ""
	}
	if st != nil {
		if r := find("", st, s); r != "" {
			return r
		}
	}
	return "other"
}

func evIntr(op string) Intrinsic {
	return func(e *Exec, c *frame, fn *ssa.Function, a []Value) Value {
		e.evAdd(Event{Op: op, Obj: e.evName(a[0])})
		return zeroResults(fn)
	}
}

// eventModels replace the sequential sync models while event mode is on.
var eventModels map[string]Intrinsic

func init() {
	eventModels = map[string]Intrinsic{
		"(*sync.Mutex).Lock":      evIntr("lock"),
		"(*sync.Mutex).Unlock":    evIntr("unlock"),
		"(*sync.RWMutex).Lock":    evIntr("lock"),
		"(*sync.RWMutex).Unlock":  evIntr("unlock"),
		"(*sync.RWMutex).RLock":   evIntr("rlock"),
		"(*sync.RWMutex).RUnlock": evIntr("runlock"),
		"(*sync.WaitGroup).Add": func(e *Exec, c *frame, fn *ssa.Function, a []Value) Value {
			e.evAdd(Event{Op: "add", Obj: e.evName(a[0]), Arg: int(a[1].(sym.Sc).Signed())})
			return nil
		},
		"(*sync.WaitGroup).Done": func(e *Exec, c *frame, fn *ssa.Function, a []Value) Value {
			e.evAdd(Event{Op: "add", Obj: e.evName(a[0]), Arg: -1})
			return nil
		},
		"(*sync.WaitGroup).Wait": evIntr("wait"),
		"(*sync.Once).Do": func(e *Exec, c *frame, fn *ssa.Function, a []Value) Value {
			name := e.evName(a[0])
			first := e.Nondet("bool", 0, "once")
			if e.Branch(first) {
				e.evAdd(Event{Op: "once_enter", Obj: name, Outcome: "first"})
				e.CallValue(a[1])
				e.evAdd(Event{Op: "once_exit", Obj: name})
			} else {
				e.evAdd(Event{Op: "once_enter", Obj: name, Outcome: "done"})
			}
			return nil
		},
		"(*sync/atomic.Bool).Load": func(e *Exec, c *frame, fn *ssa.Function, a []Value) Value {
			name := e.evName(a[0])
			v := e.Nondet("bool", 0, "load")
			if e.Branch(v) {
				e.evAdd(Event{Op: "load", Obj: name, Outcome: "true"})
				return sym.Bool(true)
			}
			e.evAdd(Event{Op: "load", Obj: name, Outcome: "false"})
			return sym.Bool(false)
		},
		"(*sync/atomic.Bool).Store": func(e *Exec, c *frame, fn *ssa.Function, a []Value) Value {
			v := a[1].(sym.Sc)
			if !v.K {
				e.unsupported("event mode: atomic store of a symbolic value")
			}
			e.evAdd(Event{Op: "store", Obj: e.evName(a[0]), Arg: int(v.V)})
			return nil
		},
		"(*sync/atomic.Bool).CompareAndSwap": func(e *Exec, c *frame, fn *ssa.Function, a []Value) Value {
			old, nw := a[1].(sym.Sc), a[2].(sym.Sc)
			if !old.K || !nw.K {
				e.unsupported("event mode: CAS with symbolic operands")
			}
			name := e.evName(a[0])
			ok := e.Nondet("bool", 0, "cas")
			if e.Branch(ok) {
				e.evAdd(Event{Op: "cas", Obj: name, Arg: int(old.V)*2 + int(nw.V), Outcome: "true"})
				return sym.Bool(true)
			}
			e.evAdd(Event{Op: "cas", Obj: name, Arg: int(old.V)*2 + int(nw.V), Outcome: "false"})
			return sym.Bool(false)
		},
		"(*sync/atomic.Bool).Swap": func(e *Exec, c *frame, fn *ssa.Function, a []Value) Value {
			nw := a[1].(sym.Sc)
			if !nw.K {
				e.unsupported("event mode: Swap with symbolic operand")
			}
			name := e.evName(a[0])
			old := e.Nondet("bool", 0, "swap")
			if e.Branch(old) {
				e.evAdd(Event{Op: "swap", Obj: name, Arg: int(nw.V), Outcome: "true"})
				return sym.Bool(true)
			}
			e.evAdd(Event{Op: "swap", Obj: name, Arg: int(nw.V), Outcome: "false"})
			return sym.Bool(false)
		},
	}
}

// evSpawn records a goroutine started by the code under test: its body is
// executed right away with its events collected separately (it must be
// straight-line with respect to visible results).
func (e *Exec) evSpawn(fr *frame, fn Value, args []Value) {
	saved := e.ev.log
	e.ev.log = nil
	name := "goroutine"
	switch f := fn.(type) {
	case *ssa.Function:
		name = f.Name()
	case *Closure:
		name = f.Fn.Name()
	}
	e.ev.nested++
	e.call(fr, 0, fn, args)
	e.ev.nested--
	body := e.ev.log
	e.ev.log = saved
	e.evAdd(Event{Op: "spawn", Obj: name, Spawn: body})
}

func (e *Exec) evClose(c *Chan) {
	e.evAdd(Event{Op: "close", Obj: e.evName(c)})
}

func (e *Exec) evRecv(c *Chan) {
	e.evAdd(Event{Op: "recv", Obj: e.evName(c)})
}

func registerEventVocab() {
	harnessVocab["vEventBegin"] = func(e *Exec, c *frame, fn *ssa.Function, a []Value) Value {
		itf := a[0].(Iface)
		p := itf.V.(*Value)
		e.ev = &eventState{server: p}
		if pt, ok := under(itf.T).(*types.Pointer); ok {
			e.ev.srvT = pt.Elem()
		}
		return nil
	}
	harnessVocab["vMark"] = func(e *Exec, c *frame, fn *ssa.Function, a []Value) Value {
		if e.ev == nil {
			return nil
		}
		e.evAdd(Event{Op: "mark", Obj: e.strArg(a[0])})
		return nil
	}
	harnessVocab["vStall"] = func(e *Exec, c *frame, fn *ssa.Function, a []Value) Value {
		// the thread blocks for good: its event path ends here
		if e.ev == nil {
			e.abort("pruned", "vStall outside event mode")
		}
		e.evAdd(Event{Op: "mark", Obj: "stalled"})
		e.res.Events = append([]Event{}, e.ev.log...)
		e.abort("ok", "stalled")
		return nil
	}
	harnessVocab["vEventEnd"] = func(e *Exec, c *frame, fn *ssa.Function, a []Value) Value {
		if e.ev == nil {
			return nil
		}
		e.res.Events = append([]Event{}, e.ev.log...)
		return nil
	}
}

func (ev Event) String() string {
	s := fmt.Sprintf("%s(%s", ev.Op, ev.Obj)
	if ev.Arg != 0 {
		s += fmt.Sprintf(",%d", ev.Arg)
	}
	s += ")"
	if ev.Outcome != "" {
		s += "=" + ev.Outcome
	}
	if len(ev.Spawn) > 0 {
		var parts []string
		for _, x := range ev.Spawn {
			parts = append(parts, x.String())
		}
		s += "{" + strings.Join(parts, " ") + "}"
	}
	return s
}

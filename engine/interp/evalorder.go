package interp

import (
	"go/token"
	"sync"

	"golang.org/x/tools/go/ssa"
)

// go/ssa evaluates the operands of a statement strictly left to right, so in
//
//	return result, errors.As(err, &result)
//
// it loads `result` before the call. The gc compiler (which builds the code
// users run) performs the calls of a statement first and reads plain
// variables afterwards. The engine follows gc: a load from a local variable
// whose address is handed to a call that sits between the load and the
// load's first use (same basic block) is performed at that first use.
// (Found by translation validation: UnwrapMessageSizeExceeded returned a zero
// Size in the encoding and the real Size natively.)

type lazyLoad struct{ p *Value }

var deferredCache sync.Map // *ssa.Function -> map[*ssa.UnOp]bool

func deferredLoads(fn *ssa.Function) map[*ssa.UnOp]bool {
	if v, ok := deferredCache.Load(fn); ok {
		return v.(map[*ssa.UnOp]bool)
	}
	res := map[*ssa.UnOp]bool{}
	for _, b := range fn.Blocks {
		for i, in := range b.Instrs {
			ld, ok := in.(*ssa.UnOp)
			if !ok || ld.Op != token.MUL {
				continue
			}
			al, ok := ld.X.(*ssa.Alloc)
			if !ok {
				continue
			}
			// first use of the loaded value in this block
			firstUse := -1
			for j := i + 1; j < len(b.Instrs) && firstUse < 0; j++ {
				for _, op := range b.Instrs[j].Operands(nil) {
					if *op == ssa.Value(ld) {
						firstUse = j
						break
					}
				}
			}
			if firstUse < 0 {
				continue
			}
			// a call in between that can reach the variable's address
			for j := i + 1; j < firstUse; j++ {
				call, ok := b.Instrs[j].(ssa.CallInstruction)
				if !ok {
					continue
				}
				if reachesAddr(call.Common(), al) {
					res[ld] = true
					break
				}
			}
		}
	}
	deferredCache.Store(fn, res)
	return res
}

func reachesAddr(c *ssa.CallCommon, al *ssa.Alloc) bool {
	var via func(v ssa.Value, depth int) bool
	via = func(v ssa.Value, depth int) bool {
		if v == ssa.Value(al) {
			return true
		}
		if depth > 3 {
			return false
		}
		switch v := v.(type) {
		case *ssa.MakeInterface:
			return via(v.X, depth+1)
		case *ssa.ChangeType:
			return via(v.X, depth+1)
		case *ssa.Convert:
			return via(v.X, depth+1)
		case *ssa.FieldAddr:
			return via(v.X, depth+1)
		case *ssa.MakeClosure:
			for _, b := range v.Bindings {
				if via(b, depth+1) {
					return true
				}
			}
		}
		return false
	}
	if via(c.Value, 0) {
		return true
	}
	for _, a := range c.Args {
		if via(a, 0) {
			return true
		}
	}
	return false
}

package interp

import (
	"fmt"
	"go/token"
	"go/types"
	"strconv"
	"strings"

	"gosym/sym"

	"golang.org/x/tools/go/ssa"
)

// Intrinsic replaces the body of a function: harness vocabulary and the
// environment models (DESIGN §3). Every model used is listed in the evidence.
type Intrinsic func(e *Exec, caller *frame, fn *ssa.Function, args []Value) Value

func noop(e *Exec, caller *frame, fn *ssa.Function, args []Value) Value {
	return zeroResults(fn)
}

func zeroResults(fn *ssa.Function) Value {
	res := fn.Signature.Results()
	switch res.Len() {
	case 0:
		return nil
	case 1:
		return zero(res.At(0).Type())
	}
	t := make(Tuple, res.Len())
	for i := range t {
		t[i] = zero(res.At(i).Type())
	}
	return t
}

func (m *Machine) intrinsic(fn *ssa.Function, name string) Intrinsic {
	if v, ok := m.intrCache.Load(fn); ok {
		if v == nil {
			return nil
		}
		in, _ := v.(Intrinsic)
		return in
	}
	in := m.findIntrinsic(fn, name)
	if in == nil {
		m.intrCache.Store(fn, Intrinsic(nil))
	} else {
		m.intrCache.Store(fn, in)
	}
	return in
}

func (m *Machine) findIntrinsic(fn *ssa.Function, name string) Intrinsic {
	if fn.Pkg != nil && m.runsInit(fn.Pkg) && fn.Signature.Recv() == nil {
		if in, ok := harnessVocab[fn.Name()]; ok {
			return in
		}
	}
	if fn.Synthetic == "package initializer" && fn.Pkg != nil && !m.runsInit(fn.Pkg) {
		return noop
	}
	if in, ok := models[name]; ok {
		return in
	}
	pkg := ""
	if fn.Pkg != nil {
		pkg = fn.Pkg.Pkg.Path()
	} else if fn.Signature.Recv() != nil {
		// methods of instantiated/wrapped types: derive from receiver
		if n := recvNamed(fn.Signature.Recv().Type()); n != nil && n.Obj().Pkg() != nil {
			pkg = n.Obj().Pkg().Path()
		}
	}
	switch pkg {
	case "log/slog":
		return noop
	}
	if strings.HasPrefix(name, "maps.Clone[") {
		return modelMapsClone
	}
	return nil
}

func recvNamed(t types.Type) *types.Named {
	if p, ok := t.(*types.Pointer); ok {
		t = p.Elem()
	}
	n, _ := t.(*types.Named)
	return n
}

func (e *Exec) strArg(v Value) string {
	s, ok := e.concreteString(v.(Slice))
	if !ok {
		e.unsupported("harness label/tag must be a constant string at %s", e.where())
	}
	return s
}

var harnessVocab map[string]Intrinsic
var models map[string]Intrinsic

func init() {
	harnessVocab = map[string]Intrinsic{
		"nondetByte": func(e *Exec, c *frame, fn *ssa.Function, a []Value) Value { return e.Nondet("byte", 8, "") },
		"nondetU16":  func(e *Exec, c *frame, fn *ssa.Function, a []Value) Value { return e.Nondet("u16", 16, "") },
		"nondetU32":  func(e *Exec, c *frame, fn *ssa.Function, a []Value) Value { return e.Nondet("u32", 32, "") },
		"nondetU64":  func(e *Exec, c *frame, fn *ssa.Function, a []Value) Value { return e.Nondet("u64", 64, "") },
		"nondetInt":  func(e *Exec, c *frame, fn *ssa.Function, a []Value) Value { return e.Nondet("int", 64, "") },
		"nondetBool": func(e *Exec, c *frame, fn *ssa.Function, a []Value) Value { return e.Nondet("bool", 0, "") },
		"nondetBytes": func(e *Exec, c *frame, fn *ssa.Function, a []Value) Value {
			n := e.ConcInt(a[0].(sym.Sc))
			if n < 0 {
				e.abort("pruned", "nondetBytes negative")
			}
			st := e.newStore(byteT, i64(n))
			for i := 0; i < n; i++ {
				*st.cell(i) = e.Nondet("byte", 8, "")
			}
			return Slice{St: st, Len: st.N, Cap: st.N}
		},
		"vChoose": func(e *Exec, c *frame, fn *ssa.Function, a []Value) Value {
			n := a[0].(sym.Sc)
			x := e.Nondet("choose", 64, "")
			e.Assume(sym.And(sym.Sle(i64zero, x), sym.Slt(x, n)))
			return x
		},
		"vAssume": func(e *Exec, c *frame, fn *ssa.Function, a []Value) Value {
			e.Assume(a[0].(sym.Sc))
			return nil
		},
		"vAssert": func(e *Exec, c *frame, fn *ssa.Function, a []Value) Value {
			e.Assert(e.strArg(a[0]), a[1].(sym.Sc), "", sym.Bool(false))
			return nil
		},
		"vAssertK": func(e *Exec, c *frame, fn *ssa.Function, a []Value) Value {
			e.Assert(e.strArg(a[0]), a[3].(sym.Sc), e.strArg(a[1]), a[2].(sym.Sc))
			return nil
		},
		"vReach": func(e *Exec, c *frame, fn *ssa.Function, a []Value) Value {
			e.Reach(e.strArg(a[0]))
			return nil
		},
		"vParam": func(e *Exec, c *frame, fn *ssa.Function, a []Value) Value {
			name := e.strArg(a[0])
			if v, ok := e.M.Params[name]; ok {
				return i64(v)
			}
			return a[1]
		},
		"vAnd":     func(e *Exec, c *frame, fn *ssa.Function, a []Value) Value { return sym.And(a[0].(sym.Sc), a[1].(sym.Sc)) },
		"vOr":      func(e *Exec, c *frame, fn *ssa.Function, a []Value) Value { return sym.Or(a[0].(sym.Sc), a[1].(sym.Sc)) },
		"vNot":     func(e *Exec, c *frame, fn *ssa.Function, a []Value) Value { return sym.Not(a[0].(sym.Sc)) },
		"vImplies": func(e *Exec, c *frame, fn *ssa.Function, a []Value) Value { return sym.Implies(a[0].(sym.Sc), a[1].(sym.Sc)) },
		"vIteInt": func(e *Exec, c *frame, fn *ssa.Function, a []Value) Value {
			return sym.Ite(a[0].(sym.Sc), a[1].(sym.Sc), a[2].(sym.Sc))
		},
		"vIteByte": func(e *Exec, c *frame, fn *ssa.Function, a []Value) Value {
			return sym.Ite(a[0].(sym.Sc), a[1].(sym.Sc), a[2].(sym.Sc))
		},
		"vEqBytes": func(e *Exec, c *frame, fn *ssa.Function, a []Value) Value {
			return e.stringEq(a[0].(Slice), a[1].(Slice))
		},
		"vEqStr": func(e *Exec, c *frame, fn *ssa.Function, a []Value) Value {
			return e.stringEq(a[0].(Slice), a[1].(Slice))
		},
		"vNoNUL": func(e *Exec, c *frame, fn *ssa.Function, a []Value) Value {
			s := a[0].(Slice)
			n := e.ConcInt(s.Len)
			r := sym.Bool(true)
			for i := 0; i < n; i++ {
				r = sym.And(r, sym.Not(sym.Eq(s.St.peek(e.o(s)+i).(sym.Sc), sym.Const(8, 0))))
			}
			return e.norm(r)
		},
		"vNoNULStr": func(e *Exec, c *frame, fn *ssa.Function, a []Value) Value {
			return harnessVocab["vNoNUL"](e, c, fn, a)
		},
		"vKnownOpen": func(e *Exec, c *frame, fn *ssa.Function, a []Value) Value {
			return sym.Bool(e.M.Known[e.strArg(a[0])])
		},
		"vAllocCheck": func(e *Exec, c *frame, fn *ssa.Function, a []Value) Value { return nil },
		"vStackDepth": func(e *Exec, c *frame, fn *ssa.Function, a []Value) Value {
			// frames of the code under test (the repository's packages, not the
			// harness, not the standard library) on the current call stack
			n := 0
			for fr := e.cur; fr != nil; fr = fr.caller {
				if fr.fn.Pkg == nil || !strings.HasPrefix(fr.fn.Pkg.Pkg.Path(), e.M.Module) {
					continue
				}
				if fr.fn.Pos().IsValid() && strings.Contains(e.M.Prog.Fset.Position(fr.fn.Pos()).Filename, "zz_verif_") {
					continue
				}
				n++
			}
			return i64(n)
		},
		"vPause":    func(e *Exec, c *frame, fn *ssa.Function, a []Value) Value { return nil },
		"vRaceMode": func(e *Exec, c *frame, fn *ssa.Function, a []Value) Value { return sym.Bool(false) },
		"vSymbolic": func(e *Exec, c *frame, fn *ssa.Function, a []Value) Value { return sym.Bool(true) },
		"vConc": func(e *Exec, c *frame, fn *ssa.Function, a []Value) Value {
			return i64(e.ConcInt(a[0].(sym.Sc)))
		},
		"vConcByte": func(e *Exec, c *frame, fn *ssa.Function, a []Value) Value {
			return sym.Const(8, e.Conc(a[0].(sym.Sc)))
		},
		"vStop": func(e *Exec, c *frame, fn *ssa.Function, a []Value) Value {
			e.abort("pruned", "vStop")
			return nil
		},
		"vOrigin": func(e *Exec, c *frame, fn *ssa.Function, a []Value) Value {
			e.origin = e.strArg(a[0])
			return nil
		},
		"vFootBegin":  footBegin,
		"vFootReport": footReport,
		"vSameObject": func(e *Exec, c *frame, fn *ssa.Function, a []Value) Value {
			x, y := a[0].(Slice), a[1].(Slice)
			return sym.Bool(x.St != nil && x.St == y.St)
		},
		"vEncodeFormats": func(e *Exec, c *frame, fn *ssa.Function, a []Value) Value {
			st := e.newStore(types.Typ[types.Int], i64(len(e.encLog)))
			for i, f := range e.encLog {
				*st.cell(i) = f
			}
			return Slice{St: st, Len: st.N, Cap: st.N}
		},
		"vDelta": func(e *Exec, c *frame, fn *ssa.Function, a []Value) Value {
			x, y := a[0].(Slice), a[1].(Slice)
			ox, oy := x.Off, y.Off
			if ox.W == 0 {
				ox = i64zero
			}
			if oy.W == 0 {
				oy = i64zero
			}
			return sym.Sub(oy, ox)
		},
		"vAliasBytes": func(e *Exec, c *frame, fn *ssa.Function, a []Value) Value {
			// do two byte views share any cell?
			x, y := a[0].(Slice), a[1].(Slice)
			if x.St == nil || x.St != y.St {
				return sym.Bool(false)
			}
			nx, ny := e.ConcInt(x.Len), e.ConcInt(y.Len)
			return sym.Bool(e.o(x) < e.o(y)+ny && e.o(y) < e.o(x)+nx)
		},
		"vAllocLimits": func(e *Exec, c *frame, fn *ssa.Function, a []Value) Value {
			// arm the allocation-size obligations (C04): from now on every
			// make([]byte, n) must satisfy n <= a[0] and every other make an
			// element count <= a[1], for all inputs (one query per site).
			byteLimit, countLimit := a[0].(sym.Sc), a[1].(sym.Sc)
			e.allocHook = func(instr *ssa.MakeSlice, elem types.Type, n sym.Sc) {
				if e.replaying() {
					return
				}
				p := e.M.Prog.Fset.Position(instr.Pos())
				label := fmt.Sprintf("alloc-bounded@%s:%d", shortFile(p.Filename), p.Line)
				lim := countLimit
				if b, ok := under(elem).(*types.Basic); ok && b.Kind() == types.Uint8 {
					lim = byteLimit
				}
				// first the gross violation (more than 64 Mi elements: a
				// counterexample the native replay can measure), then the exact bound
				if !n.K {
					e.Assert(label, e.norm(sym.Or(sym.Sle(n, lim), sym.Sle(n, sym.Const(n.W, 1<<26)))), "", sym.Bool(false))
				}
				e.Assert(label, e.norm(sym.Sle(n, lim)), "", sym.Bool(false))
			}
			return nil
		},
		"vAllocLimit": func(e *Exec, c *frame, fn *ssa.Function, a []Value) Value {
			limit := a[0].(sym.Sc)
			e.allocHook = func(instr *ssa.MakeSlice, elem types.Type, n sym.Sc) {
				if e.replaying() {
					return
				}
				sz := e.M.sizeof(elem)
				p := e.M.Prog.Fset.Position(instr.Pos())
				label := fmt.Sprintf("alloc-bounded@%s:%d", shortFile(p.Filename), p.Line)
				e.Assert(label, e.norm(sym.Sle(sym.Mul(n, i64(sz)), limit)), "", sym.Bool(false))
			}
			return nil
		},
	}

	registerEventVocab()

	models = map[string]Intrinsic{
		// ---- sync / atomic: sequential semantics ----
		"(*sync.Mutex).Lock":      lockModel(+1),
		"(*sync.Mutex).Unlock":    lockModel(-1),
		"(*sync.Mutex).TryLock":   func(e *Exec, c *frame, fn *ssa.Function, a []Value) Value { return sym.Bool(true) },
		"(*sync.RWMutex).Lock":    lockModel(+1),
		"(*sync.RWMutex).Unlock":  lockModel(-1),
		"(*sync.RWMutex).RLock":   lockModel(+1),
		"(*sync.RWMutex).RUnlock": lockModel(-1),
		"(*sync.WaitGroup).Add": func(e *Exec, c *frame, fn *ssa.Function, a []Value) Value {
			p := a[0].(*Value)
			e.wgCount(p, int(a[1].(sym.Sc).Signed()))
			return nil
		},
		"(*sync.WaitGroup).Done": func(e *Exec, c *frame, fn *ssa.Function, a []Value) Value {
			e.wgCount(a[0].(*Value), -1)
			return nil
		},
		"(*sync.WaitGroup).Wait": func(e *Exec, c *frame, fn *ssa.Function, a []Value) Value {
			if e.locks[a[0].(*Value)] != 0 {
				if e.goDepth > 0 {
					panic(goBlocked{}) // an inlined goroutine (footprint mode) is left waiting
				}
				e.unsupported("WaitGroup.Wait would block in a sequential harness")
			}
			return nil
		},
		"(*sync.Once).Do": func(e *Exec, c *frame, fn *ssa.Function, a []Value) Value {
			p := a[0].(*Value)
			if e.locks[p] == 0 {
				e.locks[p] = 1
				e.CallValue(a[1])
			}
			return nil
		},
		"(*sync/atomic.Bool).Load": func(e *Exec, c *frame, fn *ssa.Function, a []Value) Value {
			f := e.fieldPtr(a[0].(*Value), "v")
			e.noteAtomic(f)
			return sym.Not(sym.Eq((*f).(sym.Sc), sym.Const(32, 0)))
		},
		"(*sync/atomic.Bool).Store": func(e *Exec, c *frame, fn *ssa.Function, a []Value) Value {
			f := e.fieldPtr(a[0].(*Value), "v")
			e.noteAtomic(f)
			*f = sym.Ite(a[1].(sym.Sc), sym.Const(32, 1), sym.Const(32, 0))
			return nil
		},

		// ---- bytes ----
		"bytes.IndexByte":                modelIndexByte,
		"internal/bytealg.IndexByte":     modelIndexByte,
		"internal/bytealg.IndexByteString": modelIndexByte,
		"strings.IndexByte":              modelIndexByte,
		"internal/bytealg.Equal": func(e *Exec, c *frame, fn *ssa.Function, a []Value) Value {
			return e.stringEq(a[0].(Slice), a[1].(Slice))
		},
		"internal/bytealg.MakeNoZero": func(e *Exec, c *frame, fn *ssa.Function, a []Value) Value {
			n := a[0].(sym.Sc)
			st := e.newStore(byteT, n)
			return Slice{St: st, Len: n, Cap: n}
		},

		"internal/stringslite.Clone": func(e *Exec, c *frame, fn *ssa.Function, a []Value) Value {
			return e.copyBytes(a[0].(Slice), false)
		},
		"strings.Clone": func(e *Exec, c *frame, fn *ssa.Function, a []Value) Value {
			return e.copyBytes(a[0].(Slice), false)
		},
		// ---- the clock: an arbitrary fixed instant (deadlines and timestamps have
		// no effect on the models of the transport) ----
		"time.Sleep": func(e *Exec, c *frame, fn *ssa.Function, a []Value) Value { return nil },
		"time.Now": func(e *Exec, c *frame, fn *ssa.Function, a []Value) Value {
			t := zero(e.M.namedType("time", "Time")).(Struct)
			t[0] = sym.Const(64, 1<<63|1<<30) // hasMonotonic, some seconds
			t[1] = sym.Const(64, 1000)
			return t
		},
		// ---- runtime diagnostics: opaque text (logging has no protocol effect) ----
		"runtime/debug.Stack": func(e *Exec, c *frame, fn *ssa.Function, a []Value) Value {
			return e.copyBytes(litString("goroutine 1 [running]:\n"), false)
		},
		"runtime/debug.PrintStack": func(e *Exec, c *frame, fn *ssa.Function, a []Value) Value { return nil },
		"runtime.Stack": func(e *Exec, c *frame, fn *ssa.Function, a []Value) Value {
			return i64zero
		},
		// ---- strings / strconv ----
		"strings.TrimSpace": modelTrimSpace,
		"unicode/utf8.ValidString": modelValidUTF8,
		"strings.ToValidUTF8":      modelToValidUTF8,
		"strings.ToLower":   func(e *Exec, c *frame, fn *ssa.Function, a []Value) Value { return modelCaseMap(e, a, true) },
		"strings.ToUpper":   func(e *Exec, c *frame, fn *ssa.Function, a []Value) Value { return modelCaseMap(e, a, false) },
		"strconv.Itoa":      modelItoa,
		"strconv.Atoi":      modelAtoi,

		// ---- fmt / errors / reflect ----
		"fmt.Errorf":     modelErrorf,
		"fmt.Sprintf":    modelSprintf,
		"fmt.Fprintf":    modelFprintf,
		"errors.Is":      modelErrorsIs,
		"errors.As":      modelErrorsAs,
		"reflect.TypeOf": func(e *Exec, c *frame, fn *ssa.Function, a []Value) Value {
			itf := a[0].(Iface)
			if itf.T == nil {
				return Iface{}
			}
			return Iface{T: e.M.rtypeT(), V: RType{itf.T}}
		},

		// ---- context ----
		"context.WithValue":          modelWithValue,
		"context.WithCancel":         modelWithCancel,
		// deadlines never expire by themselves in the model (time does not pass):
		// WithTimeout/WithDeadline are WithCancel
		"context.WithTimeout":        modelWithCancel,
		"context.WithDeadline":       modelWithCancel,
		"(*context.cancelCtx).Err":   modelCancelErr,
		"(*context.cancelCtx).Done":  func(e *Exec, c *frame, fn *ssa.Function, a []Value) Value { e.unsupported("ctx.Done"); return nil },
		"context.Cause":              func(e *Exec, c *frame, fn *ssa.Function, a []Value) Value { e.unsupported("context.Cause"); return nil },

		// ---- maps ----
		"maps.clone": modelMapsClone,

		// ---- regexp (only the QueryParameters pattern) ----
		"regexp.MustCompile":                        modelRegexpCompile,
		"(*regexp.Regexp).FindAllStringSubmatch":    modelFindAllStringSubmatch,

		// ---- pgx type map: documented contract only ----
		"github.com/jackc/pgx/v5/pgtype.NewMap":              modelPgNewMap,
		"(*github.com/jackc/pgx/v5/pgtype.Map).Encode":       modelPgEncode,
		"(*github.com/jackc/pgx/v5/pgtype.Map).TypeForOID":   modelPgTypeForOID,
		"(*github.com/jackc/pgx/v5/pgtype.Map).PlanEncode":   modelPgPlanEncode,
		"(*github.com/jackc/pgx/v5/pgtype.Map).RegisterType": modelPgRegisterType,

		// ---- crypto/tls ----
		"crypto/tls.Server": modelTLSServer,
	}
}

func lockModel(d int) Intrinsic {
	return func(e *Exec, c *frame, fn *ssa.Function, a []Value) Value {
		p := a[0].(*Value)
		if p == nil {
			e.goPanic("nil mutex")
		}
		e.locks[p] += d
		if d > 0 && e.locks[p] > 1 && !strings.Contains(fn.Name(), "RLock") {
			// the only thread of a sequential harness locks a mutex it already
			// holds: it blocks for good. Reported like non-termination: a
			// violation if (and only if) the native run does not terminate either.
			e.abort("budget", "self-deadlock: mutex already held at %s", e.where())
		}
		if e.locks[p] < 0 {
			panic(targetPanic{Iface{T: e.M.runtimeErrT, V: litString("sync: unlock of unlocked mutex")}})
		}
		if e.foot != nil {
			e.foot.lock(p, d)
		}
		return nil
	}
}

func (e *Exec) wgCount(p *Value, d int) {
	e.locks[p] += d
	if e.locks[p] < 0 {
		panic(targetPanic{Iface{T: e.M.runtimeErrT, V: litString("sync: negative WaitGroup counter")}})
	}
}

// fieldPtr returns the address of a field of the few modelled std structs.
func (e *Exec) fieldPtr(p *Value, name string) *Value {
	if p == nil {
		e.goPanic("invalid memory address or nil pointer dereference")
	}
	s := (*p).(Struct)
	switch name {
	case "v": // sync/atomic.Bool{_ noCopy; v uint32}
		return &s[1]
	}
	e.unsupported("fieldPtr %s", name)
	return nil
}

func (m *Machine) sizeof(t types.Type) int {
	sz := types.SizesFor("gc", "amd64").Sizeof(t)
	if sz <= 0 {
		return 1
	}
	return int(sz)
}

func (m *Machine) rtypeT() types.Type {
	if p := m.Pkgs["reflect"]; p != nil {
		if t := p.Type("rtype"); t != nil {
			return types.NewPointer(t.Object().Type())
		}
	}
	return types.Typ[types.UnsafePointer]
}

func (m *Machine) namedType(pkg, name string) types.Type {
	p := m.Pkgs[pkg]
	if p == nil {
		return nil
	}
	t := p.Type(name)
	if t == nil {
		return nil
	}
	return t.Object().Type()
}

// globalModel supplies values for a few globals of packages whose
// initialiser is not executed.
func (m *Machine) globalModel(e *Exec, g *ssa.Global) (Value, bool) {
	switch g.Pkg.Pkg.Path() + "." + g.Name() {
	case "context.Canceled":
		return e.newErrorString("context canceled"), true
	case "context.DeadlineExceeded":
		return e.newErrorString("context deadline exceeded"), true
	case "net.ErrClosed":
		return e.newErrorString("use of closed network connection"), true
	case "bufio.ErrNegativeCount", "bufio.errNegativeRead":
		return e.newErrorString("bufio: negative count"), true
	case "bufio.ErrBufferFull":
		return e.newErrorString("bufio: buffer full"), true
	case "bufio.ErrInvalidUnreadByte":
		return e.newErrorString("bufio: invalid use of UnreadByte"), true
	case "bytes.ErrTooLarge":
		return e.newErrorString("bytes.Buffer: too large"), true
	case "bytes.errNegativeRead":
		return e.newErrorString("bytes.Buffer: reader returned negative count from Read"), true
	case "bytes.errUnreadByte":
		return e.newErrorString("bytes.Buffer: UnreadByte: previous operation was not a successful read"), true
	case "os.ErrDeadlineExceeded", "internal/poll.ErrDeadlineExceeded":
		// one shared *poll.DeadlineExceededError (Error, Timeout, Temporary)
		if e.deadlineErr == nil {
			t := e.M.namedType("internal/poll", "DeadlineExceededError")
			p := new(Value)
			*p = Struct{}
			v := Iface{T: types.NewPointer(t), V: p}
			e.deadlineErr = &v
		}
		return *e.deadlineErr, true
	case "time.localLoc":
		return zero(deref(g.Type())), true
	case "time.utcLoc":
		v := zero(deref(g.Type())).(Struct)
		v[0] = litString("UTC")
		return v, true
	case "time.Local":
		if lg, ok := g.Pkg.Members["localLoc"].(*ssa.Global); ok {
			return e.global(lg), true
		}
	case "time.UTC":
		if ug, ok := g.Pkg.Members["utcLoc"].(*ssa.Global); ok {
			return e.global(ug), true
		}
	case "strconv.ErrRange":
		return e.newErrorString("value out of range"), true
	case "strconv.ErrSyntax":
		return e.newErrorString("invalid syntax"), true
	}
	return nil, false
}

func (e *Exec) newErrorString(msg string) Iface {
	t := e.M.namedType("errors", "errorString")
	p := new(Value)
	*p = Struct{litString(msg)}
	return Iface{T: types.NewPointer(t), V: p}
}

// ---- bytes.IndexByte: first index of c, or -1 ----

func modelIndexByte(e *Exec, c *frame, fn *ssa.Function, a []Value) Value {
	s := a[0].(Slice)
	b := a[1].(sym.Sc)
	n := e.ConcInt(s.Len)
	for i := 0; i < n; i++ {
		if e.Branch(sym.Eq(s.St.peek(e.o(s)+i).(sym.Sc), b)) {
			return i64(i)
		}
	}
	return i64(-1)
}

// ---- strings.ToLower / ToUpper: ASCII strings only (a string with a byte
// >= 0x80 is outside the model: unsupported) ----

func modelCaseMap(e *Exec, a []Value, lower bool) Value {
	s := a[0].(Slice)
	n := e.ConcInt(s.Len)
	if n == 0 {
		return s
	}
	nonASCII := sym.Bool(false)
	for i := 0; i < n; i++ {
		nonASCII = sym.Or(nonASCII, sym.Ule(sym.Const(8, 0x80), s.St.peek(e.o(s)+i).(sym.Sc)))
	}
	if e.Branch(e.norm(nonASCII)) {
		e.unsupported("strings.ToLower/ToUpper of a string with a non-ASCII byte")
	}
	lo, hi, delta := byte('A'), byte('Z'), uint64(32)
	if !lower {
		lo, hi, delta = 'a', 'z', uint64(256-32)
	}
	st := e.newStore(byteT, i64(n))
	for i := 0; i < n; i++ {
		b := s.St.peek(e.o(s) + i).(sym.Sc)
		in := sym.And(sym.Ule(sym.Const(8, uint64(lo)), b), sym.Ule(b, sym.Const(8, uint64(hi))))
		*st.cell(i) = e.norm(sym.Ite(in, sym.Add(b, sym.Const(8, delta)), b))
	}
	return Slice{St: st, Len: st.N, Cap: st.N}
}

// ---- utf8.ValidString / strings.ToValidUTF8 on symbolic strings: exact for
// ASCII strings of any length and for strings of one or two bytes; longer
// strings with a byte >= 0x80 are outside the model (unsupported) ----

func (e *Exec) utf8Shape(s Slice) (n int, ascii bool) {
	n = e.ConcInt(s.Len)
	non := sym.Bool(false)
	for i := 0; i < n; i++ {
		non = sym.Or(non, sym.Ule(sym.Const(8, 0x80), s.St.peek(e.o(s)+i).(sym.Sc)))
	}
	return n, !e.Branch(e.norm(non))
}

// validPair: b0 b1 is one well-formed two-byte sequence (C2..DF 80..BF)
func validPair(b0, b1 sym.Sc) sym.Sc {
	return sym.And(sym.And(sym.Ule(sym.Const(8, 0xC2), b0), sym.Ule(b0, sym.Const(8, 0xDF))),
		sym.And(sym.Ule(sym.Const(8, 0x80), b1), sym.Ule(b1, sym.Const(8, 0xBF))))
}

func modelValidUTF8(e *Exec, c *frame, fn *ssa.Function, a []Value) Value {
	s := a[0].(Slice)
	n, ascii := e.utf8Shape(s)
	if ascii {
		return sym.Bool(true)
	}
	switch n {
	case 1:
		return sym.Bool(false)
	case 2:
		return e.norm(validPair(s.St.peek(e.o(s)).(sym.Sc), s.St.peek(e.o(s)+1).(sym.Sc)))
	}
	e.unsupported("utf8.ValidString of a non-ASCII string longer than two bytes")
	return nil
}

func modelToValidUTF8(e *Exec, c *frame, fn *ssa.Function, a []Value) Value {
	s, repl := a[0].(Slice), a[1].(Slice)
	n, ascii := e.utf8Shape(s)
	if ascii {
		return s
	}
	hi := func(b sym.Sc) bool { return e.Branch(e.norm(sym.Ule(sym.Const(8, 0x80), b))) }
	one := func(b sym.Sc) Slice {
		st := e.newStore(byteT, i64(1))
		*st.cell(0) = b
		return Slice{St: st, Len: st.N, Cap: st.N}
	}
	empty := Slice{Len: i64zero, Cap: i64zero}
	switch n {
	case 1:
		return e.appendBytes(empty, repl)
	case 2:
		b0, b1 := s.St.peek(e.o(s)).(sym.Sc), s.St.peek(e.o(s)+1).(sym.Sc)
		if e.Branch(e.norm(validPair(b0, b1))) {
			return s
		}
		h0, h1 := hi(b0), hi(b1)
		switch {
		case h0 && h1: // a run of invalid bytes is replaced once
			return e.appendBytes(empty, repl)
		case h0:
			return e.appendBytes(e.appendBytes(empty, repl), one(b1))
		default:
			return e.appendBytes(e.appendBytes(empty, one(b0)), repl)
		}
	}
	e.unsupported("strings.ToValidUTF8 of a non-ASCII string longer than two bytes")
	return nil
}

// ---- strings.TrimSpace: ASCII white space only (bytes >= 0x80 are kept;
// Unicode spaces are outside every claim) ----

func modelTrimSpace(e *Exec, c *frame, fn *ssa.Function, a []Value) Value {
	s := a[0].(Slice)
	n := e.ConcInt(s.Len)
	isSpace := func(b sym.Sc) sym.Sc {
		r := sym.Bool(false)
		for _, ch := range []byte{' ', '\t', '\n', '\v', '\f', '\r'} {
			r = sym.Or(r, sym.Eq(b, sym.Const(8, uint64(ch))))
		}
		return e.norm(r)
	}
	lo, hi := 0, n
	for lo < hi && e.Branch(isSpace(s.St.peek(e.o(s)+lo).(sym.Sc))) {
		lo++
	}
	for hi > lo && e.Branch(isSpace(s.St.peek(e.o(s)+hi-1).(sym.Sc))) {
		hi--
	}
	if lo == hi {
		return Slice{Len: i64zero, Cap: i64zero}
	}
	return Slice{St: s.St, Off: i64(e.o(s) + lo), Len: i64(hi - lo), Cap: i64(hi - lo)}
}

func modelItoa(e *Exec, c *frame, fn *ssa.Function, a []Value) Value {
	v := a[0].(sym.Sc)
	if v.K {
		return litString(strconv.Itoa(int(v.Signed())))
	}
	// decimal rendering of a symbolic value: digits for 0..99999
	if !e.Branch(sym.And(sym.Sle(i64zero, v), sym.Slt(v, i64(100000)))) {
		e.unsupported("strconv.Itoa of a symbolic value outside 0..99999")
	}
	return e.decimal(v)
}

// decimal renders 0 <= v < 100000 as decimal digits. The digits are fresh
// symbols tied to v by v = sum d_i*10^i with 0 <= d_i <= 9 (the decimal
// representation is unique, so this relational model is exact); it avoids
// division by constants, which bit-blasting solvers handle badly.
func (e *Exec) decimal(v sym.Sc) Slice {
	nd := 1
	for _, lim := range []int{10, 100, 1000, 10000} {
		if e.Branch(sym.Slt(v, i64(lim))) {
			break
		}
		nd++
	}
	v32 := sym.Trunc(v, 32)
	st := e.newStore(byteT, i64(nd))
	pow := []uint64{1, 10, 100, 1000, 10000}
	sum := sym.Const(32, 0)
	for i := 0; i < nd; i++ {
		d := e.Internal(8, "digit")
		e.S.Emit("(assert " + sym.Ule(d, sym.Const(8, 9)).Term() + ")")
		sum = sym.Add(sum, sym.Mul(sym.ZeroExt(d, 32), sym.Const(32, pow[nd-1-i])))
		*st.cell(i) = e.norm(sym.Add(d, sym.Const(8, '0')))
	}
	e.S.Emit("(assert " + sym.Eq(v32, sum).Term() + ")")
	return Slice{St: st, Len: st.N, Cap: st.N}
}

// strconv.Atoi: exact for strings of up to 18 characters (no overflow
// possible); longer digit strings yield MaxInt64/MinInt64 with a range error
// as the real function does, modelled for all-digit input only.
func modelAtoi(e *Exec, c *frame, fn *ssa.Function, a []Value) Value {
	s := a[0].(Slice)
	n := e.ConcInt(s.Len)
	synErr := e.newErrorString("strconv.Atoi: parsing: invalid syntax")
	if n == 0 {
		return Tuple{i64zero, synErr}
	}
	i := 0
	neg := false
	first := s.St.peek(e.o(s)).(sym.Sc)
	if e.Branch(sym.Eq(first, sym.Const(8, '-'))) {
		neg, i = true, 1
	} else if e.Branch(sym.Eq(first, sym.Const(8, '+'))) {
		i = 1
	}
	if i == n {
		return Tuple{i64zero, synErr}
	}
	// leading zeros do not count towards the magnitude
	for i < n-1 && e.Branch(sym.Eq(s.St.peek(e.o(s)+i).(sym.Sc), sym.Const(8, '0'))) {
		i++
	}
	if n-i > 18 {
		// all digits? then saturate
		for j := i; j < n; j++ {
			b := s.St.peek(e.o(s) + j).(sym.Sc)
			if !e.Branch(sym.And(sym.Ule(sym.Const(8, '0'), b), sym.Ule(b, sym.Const(8, '9')))) {
				return Tuple{i64zero, synErr}
			}
		}
		if n-i > 19 {
			v := sym.Const(64, uint64(1<<63-1))
			if neg {
				v = sym.Const(64, uint64(1<<63))
			}
			return Tuple{v, e.newErrorString("strconv.Atoi: parsing: value out of range")}
		}
		// exactly 19 digits: overflow iff the digit string is above MaxInt64
		// (MinInt64 when negative); equal lengths make this a lexicographic test
		limit := "9223372036854775807"
		if neg {
			limit = "9223372036854775808"
		}
		digits := Slice{St: s.St, Off: i64(e.o(s) + i), Len: i64(19), Cap: i64(19)}
		if e.Branch(e.stringLess(token.GTR, digits, litString(limit))) {
			v := sym.Const(64, uint64(1<<63-1))
			if neg {
				v = sym.Const(64, uint64(1<<63))
			}
			return Tuple{v, e.newErrorString("strconv.Atoi: parsing: value out of range")}
		}
	}
	acc := i64zero
	for j := i; j < n; j++ {
		b := s.St.peek(e.o(s) + j).(sym.Sc)
		if !e.Branch(sym.And(sym.Ule(sym.Const(8, '0'), b), sym.Ule(b, sym.Const(8, '9')))) {
			return Tuple{i64zero, synErr}
		}
		d := sym.ZeroExt(sym.Sub(b, sym.Const(8, '0')), 64)
		acc = e.norm(sym.Add(sym.Mul(acc, i64(10)), d))
	}
	if neg {
		acc = sym.Neg(acc)
	}
	return Tuple{acc, Iface{}}
}

// ---- fmt ----

// render formats like fmt for the verbs the code under test uses. Numbers
// that are symbolic are rendered as "?" (numeric text of messages is outside
// every claim); %s/%v of strings, errors and Stringers are exact.
func (e *Exec) render(format string, args []Value) (Slice, []Value) {
	out := Slice{Len: i64zero, Cap: i64zero}
	var wrapped []Value
	emit := func(s Slice) { out = e.concat(out, s) }
	ai := 0
	lit := strings.Builder{}
	flush := func() {
		if lit.Len() > 0 {
			emit(litString(lit.String()))
			lit.Reset()
		}
	}
	for i := 0; i < len(format); i++ {
		ch := format[i]
		if ch != '%' {
			lit.WriteByte(ch)
			continue
		}
		i++
		if i >= len(format) {
			lit.WriteString("%!(NOVERB)")
			break
		}
		// skip flags/width
		for i < len(format) && strings.IndexByte("+-# 0123456789.", format[i]) >= 0 {
			i++
		}
		verb := format[i]
		if verb == '%' {
			lit.WriteByte('%')
			continue
		}
		flush()
		if ai >= len(args) {
			emit(litString("%!" + string(verb) + "(MISSING)"))
			continue
		}
		arg := args[ai]
		ai++
		if verb == 'w' {
			wrapped = append(wrapped, arg)
		}
		emit(e.renderArg(verb, arg))
	}
	flush()
	return out, wrapped
}

func (e *Exec) renderArg(verb byte, arg Value) Slice {
	itf, ok := arg.(Iface)
	if !ok {
		return litString("?")
	}
	if itf.T == nil {
		if verb == 'd' {
			return litString("%!d(<nil>)")
		}
		return litString("%!" + string(verb) + "(<nil>)")
	}
	// error / Stringer first for %s %v %w
	if verb == 's' || verb == 'v' || verb == 'w' || verb == 'q' {
		if m := e.methodByName(itf.T, "Error"); m != nil && isErrorSig(m) {
			return e.CallValue(m, itf.V).(Slice)
		}
		if m := e.methodByName(itf.T, "String"); m != nil && isErrorSig(m) {
			return e.CallValue(m, itf.V).(Slice)
		}
	}
	switch v := itf.V.(type) {
	case Slice:
		if isString(itf.T) {
			return v
		}
		if sl, ok := under(itf.T).(*types.Slice); ok {
			if b, ok := under(sl.Elem()).(*types.Basic); ok && b.Kind() == types.Uint8 && verb == 's' {
				return v
			}
		}
		return litString("?")
	case sym.Sc:
		if v.W == 0 {
			if v.K {
				return litString(strconv.FormatBool(v.V != 0))
			}
			return litString("?")
		}
		if verb == 'c' {
			// the character with that code point, UTF-8 encoded
			if v.K {
				return litString(string(rune(v.V)))
			}
			if v.W == 8 {
				strT := types.Typ[types.String]
				if e.Branch(sym.Ult(v, sym.Const(8, 0x80))) {
					st := e.newStore(strT, i64(1))
					*st.cell(0) = v
					return Slice{St: st, Off: i64zero, Len: i64(1), Cap: i64(1)}
				}
				st := e.newStore(strT, i64(2))
				*st.cell(0) = sym.BvOr(sym.Const(8, 0xC0), sym.Lshr(v, sym.Const(8, 6)))
				*st.cell(1) = sym.BvOr(sym.Const(8, 0x80), sym.BvAnd(v, sym.Const(8, 0x3F)))
				return Slice{St: st, Off: i64zero, Len: i64(2), Cap: i64(2)}
			}
			return litString("?")
		}
		if v.K && (verb == 'd' || verb == 'v') {
			_, signed, _ := width(itf.T)
			if signed {
				return litString(strconv.FormatInt(v.Signed(), 10))
			}
			return litString(strconv.FormatUint(v.V, 10))
		}
		return litString("?")
	}
	return litString("?")
}

func isErrorSig(f *ssa.Function) bool {
	sig := f.Signature
	return sig.Params().Len() == 0 && sig.Results().Len() == 1 && isString(sig.Results().At(0).Type())
}

func (e *Exec) methodByName(t types.Type, name string) *ssa.Function {
	ms := e.M.Prog.MethodSets.MethodSet(t)
	for i := 0; i < ms.Len(); i++ {
		sel := ms.At(i)
		if sel.Obj().Name() == name && sel.Obj().Exported() {
			return e.M.Prog.MethodValue(sel)
		}
	}
	return nil
}

func (e *Exec) variadic(v Value) []Value {
	s := v.(Slice)
	n := e.ConcInt(s.Len)
	out := make([]Value, n)
	for i := range out {
		out[i] = s.St.peek(e.o(s) + i)
	}
	return out
}

func modelSprintf(e *Exec, c *frame, fn *ssa.Function, a []Value) Value {
	format, ok := e.concreteString(a[0].(Slice))
	if !ok {
		e.unsupported("fmt.Sprintf with symbolic format")
	}
	s, _ := e.render(format, e.variadic(a[1]))
	return s
}

// Fprintf / Fprint-family: render like Sprintf, then hand the bytes to the
// writer's own Write method (whatever that writer is: the transport, a frame).
func modelFprintf(e *Exec, c *frame, fn *ssa.Function, a []Value) Value {
	w := a[0].(Iface)
	if w.T == nil {
		e.goPanic("invalid memory address or nil pointer dereference")
	}
	format, ok := e.concreteString(a[1].(Slice))
	if !ok {
		e.unsupported("fmt.Fprintf with symbolic format")
	}
	s, _ := e.render(format, e.variadic(a[2]))
	m := e.methodByName(w.T, "Write")
	if m == nil {
		e.unsupported("fmt.Fprintf: %v has no Write method", w.T)
	}
	bytes := e.copyBytes(s, true)
	return e.CallValue(m, w.V, bytes)
}

func modelErrorf(e *Exec, c *frame, fn *ssa.Function, a []Value) Value {
	format, ok := e.concreteString(a[0].(Slice))
	if !ok {
		e.unsupported("fmt.Errorf with symbolic format")
	}
	msg, wrapped := e.render(format, e.variadic(a[1]))
	switch len(wrapped) {
	case 0:
		t := e.M.namedType("errors", "errorString")
		p := new(Value)
		*p = Struct{msg}
		return Iface{T: types.NewPointer(t), V: p}
	case 1:
		t := e.M.namedType("fmt", "wrapError")
		p := new(Value)
		w := wrapped[0].(Iface)
		// a %w operand that is not an error yields a nil err field
		if w.T != nil {
			if m := e.methodByName(w.T, "Error"); m == nil {
				w = Iface{}
			}
		}
		*p = Struct{msg, w}
		return Iface{T: types.NewPointer(t), V: p}
	}
	e.unsupported("fmt.Errorf with several %%w")
	return nil
}

// ---- errors.Is / errors.As ----

func (e *Exec) unwrapErr(err Iface) (Iface, bool) {
	if err.T == nil {
		return Iface{}, false
	}
	m := e.methodByName(err.T, "Unwrap")
	if m == nil {
		return Iface{}, false
	}
	res := m.Signature.Results()
	if m.Signature.Params().Len() != 0 || res.Len() != 1 {
		return Iface{}, false
	}
	if _, isSlice := under(res.At(0).Type()).(*types.Slice); isSlice {
		return Iface{}, false // a joined error: see unwrapMulti
	}
	r := e.CallValue(m, err.V).(Iface)
	return r, true
}

// unwrapMulti: the errors a value with Unwrap() []error (errors.Join, fmt.Errorf
// with several %w) wraps; errors.Is / errors.As descend into each in order.
func (e *Exec) unwrapMulti(err Iface) ([]Iface, bool) {
	if err.T == nil {
		return nil, false
	}
	m := e.methodByName(err.T, "Unwrap")
	if m == nil || m.Signature.Params().Len() != 0 || m.Signature.Results().Len() != 1 {
		return nil, false
	}
	if _, isSlice := under(m.Signature.Results().At(0).Type()).(*types.Slice); !isSlice {
		return nil, false
	}
	s := e.CallValue(m, err.V).(Slice)
	n := e.ConcInt(s.Len)
	out := make([]Iface, 0, n)
	for i := 0; i < n; i++ {
		if el, ok := s.St.peek(e.o(s) + i).(Iface); ok {
			out = append(out, el)
		}
	}
	return out, true
}

func modelErrorsIs(e *Exec, c *frame, fn *ssa.Function, a []Value) Value {
	err, target := a[0].(Iface), a[1].(Iface)
	if err.T == nil || target.T == nil {
		return sym.Bool(err.T == nil && target.T == nil)
	}
	return sym.Bool(e.errIs(err, target))
}

func (e *Exec) errIs(err, target Iface) bool {
	comparable := types.Comparable(target.T)
	for {
		if comparable && types.Identical(err.T, target.T) {
			if e.Branch(e.valueEq(err.T, err.V, target.V)) {
				return true
			}
		}
		if m := e.methodByName(err.T, "Is"); m != nil && m.Signature.Params().Len() == 1 {
			if e.Branch(e.CallValue(m, err.V, target).(sym.Sc)) {
				return true
			}
		}
		if many, ok := e.unwrapMulti(err); ok {
			for _, child := range many {
				if child.T != nil && e.errIs(child, target) {
					return true
				}
			}
			return false
		}
		next, ok := e.unwrapErr(err)
		if !ok || next.T == nil {
			return false
		}
		err = next
	}
}

func modelErrorsAs(e *Exec, c *frame, fn *ssa.Function, a []Value) Value {
	err, target := a[0].(Iface), a[1].(Iface)
	if target.T == nil {
		panic(targetPanic{litString("errors: target cannot be nil")})
	}
	pt, ok := under(target.T).(*types.Pointer)
	tp := target.V.(*Value)
	if !ok || tp == nil {
		panic(targetPanic{litString("errors: target must be a non-nil pointer")})
	}
	return sym.Bool(e.errAs(err, target, pt.Elem(), tp))
}

func (e *Exec) errAs(err, target Iface, want types.Type, tp *Value) bool {
	for err.T != nil {
		if it, isI := under(want).(*types.Interface); isI {
			if types.Implements(err.T, it) {
				*tp = err
				return true
			}
		} else if types.Identical(err.T, want) {
			*tp = copyVal(err.V)
			return true
		}
		if m := e.methodByName(err.T, "As"); m != nil && m.Signature.Params().Len() == 1 {
			if e.Branch(e.CallValue(m, err.V, target).(sym.Sc)) {
				return true
			}
		}
		if many, ok := e.unwrapMulti(err); ok {
			for _, child := range many {
				if e.errAs(child, target, want, tp) {
					return true
				}
			}
			return false
		}
		next, ok := e.unwrapErr(err)
		if !ok {
			break
		}
		err = next
	}
	return false
}

// ---- context ----

func modelWithValue(e *Exec, c *frame, fn *ssa.Function, a []Value) Value {
	parent := a[0].(Iface)
	if parent.T == nil {
		panic(targetPanic{litString("cannot create context from nil parent")})
	}
	t := e.M.namedType("context", "valueCtx")
	p := new(Value)
	*p = Struct{parent, a[1], a[2]}
	return Iface{T: types.NewPointer(t), V: p}
}

func modelWithCancel(e *Exec, c *frame, fn *ssa.Function, a []Value) Value {
	parent := a[0].(Iface)
	if parent.T == nil {
		panic(targetPanic{litString("cannot create context from nil parent")})
	}
	t := e.M.namedType("context", "cancelCtx")
	s := zero(t).(Struct)
	s[0] = parent
	p := new(Value)
	*p = s
	errIdx := structFieldIndex(t, "err")
	cancel := &Native{Name: "context.cancel", Fn: func(e *Exec, _ []Value) Value {
		st := (*p).(Struct)
		if st[errIdx].(Iface).T == nil {
			st[errIdx] = *e.global(e.M.Pkgs["context"].Var("Canceled"))
		}
		return nil
	}}
	return Tuple{Iface{T: types.NewPointer(t), V: p}, cancel}
}

func structFieldIndex(t types.Type, name string) int {
	st := under(t).(*types.Struct)
	for i := 0; i < st.NumFields(); i++ {
		if st.Field(i).Name() == name {
			return i
		}
	}
	panic("no field " + name + " in " + t.String())
}

// (*cancelCtx).Err: own error, else the error of the nearest cancelled
// ancestor (cancellation propagates to children).
func modelCancelErr(e *Exec, c *frame, fn *ssa.Function, a []Value) Value {
	ct := e.M.namedType("context", "cancelCtx")
	vt := e.M.namedType("context", "valueCtx")
	errIdx := structFieldIndex(ct, "err")
	p := a[0].(*Value)
	for p != nil {
		st := (*p).(Struct)
		if er := st[errIdx].(Iface); er.T != nil {
			return er
		}
		// climb
		parent := st[0].(Iface)
		p = nil
		for parent.T != nil {
			pp, isPtr := parent.T.(*types.Pointer)
			if !isPtr {
				break
			}
			if types.Identical(pp.Elem(), ct) {
				p = parent.V.(*Value)
				break
			}
			if types.Identical(pp.Elem(), vt) {
				parent = (*parent.V.(*Value)).(Struct)[0].(Iface)
				continue
			}
			break
		}
	}
	return Iface{}
}

// ---- maps.Clone ----

func modelMapsClone(e *Exec, c *frame, fn *ssa.Function, a []Value) Value {
	var m *Map
	switch x := a[0].(type) {
	case *Map:
		m = x
	case Iface:
		m, _ = x.V.(*Map)
	}
	if m == nil {
		return (*Map)(nil)
	}
	e.storeSeq++
	n := &Map{keyT: m.keyT, elemT: m.elemT, ID: e.storeSeq}
	for _, en := range m.entries {
		if e.foot != nil {
			e.foot.read(en.v)
		}
		p := new(Value)
		*p = copyVal(*en.v)
		n.entries = append(n.entries, &mapEntry{k: en.k, v: p})
	}
	if fn.Signature.Results().Len() == 1 {
		if _, isI := under(fn.Signature.Results().At(0).Type()).(*types.Interface); isI {
			return Iface{T: a[0].(Iface).T, V: n}
		}
	}
	return n
}

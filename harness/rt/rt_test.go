package PKGNAME

import (
	"fmt"
	"os"
	"testing"
)

// TestVerifReplay runs one harness natively on the input vector named by
// VERIF_VECTOR. Output protocol (parsed by gosym):
//   VERIF-FAIL <label>   a vAssert failed
//   VERIF-REACH <tag>    a witness point was reached
//   VERIF-PRUNED <why>   an assumption did not hold for this vector
//   VERIF-DONE           the harness ran to completion
// An escaping Go panic fails the test in the ordinary way ("panic:" in output).
func TestVerifReplay(t *testing.T) {
	path := os.Getenv("VERIF_VECTOR")
	if path == "" {
		t.Skip("VERIF_VECTOR not set")
	}
	if err := vLoadVector(path); err != nil {
		t.Fatalf("vector: %v", err)
	}
	fn := vHarnesses[vVec.Entry]
	if fn == nil {
		t.Fatalf("VERIF-NOHARNESS %s", vVec.Entry)
	}
	func() {
		defer func() {
			r := recover()
			switch r := r.(type) {
			case nil:
				fmt.Println("VERIF-DONE")
			case vPruned:
				fmt.Printf("VERIF-PRUNED %s\n", r.why)
			case vFailed:
				t.Errorf("assertion %s failed", r.label)
			default:
				fmt.Printf("VERIF-PANIC %v\n", r)
				panic(r)
			}
		}()
		fn()
	}()
}

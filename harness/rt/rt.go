package PKGNAME

// Harness vocabulary, native side. In symbolic mode the engine intercepts
// these functions by name and never executes their bodies; natively they
// read the input vector produced from a solver model, so the identical
// harness source replays a counterexample against the real build.

import (
	"encoding/json"
	"fmt"
	"os"
	"runtime"
	"strings"
	"sync"
	"time"
	"unsafe"
)

type vVector struct {
	Entry  string         `json:"entry"`
	Pkg    string         `json:"pkg"`
	Params map[string]int `json:"params"`
	Label  string         `json:"label"`
	Kind   string         `json:"kind"`
	Values []uint64       `json:"values"`
	Known  []string       `json:"known"`
	Schedule []vSchedStep `json:"schedule"`
}

type vPruned struct{ why string }
type vFailed struct{ label string }

var (
	vVec      vVector
	vPos      int
	vReached  = map[string]bool{}
	vFailures []string
)

func vLoadVector(path string) error {
	data, err := os.ReadFile(path)
	if err != nil {
		return err
	}
	vVec = vVector{}
	vPos = 0
	vReached = map[string]bool{}
	vFailures = nil
	return json.Unmarshal(data, &vVec)
}

func vNext() uint64 {
	if vPos >= len(vVec.Values) {
		panic(vPruned{"input vector exhausted"})
	}
	v := vVec.Values[vPos]
	vPos++
	return v
}

func nondetByte() byte  { return byte(vNext()) }
func nondetU16() uint16 { return uint16(vNext()) }
func nondetU32() uint32 { return uint32(vNext()) }
func nondetU64() uint64 { return vNext() }
func nondetInt() int    { return int(int64(vNext())) }
func nondetBool() bool  { return vNext() != 0 }

func nondetBytes(n int) []byte {
	b := make([]byte, n)
	for i := range b {
		b[i] = byte(vNext())
	}
	return b
}

func vChoose(n int) int {
	v := int(int64(vNext()))
	if v < 0 || v >= n {
		panic(vPruned{"vChoose out of range"})
	}
	return v
}

func vAssume(c bool) {
	if !c {
		panic(vPruned{"assumption false"})
	}
}

func vAssert(label string, c bool) {
	if !c {
		vFailures = append(vFailures, label)
		fmt.Printf("VERIF-FAIL %s\n", label)
		panic(vFailed{label})
	}
}

func vAssertK(label, kf string, carve, c bool) { vAssert(label, c) }

func vReach(tag string) {
	if !vReached[tag] {
		vReached[tag] = true
		fmt.Printf("VERIF-REACH %s\n", tag)
	}
}

func vParam(name string, def int) int {
	if v, ok := vVec.Params[name]; ok {
		return v
	}
	return def
}

func vAnd(a, b bool) bool     { return a && b }
func vOr(a, b bool) bool      { return a || b }
func vNot(a bool) bool        { return !a }
func vImplies(a, b bool) bool { return !a || b }
func vIteInt(c bool, a, b int) int {
	if c {
		return a
	}
	return b
}
func vIteByte(c bool, a, b byte) byte {
	if c {
		return a
	}
	return b
}
func vEqBytes(a, b []byte) bool { return string(a) == string(b) }
func vEqStr(a, b string) bool   { return a == b }
func vNoNUL(b []byte) bool {
	for _, c := range b {
		if c == 0 {
			return false
		}
	}
	return true
}
func vNoNULStr(s string) bool    { return vNoNUL([]byte(s)) }
func vKnownOpen(id string) bool {
	for _, k := range vVec.Known {
		if k == id {
			return true
		}
	}
	return false
}
func vSymbolic() bool            { return false }
func vConc(x int) int            { return x }
func vConcByte(x byte) byte      { return x }
func vStop()                     { panic(vPruned{"vStop"}) }
func vOrigin(tag string)         {}
func vFootBegin()                {}
func vFootReport(label, kf string) {}
func vAllocLimit(limit int)      {}
// vSameObject: do the two views lie in the same allocation? (native: address
// range test on the first view's full capacity)
func vSameObject(a, b []byte) bool {
	pa, pb := uintptr(unsafe.Pointer(unsafe.SliceData(a))), uintptr(unsafe.Pointer(unsafe.SliceData(b)))
	if pa == 0 || pb == 0 {
		return false
	}
	return pb >= pa && pb <= pa+uintptr(cap(a))
}

// vDelta: element offset of b relative to a inside one allocation.
func vDelta(a, b []byte) int {
	return int(uintptr(unsafe.Pointer(unsafe.SliceData(b))) - uintptr(unsafe.Pointer(unsafe.SliceData(a))))
}
func vAliasBytes(a, b []byte) bool {
	for i := range a {
		for j := range b {
			if &a[i] == &b[j] {
				return true
			}
		}
	}
	return false
}

// vEncodeFormats: the format codes handed to the type map's Encode so far
// (observable only in the encoding; natively the real pgx codecs run).
func vEncodeFormats() []int { return nil }
// vAllocLimits / vAllocCheck, native side: the engine decides the allocation
// obligations per make site for all inputs; natively a counterexample is
// confirmed by measuring what handling the message really allocated.
var vAllocBase uint64
var vAllocBudget uint64

func vAllocLimits(bytes, count int) {
	var ms runtime.MemStats
	runtime.ReadMemStats(&ms)
	vAllocBase = ms.TotalAlloc
	budget := uint64(bytes)
	if c := uint64(count) * 64; c > budget {
		budget = c
	}
	vAllocBudget = 4*budget + 8<<20 // generous slack for bookkeeping allocations
}

func vAllocCheck() {
	if vAllocBudget == 0 {
		return
	}
	var ms runtime.MemStats
	runtime.ReadMemStats(&ms)
	if ms.TotalAlloc-vAllocBase > vAllocBudget {
		vFailures = append(vFailures, "alloc-bounded")
		fmt.Printf("VERIF-FAIL alloc-bounded allocated=%d budget=%d\n", ms.TotalAlloc-vAllocBase, vAllocBudget)
		panic(vFailed{"alloc-bounded"})
	}
}

// vRaceMode: native replay of a footprint counterexample under the race detector.
func vRaceMode() bool { return os.Getenv("VERIF_RACE") != "" }

// vStackDepth: frames of the library under test (not the harness, not the
// standard library) on the calling goroutine's stack, inlined calls included.
func vStackDepth() int {
	pcs := make([]uintptr, 512)
	n := runtime.Callers(1, pcs)
	frames := runtime.CallersFrames(pcs[:n])
	depth := 0
	for {
		f, more := frames.Next()
		if strings.HasPrefix(f.Function, "github.com/jeroenrinzema/psql-wire") && !strings.Contains(f.File, "zz_verif_") {
			depth++
		}
		if !more {
			break
		}
	}
	return depth
}

// vPause lets goroutines started just before run (native replays only; it
// creates no happens-before edge). Symbolically a no-op.
func vPause() { time.Sleep(30 * time.Millisecond) }

// ---- C16 events: natively these are schedule points (see zz_verif sched) ----
var vEventHook func(name string)

// vStall: the calling thread blocks for good (a client that stops sending in
// the middle of a message). Natively the goroutine really blocks; the replay
// driver is told first so that it counts the thread as having nothing more to
// do. Symbolically (event mode) the thread's path ends here.
var vOnStall func()

func vStall() {
	vMark("stalled") // the schedule step that corresponds to the symbolic mark
	if vOnStall != nil {
		vOnStall()
	}
	select {}
}

func vEventBegin(srv any) {}
func vEventEnd()          {}
func vMark(name string) {
	if vEventHook != nil {
		vEventHook(name)
	}
	vSchedMark(name)
}

// ---------------------------------------------------------------------------
// Native schedule controller (C16 replay). The instrumented build calls
// vSchedPoint() before every visible synchronisation operation; harness
// marks call it through vMark. The controller releases threads in the order
// of the solver's schedule: a thread runs from one point to its next.
// ---------------------------------------------------------------------------

type vSchedStep struct {
	Thread string `json:"thread"`
	Op     string `json:"op"`
	Obj    string `json:"obj"`
}

type vController struct {
	mu       sync.Mutex
	order    []vSchedStep
	pos      int
	waiting  map[string]chan struct{}
	names    map[int64]string
	freeRun  bool
	unknown  string // name given to the one goroutine the library itself starts
	trace    []string
	running  int
	closeRet bool
	busy      string
	busySince time.Time
	finished  map[string]bool
}

var vCtl *vController

func vGoid() int64 {
	var buf [64]byte
	n := runtime.Stack(buf[:], false)
	// "goroutine 123 [running]:"
	var id int64
	for _, c := range buf[10:n] {
		if c < '0' || c > '9' {
			break
		}
		id = id*10 + int64(c-'0')
	}
	return id
}

func (c *vController) register(name string) {
	c.mu.Lock()
	c.names[vGoid()] = name
	c.mu.Unlock()
}

func (c *vController) me() string {
	id := vGoid()
	if n, ok := c.names[id]; ok {
		return n
	}
	// a goroutine the library started itself: named after the registered
	// goroutine that created it ("serve/Serve$1", "serve2/Serve$1")
	parent := "serve"
	buf := make([]byte, 1<<16)
	st := string(buf[:runtime.Stack(buf, false)])
	if i := strings.LastIndex(st, " in goroutine "); i >= 0 {
		var pid int64
		for _, ch := range st[i+len(" in goroutine "):] {
			if ch < '0' || ch > '9' {
				break
			}
			pid = pid*10 + int64(ch-'0')
		}
		if pn, ok := c.names[pid]; ok {
			parent = pn
		}
	}
	c.names[id] = parent + c.unknown
	return parent + c.unknown
}

// tryRelease lets the next scheduled thread go if it is waiting, but only
// once the previously released thread has completed its operation (it has
// arrived at its next point, has finished, or has been silent for 100 ms,
// i.e. it is blocked for real or gone). Caller holds mu.
func (c *vController) tryRelease() {
	if c.freeRun {
		for n, ch := range c.waiting {
			close(ch)
			delete(c.waiting, n)
		}
		return
	}
	if c.pos >= len(c.order) {
		c.freeRun = true
		c.tryRelease()
		return
	}
	if c.busy != "" {
		if _, arrived := c.waiting[c.busy]; !arrived && !c.finished[c.busy] && time.Since(c.busySince) < 100*time.Millisecond {
			return
		}
		c.busy = ""
	}
	next := c.order[c.pos].Thread
	if ch, ok := c.waiting[next]; ok {
		c.pos++
		c.trace = append(c.trace, next)
		delete(c.waiting, next)
		c.busy, c.busySince = next, time.Now()
		close(ch)
	}
}

// pump keeps the schedule moving when no thread arrives (threads that ended).
func (c *vController) pump(stop chan struct{}) {
	t := time.NewTicker(5 * time.Millisecond)
	defer t.Stop()
	for {
		select {
		case <-stop:
			return
		case <-t.C:
			c.mu.Lock()
			c.tryRelease()
			c.mu.Unlock()
		}
	}
}

func (c *vController) finish(name string) {
	c.mu.Lock()
	c.finished[name] = true
	c.tryRelease()
	c.mu.Unlock()
}

func (c *vController) point() {
	c.mu.Lock()
	name := c.me()
	ch := make(chan struct{})
	c.waiting[name] = ch
	c.tryRelease()
	c.mu.Unlock()
	select {
	case <-ch:
	case <-time.After(2 * time.Second):
		// the schedule cannot be followed (a thread is blocked for real):
		// fall back to free running so that the test terminates
		c.mu.Lock()
		c.freeRun = true
		c.trace = append(c.trace, "TIMEOUT:"+name)
		c.tryRelease()
		c.mu.Unlock()
	}
}

func vSchedPoint() {
	if vCtl != nil {
		vCtl.point()
	}
}

func vSchedMark(name string) {
	c := vCtl
	if c == nil || name == "read_message" {
		return
	}
	c.point()
	c.mu.Lock()
	defer c.mu.Unlock()
	switch name {
	case "handler_start":
		if c.closeRet {
			fmt.Println("VERIF-FAIL b-no-handler-after-close-returned")
			vFailures = append(vFailures, "b-no-handler-after-close-returned")
		}
		c.running++
	case "handler_end":
		c.running--
	case "close_returned":
		c.closeRet = true
		if c.running > 0 {
			fmt.Println("VERIF-FAIL c-close-returns-only-after-handlers")
			vFailures = append(vFailures, "c-close-returns-only-after-handlers")
		}
	case "serve_err":
		fmt.Println("VERIF-FAIL d-serve-returns-nil")
		vFailures = append(vFailures, "d-serve-returns-nil")
	}
}

package PKGNAME

// Harness vocabulary, native side. In symbolic mode the engine intercepts
// these functions by name and never executes their bodies; natively they
// read the input vector produced from a solver model, so the identical
// harness source replays a counterexample against the real build.

import (
	"encoding/json"
	"fmt"
	"os"
	"unsafe"
)

type vVector struct {
	Entry  string         `json:"entry"`
	Pkg    string         `json:"pkg"`
	Params map[string]int `json:"params"`
	Label  string         `json:"label"`
	Kind   string         `json:"kind"`
	Values []uint64       `json:"values"`
	Known  []string       `json:"known"`
}

type vPruned struct{ why string }
type vFailed struct{ label string }

var (
	vVec      vVector
	vPos      int
	vReached  = map[string]bool{}
	vFailures []string
)

func vLoadVector(path string) error {
	data, err := os.ReadFile(path)
	if err != nil {
		return err
	}
	vVec = vVector{}
	vPos = 0
	vReached = map[string]bool{}
	vFailures = nil
	return json.Unmarshal(data, &vVec)
}

func vNext() uint64 {
	if vPos >= len(vVec.Values) {
		panic(vPruned{"input vector exhausted"})
	}
	v := vVec.Values[vPos]
	vPos++
	return v
}

func nondetByte() byte  { return byte(vNext()) }
func nondetU16() uint16 { return uint16(vNext()) }
func nondetU32() uint32 { return uint32(vNext()) }
func nondetU64() uint64 { return vNext() }
func nondetInt() int    { return int(int64(vNext())) }
func nondetBool() bool  { return vNext() != 0 }

func nondetBytes(n int) []byte {
	b := make([]byte, n)
	for i := range b {
		b[i] = byte(vNext())
	}
	return b
}

func vChoose(n int) int {
	v := int(int64(vNext()))
	if v < 0 || v >= n {
		panic(vPruned{"vChoose out of range"})
	}
	return v
}

func vAssume(c bool) {
	if !c {
		panic(vPruned{"assumption false"})
	}
}

func vAssert(label string, c bool) {
	if !c {
		vFailures = append(vFailures, label)
		fmt.Printf("VERIF-FAIL %s\n", label)
		panic(vFailed{label})
	}
}

func vAssertK(label, kf string, carve, c bool) { vAssert(label, c) }

func vReach(tag string) {
	if !vReached[tag] {
		vReached[tag] = true
		fmt.Printf("VERIF-REACH %s\n", tag)
	}
}

func vParam(name string, def int) int {
	if v, ok := vVec.Params[name]; ok {
		return v
	}
	return def
}

func vAnd(a, b bool) bool     { return a && b }
func vOr(a, b bool) bool      { return a || b }
func vNot(a bool) bool        { return !a }
func vImplies(a, b bool) bool { return !a || b }
func vIteInt(c bool, a, b int) int {
	if c {
		return a
	}
	return b
}
func vIteByte(c bool, a, b byte) byte {
	if c {
		return a
	}
	return b
}
func vEqBytes(a, b []byte) bool { return string(a) == string(b) }
func vEqStr(a, b string) bool   { return a == b }
func vNoNUL(b []byte) bool {
	for _, c := range b {
		if c == 0 {
			return false
		}
	}
	return true
}
func vNoNULStr(s string) bool    { return vNoNUL([]byte(s)) }
func vKnownOpen(id string) bool {
	for _, k := range vVec.Known {
		if k == id {
			return true
		}
	}
	return false
}
func vSymbolic() bool            { return false }
func vConc(x int) int            { return x }
func vConcByte(x byte) byte      { return x }
func vStop()                     { panic(vPruned{"vStop"}) }
func vOrigin(tag string)         {}
func vFootBegin()                {}
func vFootReport(label, kf string) {}
func vAllocLimit(limit int)      {}
// vSameObject: do the two views lie in the same allocation? (native: address
// range test on the first view's full capacity)
func vSameObject(a, b []byte) bool {
	pa, pb := uintptr(unsafe.Pointer(unsafe.SliceData(a))), uintptr(unsafe.Pointer(unsafe.SliceData(b)))
	if pa == 0 || pb == 0 {
		return false
	}
	return pb >= pa && pb <= pa+uintptr(cap(a))
}

// vDelta: element offset of b relative to a inside one allocation.
func vDelta(a, b []byte) int {
	return int(uintptr(unsafe.Pointer(unsafe.SliceData(b))) - uintptr(unsafe.Pointer(unsafe.SliceData(a))))
}
func vAliasBytes(a, b []byte) bool {
	for i := range a {
		for j := range b {
			if &a[i] == &b[j] {
				return true
			}
		}
	}
	return false
}

// vEncodeFormats: the format codes handed to the type map's Encode so far
// (observable only in the encoding; natively the real pgx codecs run).
func vEncodeFormats() []int { return nil }
func vAllocLimits(bytes, count int) {}

// vRaceMode: native replay of a footprint counterexample under the race detector.
func vRaceMode() bool { return os.Getenv("VERIF_RACE") != "" }

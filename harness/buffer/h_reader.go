package buffer

import (
	"errors"
	"io"

	"github.com/jeroenrinzema/psql-wire/pkg/types"
)

func vErrIsExceeded(err error) bool { return errors.Is(err, ErrMessageSizeExceeded) }

// ---------------------------------------------------------------------------
// H03b — message field accessors (C03, accessor clause; also C04 no-panic)
//
// For every message body of at most N bytes and every sequence of CALLS
// accessor calls with non-negative sizes: no panic (every slice/index
// obligation is a solver-decided branch inside the engine), results equal an
// independent cursor over a private copy of the body, and on short or
// unterminated data an error is returned and the window is unchanged.
// ---------------------------------------------------------------------------
func VerifH03b() {
	n := vChoose(vParam("N", 6) + 1)
	body := nondetBytes(n)
	orig := make([]byte, len(body))
	copy(orig, body)
	rd := &Reader{Msg: body, MaxMessageSize: 64}
	pos := 0
	calls := vParam("CALLS", 3)
	for k := 0; k < calls; k++ {
		rest := len(orig) - pos
		switch vChoose(5) {
		case 0:
			v, err := rd.GetUint16()
			if rest < 2 {
				vAssert("u16-short-is-error", err != nil)
			} else {
				vAssert("u16-ok", err == nil)
				vAssert("u16-value", v == uint16(orig[pos])<<8|uint16(orig[pos+1]))
				pos += 2
			}
		case 1:
			v, err := rd.GetUint32()
			if rest < 4 {
				vAssert("u32-short-is-error", err != nil)
			} else {
				vAssert("u32-ok", err == nil)
				want := uint32(orig[pos])<<24 | uint32(orig[pos+1])<<16 | uint32(orig[pos+2])<<8 | uint32(orig[pos+3])
				vAssert("u32-value", v == want)
				pos += 4
				vReach("u32-read")
			}
		case 2:
			want := vChoose(rest + 3) // any non-negative size, up to beyond the data
			v, err := rd.GetBytes(want)
			if want > rest {
				vAssert("bytes-short-is-error", err != nil)
				vAssert("bytes-short-nil", v == nil)
			} else {
				vAssert("bytes-ok", err == nil)
				vAssert("bytes-len", len(v) == want)
				vAssert("bytes-value", vEqBytes(v, orig[pos:pos+want]))
				pos += want
			}
		case 3:
			s, err := rd.GetString()
			// independent search for the terminator
			idx := -1
			for i := pos; i < len(orig); i++ {
				if orig[i] == 0 {
					idx = i
					break
				}
			}
			if idx < 0 {
				vAssert("string-unterminated-is-error", err != nil)
			} else {
				vAssert("string-ok", err == nil)
				vAssert("string-value", vEqStr(s, string(orig[pos:idx])))
				pos = idx + 1
				vReach("string-read")
			}
		case 4:
			t, err := rd.GetPrepareType()
			if rest < 1 {
				vAssert("ptype-short-is-error", err != nil)
			} else {
				vAssert("ptype-ok", err == nil)
				vAssert("ptype-value", byte(t) == orig[pos])
				pos++
			}
		}
		// the window is always exactly the unread remainder: on error unchanged,
		// on success advanced by exactly the field
		vAssert("window-is-remainder", vEqBytes(rd.Msg, orig[pos:]))
	}
}

// vStream is the transport model: a byte string delivered with
// nondeterministic short reads, ending in EOF, or failing from the
// FailAt-th Read call on.
type vStream struct {
	data   []byte
	pos    int
	reads  int
	failAt int // <0: never
	short  bool
	maxReq int
}

var errVerifIO = io.ErrClosedPipe

func (s *vStream) Read(p []byte) (int, error) {
	s.reads++
	if s.failAt >= 0 && s.reads > s.failAt {
		return 0, errVerifIO
	}
	avail := len(s.data) - s.pos
	if len(p) > s.maxReq {
		s.maxReq = len(p)
	}
	if len(p) == 0 {
		return 0, nil
	}
	if avail == 0 {
		return 0, io.EOF
	}
	max := len(p)
	if avail < max {
		max = avail
	}
	n := max
	if s.short {
		n = 1 + vChoose(max)
	}
	copy(p, s.data[s.pos:s.pos+n])
	s.pos += n
	return n, nil
}

func (s *vStream) ReadByte() (byte, error) {
	var b [1]byte
	for {
		n, err := s.Read(b[:])
		if n == 1 {
			return b[0], nil
		}
		if err != nil {
			return 0, err
		}
	}
}

func (s *vStream) ReadString(delim byte) (string, error) { panic("vStream.ReadString is not used") }

// ---------------------------------------------------------------------------
// H03a — framing equals the reference, for every segmentation (C03)
//
// Stream of at most 5+N symbolic bytes then EOF, symbolic short-read counts,
// symbolic pre-state of the reader (leftover Msg of 0..2 bytes). ReadTypedMsg
// must behave as ref(stream): same type, Msg = exactly the declared body,
// stream consumed = 1+4+declared; io.EOF exactly when the stream is empty,
// some error when it ends inside a message. ref mentions neither the
// segmentation nor the leftover, so equality for all of them is independence.
// ---------------------------------------------------------------------------
func VerifH03a() {
	N := vParam("N", 4)
	L := vParam("L", 8) - vChoose(3) // the limit varies too (L-2..L)
	total := vChoose(5 + N + 1)
	data := nondetBytes(total)
	st := &vStream{data: data, failAt: -1, short: true}
	rd := &Reader{Buffer: st, MaxMessageSize: L}
	// arbitrary leftover from an earlier message
	lo := vChoose(3)
	if lo > 0 {
		rd.Msg = nondetBytes(lo)
	}
	typ, n, err := rd.ReadTypedMsg()

	// reference
	if total == 0 {
		vAssert("eof-on-boundary", err == io.EOF)
		vReach("eof")
		return
	}
	if total < 5 {
		vAssert("truncated-header-is-error", err != nil)
		return
	}
	declared := uint32(data[1])<<24 | uint32(data[2])<<16 | uint32(data[3])<<8 | uint32(data[4])
	size := int(int32(declared)) - 4 // what a 64-bit reader computes is int(declared)-4; both agree below 2^31
	if declared >= 1<<31 {
		size = int(declared) - 4
	}
	if size < 0 || size > L {
		vAssert("out-of-range-is-error", err != nil)
		_, is := UnwrapMessageSizeExceeded(err)
		vAssert("out-of-range-is-size-exceeded", is)
		vAssert("out-of-range-reads-header-only", st.pos == 5)
		vReach("size-exceeded")
		return
	}
	if total-5 < size {
		vAssert("truncated-body-is-error", err != nil)
		vReach("truncated-body")
		return
	}
	vAssert("ok", err == nil)
	vAssert("type", byte(typ) == data[0])
	vAssert("n", n == 4+size)
	vAssert("body", vEqBytes(rd.Msg, data[5:5+size]))
	vAssert("consumed-exactly", st.pos == 5+size)
	if size > 0 {
		vReach("body-read")
	}
}

// ---------------------------------------------------------------------------
// H10d — NewReader's limit for every configured size (C10): a non-positive
// setting means the 16 MiB default.
// ---------------------------------------------------------------------------
func VerifH10d() {
	b := nondetInt()
	st := &vStream{failAt: -1}
	rd := NewReader(nil, st, b)
	vAssert("reader-non-nil", rd != nil)
	if b <= 0 {
		vAssert("default-limit", rd.MaxMessageSize == 1<<24)
		vReach("default")
	} else {
		vAssert("configured-limit", rd.MaxMessageSize == b)
		vReach("configured")
	}
}

// ---------------------------------------------------------------------------
// H10a — the limit arithmetic over the full range (C10). L is any value in
// 1..2^31-1 and the declared length any 32-bit value: one solver query per
// assertion, no enumeration. Size-exceeded is reported iff declared-4 > L or
// declared < 4; on that path nothing beyond the 4 header bytes was read and
// nothing was allocated, and the error carries (size, L); otherwise
// (continued under declared-4 <= N) the body is read in full.
// ---------------------------------------------------------------------------
func VerifH10a() {
	N := vParam("N", 3)
	L := nondetInt()
	vAssume(vAnd(L >= 1, L <= 1<<31-1))
	hdr := nondetBytes(4)
	body := nondetBytes(N)
	data := make([]byte, 0, 4+N)
	data = append(data, hdr...)
	data = append(data, body...)
	// TYPED=1: the same through ReadTypedMsg (a symbolic type byte in front),
	// the entry point of every message inside a session
	typed := vParam("TYPED", 0) == 1
	hlen := 4
	var typ byte
	if typed {
		typ = nondetByte()
		data = append([]byte{typ}, data...)
		hlen = 5
	}
	st := &vStream{data: data, failAt: -1}
	rd := &Reader{Buffer: st, MaxMessageSize: L}
	var n int
	var err error
	if typed {
		var got types.ClientMessage
		got, n, err = rd.ReadTypedMsg()
		if err == nil {
			vAssert("typed-type-byte", byte(got) == typ)
		}
	} else {
		n, err = rd.ReadUntypedMsg()
	}

	declared := uint32(hdr[0])<<24 | uint32(hdr[1])<<16 | uint32(hdr[2])<<8 | uint32(hdr[3])
	size := int(declared) - 4
	if vOr(size > L, declared < 4) {
		vAssert("exceeded-is-error", err != nil)
		ex, is := UnwrapMessageSizeExceeded(err)
		vAssert("exceeded-kind", is)
		vAssert("exceeded-carries-size", ex.Size == size)
		vAssert("exceeded-carries-limit", ex.Max == L)
		vAssert("exceeded-header-only", st.pos == hlen)
		vAssert("exceeded-no-buffer", cap(rd.Msg) == 0)
		vAssert("exceeded-matches-sentinel", vErrIsExceeded(err))
		if declared < 4 {
			vReach("below-minimum")
		} else {
			vReach("above-limit")
		}
		return
	}
	vAssume(size <= N)
	vAssert("in-range-ok", err == nil)
	vAssert("in-range-n", n == 4+size)
	vAssert("in-range-len", len(rd.Msg) == size)
	vAssert("in-range-body", vEqBytes(rd.Msg, body[:size]))
	vAssert("in-range-consumed", st.pos == hlen+size)
	if size == L {
		vReach("exactly-at-limit")
	}
}

// ---------------------------------------------------------------------------
// H10b — skipping (C10): Slurp(size) consumes exactly size bytes in chunks
// of at most L, for every L in 1..LMAX, every size in 0..3L+2 and every
// segmentation; a stream that ends early is an error.
// ---------------------------------------------------------------------------
func VerifH10b() {
	LMAX := vParam("LMAX", 3)
	L := 1 + vChoose(LMAX)
	size := vChoose(3*L + 3)
	avail := vChoose(3*LMAX + 4)
	data := nondetBytes(avail)
	st := &vStream{data: data, failAt: -1, short: true}
	rd := &Reader{Buffer: st, MaxMessageSize: L}
	err := rd.Slurp(size)
	if avail >= size {
		vAssert("slurp-ok", err == nil)
		vAssert("slurp-consumes-exactly", st.pos == size)
		if size > 2*L {
			vReach("multi-chunk")
		}
	} else {
		vAssert("slurp-short-is-error", err != nil)
		vReach("short-stream")
	}
	vAssert("slurp-chunks-within-limit", st.maxReq <= L)
}

// ---------------------------------------------------------------------------
// H18a — one inductive step on the message window (C18), over the full
// range: for an arbitrary current window (any offset, length, capacity up to
// 2^31) and any requested size, after reset the new window either lies in
// the same array entirely behind the old window and inside the old capacity,
// or it is a fresh array of len=size, cap=max(size,4096). Bytes exposed
// through the old window are therefore never inside a later window.
// ---------------------------------------------------------------------------
func VerifH18a() {
	off := nondetInt()
	l := nondetInt()
	c := nondetInt()
	size := nondetInt()
	const M = 1 << 31
	vAssume(vAnd(vAnd(off >= 0, off <= M), vAnd(l >= 0, l <= c)))
	vAssume(vAnd(c <= M, vAnd(size >= 0, size <= M)))
	isNil := nondetBool()
	rd := &Reader{MaxMessageSize: M}
	var old []byte
	if !isNil {
		arr := make([]byte, off+c)
		old = arr[off : off+l : off+c]
		rd.Msg = old
	}
	rd.reset(size)
	nw := rd.Msg
	vAssert("len-is-size", len(nw) == size)
	if vSameObject(old, nw) {
		d := vDelta(old, nw)
		vAssert("reuse-starts-behind-old-window", d >= len(old))
		vAssert("reuse-stays-inside-old-capacity", d+cap(nw) <= cap(old))
		if size > 0 {
			vReach("reused")
		}
	} else {
		// fresh allocation (or the nil/zero-size corner where nothing is exposed)
		if size > 0 {
			want := size
			if want < 4096 {
				want = 4096
			}
			vAssert("fresh-cap", cap(nw) == want)
			vReach("fresh")
		}
	}
}

// ---------------------------------------------------------------------------
// H18k — K successive message windows never overlap (C18), whatever state the
// reader keeps between messages: from a fresh reader, K resets with symbolic
// sizes (0..SMAX, so both sides of the 4 KiB granule) interleaved with
// symbolic consumption of the current window (what the field accessors do).
// Every window handed out so far stays disjoint from every later one. H18a
// proves one step from an arbitrary *window*; this unrolling also covers
// reader state that H18a does not know about.
// ---------------------------------------------------------------------------
func VerifH18k() {
	K := vParam("K", 5)
	SMAX := vParam("SMAX", 9000)
	rd := &Reader{MaxMessageSize: 1 << 24}
	var wins [][]byte
	for k := 0; k < K; k++ {
		size := nondetInt()
		vAssume(vAnd(size >= 0, size <= SMAX))
		rd.reset(size)
		nw := rd.Msg
		vAssert("len-is-size", len(nw) == size)
		for _, w := range wins {
			if vSameObject(w, nw) {
				d := vDelta(w, nw)
				vAssert("later-window-disjoint-from-earlier", vOr(len(nw) == 0, vOr(d >= len(w), d+len(nw) <= 0)))
				vReach("same-array-reused")
			}
		}
		if size > 0 {
			wins = append(wins, nw)
		}
		// the handler consumes some of the window front to back
		c := nondetInt()
		vAssume(vAnd(c >= 0, c <= size))
		rd.Msg = rd.Msg[c:]
		if size >= 4096 {
			vReach("large-window")
		}
	}
}

package wire

import (
	"log/slog"

	"github.com/jeroenrinzema/psql-wire/pkg/buffer"
	"github.com/jeroenrinzema/psql-wire/pkg/types"
	"github.com/lib/pq/oid"
)

// ---------------------------------------------------------------------------
// H02a — framing kernel (C02): arbitrary operation sequences on one
// buffer.Writer, with the transport failing from a symbolic Write call on.
// The bytes that reached the transport are exactly the concatenation of
// type|be32(4+len(body))|body for every frame whose End succeeded; an
// abandoned or failed frame contributes nothing to later frames.
// ---------------------------------------------------------------------------
func VerifH02a() {
	OPS := vParam("OPS", 5)
	conn := vNewConn(nil)
	conn.failWriteAt = vChoose(3) - 1 // -1 never, 0 from the first, 1 from the second
	// BIG=1: the fault may also be transient — exactly ONE Write call fails, the
	// calls before and after it succeed — and a frame may carry a large payload
	// (4096 bytes and one symbolic byte)
	big := vParam("BIG", 0) == 1
	if big && nondetBool() {
		conn.failWriteAt = -1
		conn.failWriteOnly = 1 + vChoose(4)
		vReach("transient-write-failure")
	}
	w := buffer.NewWriter(slog.Default(), conn)
	var want []byte
	var cur []byte
	var typ byte
	started := false
	delivered := 0
	for k := 0; k < OPS; k++ {
		op := vChoose(8)
		if !started {
			op = 0
		}
		switch op {
		case 0: // Start (also: abandon the frame in progress)
			typ = nondetByte()
			w.Start(types.ServerMessage(typ))
			cur = cur[:0]
			if started {
				vReach("abandoned-frame")
			}
			started = true
		case 1:
			b := nondetByte()
			w.AddByte(b)
			cur = append(cur, b)
		case 2:
			v := nondetU16()
			w.AddInt16(int16(v))
			cur = append(cur, byte(v>>8), byte(v))
		case 3:
			v := nondetU32()
			w.AddInt32(int32(v))
			cur = append(cur, byte(v>>24), byte(v>>16), byte(v>>8), byte(v))
		case 4:
			b := nondetBytes(vChoose(3))
			if big && len(b) == 1 && nondetBool() {
				large := make([]byte, 4097)
				for i := range large {
					large[i] = 'x'
				}
				large[4096] = b[0]
				b = large
				vReach("large-payload")
			}
			w.AddBytes(b)
			cur = append(cur, b...)
		case 5:
			b := nondetBytes(vChoose(3))
			w.AddString(string(b))
			cur = append(cur, b...)
		case 6:
			w.AddNullTerminate()
			cur = append(cur, 0)
		case 7: // End
			failedBefore := conn.failedWrites
			err := w.End()
			// (black box: however many Write calls one End makes, it fails iff one
			// of them did, and a failed End has put nothing on the wire)
			fails := conn.failedWrites > failedBefore
			if fails {
				vAssert("failed-write-is-error", err != nil)
				vReach("failed-write")
			} else {
				vAssert("end-ok", err == nil)
				l := len(cur) + 4
				want = append(want, typ, byte(l>>24), byte(l>>16), byte(l>>8), byte(l))
				want = append(want, cur...)
				delivered++
			}
			started = false
			cur = cur[:0]
		}
	}
	vAssert("transport-sees-exactly-the-completed-frames", vEqBytes(conn.out, want))
	if delivered >= 2 {
		vReach("two-frames")
	}
}

// ---------------------------------------------------------------------------
// H05a — the result writer as a state machine, one inductive step (C05).
// Pre-state symbolic: closed (bool), written (any uint64), 0..2 columns.
// One operation chosen by the solver. Because the pre-state is arbitrary the
// step covers operation sequences of any length.
// ---------------------------------------------------------------------------
func VerifH05a() {
	srv, _ := NewServer(nil)
	ctx := vCtx(srv)
	nc := vChoose(3)
	var columns Columns
	if nc > 0 {
		columns = make(Columns, nc)
		for i := range columns {
			columns[i] = Column{Name: "c", Oid: oid.T_text}
		}
	}
	conn := vNewConn(nil)
	// the transport may reject the write: a row (or a completion) that did not
	// reach the client was not delivered
	transportDown := nondetBool()
	if transportDown {
		conn.failWriteAt = 0
	}
	// ... or refuses exactly one write (the first) and accepts the ones after
	// it: what was refused was not delivered, and is not delivered later either
	transient := !transportDown && nondetBool()
	if transient {
		conn.failWriteOnly = 1
		transportDown = true // (for the operation itself the transport is down)
	}
	w := buffer.NewWriter(slog.Default(), conn)
	rd := buffer.NewReader(slog.Default(), conn, 64)
	preClosed := nondetBool()
	preWritten := nondetU64()
	dw := &dataWriter{ctx: ctx, columns: columns, client: w, reader: rd, closed: preClosed, written: preWritten}

	op := vChoose(7)
	switch op {
	case 0, 1, 2: // Row: right arity / wrong arity / unencodable value
		n := nc
		if op == 1 {
			n = nc + 1
		}
		vals := make([]any, n)
		for i := range vals {
			vals[i] = "v"
		}
		if op == 2 {
			vAssume(nc > 0)
			vals[0] = vUnencodable{1}
		}
		err := dw.Row(vals)
		switch {
		case preClosed:
			vAssert("row-on-closed-fails", err != nil)
			vAssert("row-on-closed-emits-nothing", len(conn.out) == 0)
			vAssert("row-on-closed-counter", dw.Written() == preWritten)
		case op == 0 && transportDown:
			vAssert("undelivered-row-is-error", err != nil)
			vAssert("undelivered-row-not-counted", dw.Written() == preWritten)
			vReach("row-write-failed")
		case op == 0:
			vAssert("row-ok", err == nil)
			vAssert("row-emits-one-datarow", vTypes(conn.out) == "D" && vWireOK(conn.out))
			vAssert("row-counts-one", dw.Written() == preWritten+1)
			vReach("row-delivered")
		default:
			vAssert("rejected-row-is-error", err != nil)
			vAssert("rejected-row-emits-nothing", len(conn.out) == 0)
			vAssertK("rejected-row-not-counted", "KF-C05-1", true, dw.Written() == preWritten)
			vReach("row-rejected")
		}
		vAssert("row-does-not-close", dw.closed == preClosed)
	case 3: // Complete
		tag := vSymText(2)
		if nondetBool() {
			// a command tag as handlers really write them, with or without a count
			tag = [][]byte{[]byte("SELECT"), []byte("SELECT 2"), []byte("FETCH"), []byte("INSERT 0 1"), []byte("UPDATE"), []byte("COPY 3"), []byte("OK")}[vChoose(7)]
			vReach("real-command-tag")
		} else if nondetBool() {
			// a long command tag: lengths around 64, 128, 256 and 4096
			n := vLongLens[vChoose(len(vLongLens))]
			tag = make([]byte, n)
			for i := range tag {
				tag[i] = 't'
			}
			tag[n-1] = nondetByte()
			vAssume(tag[n-1] != 0)
			vReach("long-command-tag")
		}
		err := dw.Complete(string(tag))
		if preClosed {
			vAssert("complete-on-closed-fails", err != nil)
			vAssert("complete-on-closed-emits-nothing", len(conn.out) == 0)
		} else if transportDown {
			vAssert("undelivered-completion-is-error", err != nil)
		} else {
			vAssert("complete-ok", err == nil)
			msgs, ok := vFrames(conn.out)
			vAssert("complete-emits-one-C", ok && len(msgs) == 1 && msgs[0].typ == 'C' && vBodyOK(msgs[0]))
			vAssert("complete-carries-tag", vEqBytes(msgs[0].body, vCStr(tag)))
			vAssert("complete-closes", dw.closed)
			vReach("completed")
		}
		vAssert("complete-keeps-counter", dw.Written() == preWritten)
	case 4: // Empty
		err := dw.Empty()
		vAssert("empty-emits-no-rows", vCount(vTypes(conn.out), 'D') == 0 && vCount(vTypes(conn.out), 'C') == 0 && vWireOK(conn.out))
		if preClosed {
			vAssert("empty-on-closed-fails", err != nil)
		} else if preWritten != 0 {
			vAssert("empty-after-rows-fails", err != nil)
			vAssert("empty-after-rows-stays-open", !dw.closed)
		} else {
			vAssert("empty-ok", err == nil)
		}
		vAssert("empty-keeps-counter", dw.Written() == preWritten)
	case 5: // CopyIn
		f := FormatCode(vChoose(2))
		cr, err := dw.CopyIn(f)
		if preClosed || nc == 0 {
			vAssert("copyin-rejected", err != nil && cr == nil)
			vAssert("copyin-rejected-emits-nothing", len(conn.out) == 0)
		} else if transportDown {
			vAssert("undelivered-copy-in-response-is-error", err != nil && cr == nil)
		} else {
			vAssert("copyin-ok", err == nil && cr != nil)
			msgs, ok := vFrames(conn.out)
			vAssert("copyin-emits-G", ok && len(msgs) == 1 && msgs[0].typ == 'G' && vBodyOK(msgs[0]))
			b := msgs[0].body
			vAssert("copyin-overall-format", b[0] == byte(f))
			vAssert("copyin-column-count", vBE16(b, 1) == nc)
			for i := 0; i < nc; i++ {
				vAssert("copyin-column-format", vBE16(b, 3+2*i) == int(f))
			}
			vReach("copy-in-response")
		}
		vAssert("copyin-keeps-counter", dw.Written() == preWritten)
	case 6: // Written / Columns
		vAssert("written-reads-counter", dw.Written() == preWritten)
		vAssert("columns-reads-columns", len(dw.Columns()) == nc)
		vAssert("observers-emit-nothing", len(conn.out) == 0)
	}
	// whatever the operation was and however it ended, it leaves nothing behind
	// in the connection's frame: the message written next arrives as it was built
	if transient && conn.failedWrites == 1 {
		vReach("one-write-refused-then-accepted-again")
	}
	if !transportDown || (transient && conn.failedWrites == 1) {
		mark := len(conn.out)
		w.Start(types.ServerReady)
		w.AddByte('I')
		probe := w.End()
		vAssert("message-after-the-operation-is-clean", probe == nil && vEqBytes(conn.out[mark:], []byte{'Z', 0, 0, 0, 5, 'I'}))
	}
}

// H05c — after completion every call fails without emitting bytes (two steps
// from an open writer, so that "closed" is reached by the code itself).
func VerifH05c() {
	srv, _ := NewServer(nil)
	ctx := vCtx(srv)
	columns := Columns{{Name: "c", Oid: oid.T_text}}
	conn := vNewConn(nil)
	w := buffer.NewWriter(slog.Default(), conn)
	rd := buffer.NewReader(slog.Default(), conn, 64)
	dw := NewDataWriter(ctx, columns, nil, rd, w)
	rows := vChoose(3)
	for i := 0; i < rows; i++ {
		vAssert("row-ok", dw.Row([]any{"v"}) == nil)
	}
	vAssert("counter-equals-rows", dw.Written() == uint64(rows))
	vAssert("complete-ok", dw.Complete("T") == nil)
	before := len(conn.out)
	var err error
	switch vChoose(4) {
	case 0:
		err = dw.Row([]any{"v"})
	case 1:
		err = dw.Complete("T")
	case 2:
		err = dw.Empty()
	case 3:
		_, err = dw.CopyIn(TextFormat)
	}
	vAssert("after-complete-fails", err != nil)
	vAssert("after-complete-emits-nothing", len(conn.out) == before)
	vAssert("exactly-one-CommandComplete", vCount(vTypes(conn.out), 'C') == 1)
	vAssert("one-datarow-per-row", vCount(vTypes(conn.out), 'D') == rows)
	vReach("closed-writer")
}

package wire

import (
	"context"
	"io"
)

// ---------------------------------------------------------------------------
// H10c — an oversized message inside a session (C10): [optional normal
// message][oversized message of any type][next message] through the real
// command loop body. The oversized message is skipped in full, answered by
// exactly one non-fatal ErrorResponse of class 54000, the connection is kept,
// and the message after it is processed normally.
// ---------------------------------------------------------------------------
func VerifH10c() {
	L := 4 + vChoose(vParam("LVAR", 3))
	before := nondetBool()
	// DISCARD=1: the oversized message may also arrive while the session is
	// discarding until Sync (after a Bind to an unknown statement); it is still
	// skipped in full, nothing of its body is taken for a message
	discarding := vParam("DISCARD", 0) > 0 && nondetBool()
	typ := nondetByte()
	over := 1 + vChoose(vParam("OVER", 3))
	big := nondetBytes(L + over)
	var input []byte
	if before {
		input = append(input, vMsgBytes('Q', vCStr([]byte("a")))...)
	}
	if discarding {
		input = append(input, vMsgBytes('D', vCat([]byte{'S'}, vCStr(nil)))...) // unknown statement: error, discard until Sync
	}
	input = append(input, vMsgBytes(typ, big)...)
	if discarding {
		input = append(input, vMsgBytes('S', nil)...)
	}
	input = append(input, vMsgBytes('Q', vCStr([]byte("b")))...)
	w := vNewWorldCfg(input, L)
	w.parseMenu = -1
	w.execMenu = 1
	if before {
		got, err := w.step()
		vAssert("normal-message-before-ok", err == nil && vCount(got, 'Z') == 1)
	}
	if discarding {
		got, err := w.step()
		vAssert("failing-describe-one-error", err == nil && got == "E")
	}
	evBefore := len(w.events)
	got, err := w.step()
	vAssert("oversized-keeps-connection", err == nil)
	vAssert("oversized-no-callback", len(w.events) == evBefore)
	if discarding {
		// (whether a skipped oversized message is also reported while discarding
		// is not settled by C06/C10: at most one ErrorResponse)
		vAssert("oversized-while-discarding-at-most-one-error", got == "" || got == "E" || got == "EZ")
		gotS, errS := w.step()
		vAssert("sync-after-oversized-is-the-next-message", errS == nil && gotS == "Z" && len(w.events) == evBefore)
		vReach("oversized-while-discarding")
	} else {
		vAssert("oversized-one-ErrorResponse", got == "E" || got == "EZ")
		msgs, _ := vFrames(w.conn.out)
		var e vMsg
		for _, m := range msgs {
			if m.typ == 'E' {
				e = m
			}
		}
		code, _ := vErrField(e.body, 'C')
		sev, _ := vErrField(e.body, 'S')
		vAssert("oversized-class-program-limit-exceeded", string(code) == "54000")
		vAssert("oversized-non-fatal", string(sev) == "ERROR")
	}
	// the next message is processed normally: the whole oversized body was skipped
	got2, err2 := w.step()
	vAssert("next-message-ok", err2 == nil)
	parsed := false
	for _, ev := range w.events[evBefore:] {
		if ev.kind == 'p' {
			parsed = true
			vAssert("next-message-query-intact", string(ev.query) == "b")
		}
	}
	vAssert("next-message-parsed", parsed)
	vAssert("next-message-cycle", vCount(got2, 'Z') == 1 && got2[len(got2)-1] == 'Z' && vCount(got2, 'C') == 1)
	vAssert("wire-wellformed", vWireOK(w.conn.out))
	if before {
		vReach("oversized-in-the-middle")
	} else {
		vReach("oversized-first")
	}
}

// ---------------------------------------------------------------------------
// H10e — an oversized or undersized length during startup ends the connection
// (C10): no session, no callback.
// ---------------------------------------------------------------------------
func VerifH10e() {
	L := 16
	hdr := nondetBytes(4)
	declared := vBE32(hdr, 0)
	vAssume(vOr(declared < 4, declared > uint32(L)+4))
	rest := nondetBytes(vChoose(vParam("REST", 6)))
	w := &vWorld{parseMenu: 2, execMenu: 2}
	mw := 0
	srv, err := vServerCfg(w.parse, MessageBufferSize(L),
		SessionMiddleware(func(ctx context.Context) (context.Context, error) { mw++; return ctx, nil }))
	vAssert("newserver-ok", err == nil)
	conn := vNewConn(vCat(hdr, rest))
	if declared > uint32(L)+4+8 && nondetBool() {
		// the client declares more than it sends and then waits for the answer:
		// the connection is ended, not kept waiting for the rest of the body
		conn.silent = "oversized-startup-ends-connection-without-waiting-for-its-body"
		vReach("startup-body-withheld")
	}
	serr := srv.serve(context.Background(), conn)
	vAssert("startup-size-violation-ends-connection", serr != nil && conn.closed >= 1)
	vAssert("no-session", vCount(vTypes(conn.out), 'Z') == 0 && mw == 0 && len(w.events) == 0)
	if declared < 4 {
		vReach("startup-length-below-minimum")
	} else {
		vReach("startup-length-above-limit")
	}
}

// ---------------------------------------------------------------------------
// H10p — an oversized message during authentication ends the connection
// (C10): after the password request the client sends a message of any type
// whose header declares any length above the limit (up to 2^32-1). Either it
// withholds the body and waits, or it sends the whole body followed by a
// well-formed password message with the right password and a query. The
// connection is ended: the body is not waited for, the oversized message is not
// given the in-session treatment (skip, non-fatal error, ReadyForQuery), the
// validator is never consulted and nothing is parsed.
// ---------------------------------------------------------------------------
func VerifH10p() {
	L := 32
	typ := nondetByte()
	withheld := nondetBool()
	var pw []byte
	if withheld {
		declared := nondetU32()
		vAssume(declared > uint32(L)+4+8)
		pw = vCat([]byte{typ, byte(declared >> 24), byte(declared >> 16), byte(declared >> 8), byte(declared)}, nondetBytes(vChoose(4)))
	} else {
		big := make([]byte, L+1+vChoose(vParam("OVER", 3)))
		for i := range big {
			big[i] = 'x'
		}
		big[len(big)-1] = 0
		pw = vCat(vMsgBytes(typ, big), vMsgBytes('p', vCStr([]byte("secret"))), vMsgBytes('Q', vCStr([]byte("b"))))
	}
	input := vCat(vStartup(vKV([]byte("user"), []byte("u"), []byte("database"), []byte("d"))), pw)
	validatorCalls := 0
	validate := func(ctx context.Context, database, username, password string) (context.Context, bool, error) {
		validatorCalls++
		return ctx, true, nil
	}
	mw := 0
	w := &vWorld{parseMenu: 2, execMenu: 2}
	srv, err := vServerCfg(w.parse, MessageBufferSize(L),
		SessionAuthStrategy(ClearTextPassword(validate)),
		SessionMiddleware(func(ctx context.Context) (context.Context, error) { mw++; return ctx, nil }))
	vAssert("newserver-ok", err == nil)
	conn := vNewConn(input)
	if withheld {
		conn.silent = "oversized-password-message-ends-connection-without-waiting-for-its-body"
		vReach("password-body-withheld")
	} else {
		vReach("password-body-sent")
	}
	serr := srv.serve(context.Background(), conn)
	types := vTypes(conn.out)
	vAssert("oversized-during-authentication-ends-connection", serr != nil && conn.closed >= 1)
	vAssert("wire-wellformed", vWireOK(conn.out))
	vAssert("oversized-during-authentication-validator-not-consulted", validatorCalls == 0)
	vAssert("oversized-during-authentication-not-authenticated", !vHasAuthOK(conn.out) && vCount(types, 'S') == 0)
	vAssert("oversized-during-authentication-no-ReadyForQuery", vCount(types, 'Z') == 0)
	vAssert("oversized-during-authentication-no-session", mw == 0 && len(w.events) == 0)
}

// ---------------------------------------------------------------------------
// H18b — data handed to callbacks is never overwritten by later traffic
// (C18). The parser keeps the query string it was given (a zero-copy view of
// the read buffer) next to a private copy, a Bind parameter value is kept
// the same way; K later messages follow whose sizes are chosen by the solver
// around the 4 KiB allocation granule and the message limit (ordinary,
// oversized/skipped, stray COPY). At the end every retained view must equal
// its copy.
// ---------------------------------------------------------------------------
func VerifH18b() {
	K := vParam("K", 2)
	L := 4200
	q := nondetBytes(3)
	vAssume(vNoNUL(q))
	vAssume(q[0] != 'C') // 'C…' is the harness's own marker for the COPY statement
	vAssume(q[0] != 'R') // 'R…' is the marker for a query the parser rejects
	vAssume(q[0] != 'P') // 'P…' is the marker for a query whose callback panics
	// PANICS=1: the first query may be one whose ParseFn or statement function
	// panics after it was shown (and kept) the text. If the panic escapes, the
	// connection is over; if the library contains it and serves on, the text
	// that was handed out is as safe as any other.
	panicking := vParam("PANICS", 0) == 1 && nondetBool()
	panicInParse := panicking && nondetBool()
	if nondetBool() {
		// a large (but legal) query: three symbolic bytes and a long tail, so that
		// the message is bigger than the 4 KiB granule and bufio's chunking matters
		tail := make([]byte, 4097)
		for i := range tail {
			tail[i] = 'a'
		}
		q = append(q, tail...)
		vReach("large-retained-message")
	}
	pv := nondetBytes(2)
	abandonCopy := nondetBool() // the first simple query starts COPY-in and gives up at once
	var keptQueries []string
	var keptCopies [][]byte
	var keptParam, keptParamCopy []byte
	var keptParams []Parameter // the parameter list itself, as the handler received it
	parse := func(ctx context.Context, query string) (PreparedStatements, error) {
		keptQueries = append(keptQueries, query)
		keptCopies = append(keptCopies, append([]byte{}, query...))
		isCopy := len(query) > 0 && query[0] == 'C'
		if len(query) > 0 && query[0] == 'R' {
			return nil, errVerifParse // rejected, but the holder keeps the text it was shown
		}
		isPanic := len(query) > 0 && query[0] == 'P'
		if isPanic && panicInParse {
			panic("verif: the parser panicked")
		}
		fn := func(ctx context.Context, dw DataWriter, params []Parameter) error {
			if isPanic {
				panic("verif: the statement panicked")
			}
			if isCopy {
				if _, err := dw.CopyIn(BinaryFormat); err != nil {
					return err
				}
				return errVerifExec // abandon the stream without reading it
			}
			if len(params) == 1 && keptParamCopy == nil {
				keptParams = params
				keptParam = params[0].Value()
				keptParamCopy = append([]byte{}, keptParam...)
			}
			return dw.Complete("T")
		}
		return Prepared(NewStatement(fn, WithColumns(vTextColumns(1)))), nil
	}
	var input []byte
	steps := 0
	if panicking {
		pq := vCat([]byte("P"), nondetBytes(2), []byte("anicking-query-text"))
		vAssume(vNoNUL(pq))
		input = append(input, vMsgBytes('Q', vCStr(pq))...)
		steps++
	}
	if abandonCopy {
		input = append(input, vMsgBytes('Q', vCStr([]byte("C")))...)
		steps++
		vReach("abandoned-copy")
	}
	rejected := nondetBool() // a Parse the parser rejects, then messages skipped until Sync
	if rejected {
		rq := vCat([]byte("R"), nondetBytes(2), []byte("ejected-query-text"))
		vAssume(vNoNUL(rq))
		skipped := make([]byte, 24)
		for i := range skipped {
			skipped[i] = 'Z'
		}
		// ... and a simple Query the parser rejects, followed by ordinary traffic
		sq := vCat([]byte("R"), nondetBytes(2), []byte("ejected-simple-query"))
		vAssume(vNoNUL(sq))
		input = vCat(input,
			vMsgBytes('P', vCat(vCStr(nil), vCStr(rq), vU16(0))),
			vMsgBytes('H', nil),
			vMsgBytes('B', skipped),
			vMsgBytes('H', nil),
			vMsgBytes('D', skipped[:9]),
			vMsgBytes('S', nil),
			vMsgBytes('Q', vCStr(sq)))
		steps += 7
		vReach("rejected-parse-then-skipped-messages")
	}
	input = vCat(input,
		vMsgBytes('P', vCat(vCStr(nil), vCStr(q), vU16(0))),
		vMsgBytes('B', vCat(vCStr(nil), vCStr(nil), vU16(0), vU16(1), vU32(2), pv, vU16(0))),
		vMsgBytes('E', vCat(vCStr(nil), vU32(0))),
		vMsgBytes('S', nil),
		// the same portal is bound again, with another value of the same length
		vMsgBytes('B', vCat(vCStr(nil), vCStr(nil), vU16(0), vU16(1), vU32(2), nondetBytes(2), vU16(0))),
		vMsgBytes('S', nil),
		vMsgBytes('Q', vCStr([]byte("second"))),
		vMsgBytes('Q', vCStr([]byte("third"))),
	)
	steps += 8
	sizes := []int{0, 1, 3, 4080, 4090, 4096, 4097, L, L + 1, L + 7}
	for k := 0; k < K; k++ {
		n := sizes[vChoose(len(sizes))]
		input = append(input, vMsgBytes('d', make([]byte, n))...)
		steps++
		if n > L {
			vReach("later-oversized-message")
		}
		if n >= 4080 && n <= L {
			vReach("later-message-near-granule")
		}
	}
	srv, err := NewServer(parse, MessageBufferSize(L))
	vAssert("newserver-ok", err == nil)
	w := &vWorld{srv: srv}
	w.conn = vNewConn(input)
	w.ses, w.rd, w.wr = vSession(srv, w.conn)
	w.ctx = vCtx(srv)
	over := false
	for k := 0; k < steps && !over; k++ {
		escaped := false
		var e error
		func() {
			defer func() {
				if r := recover(); r != nil {
					escaped = true
				}
			}()
			_, e = w.step()
		}()
		if panicking && k == 0 {
			if escaped || e != nil {
				over = true // the panic (or the error it became) ended the connection
				vReach("callback-panic-ends-the-connection")
			}
			continue
		}
		vAssert("no-panic", !escaped)
		vAssert("connection-stays-up", e == nil)
	}
	want := 3
	if abandonCopy {
		want++
	}
	if rejected {
		want += 2
	}
	if panicking {
		want++
	}
	if !over {
		vAssert("queries-were-retained", len(keptQueries) == want)
		vAssert("parameter-was-retained", keptParamCopy != nil && vEqBytes(keptParamCopy, pv))
	}
	for i := range keptQueries {
		vAssert("retained-query-unchanged", vEqStr(keptQueries[i], string(keptCopies[i])))
	}
	if over {
		return
	}
	vAssert("retained-parameter-unchanged", vEqBytes(keptParam, keptParamCopy))
	vAssert("retained-parameter-list-unchanged", len(keptParams) == 1 && vEqBytes(keptParams[0].Value(), keptParamCopy))
}

// ---------------------------------------------------------------------------
// H18g — a large Bind (C18): the unnamed portal is bound with a value of 5000
// bytes (one symbolic byte at each end), executed and Sync'ed; the handler
// keeps the value it was handed. A second cycle follows — another large Bind, a
// Parse and a simple query, sizes that fit into what the first Bind occupied.
// The kept value still equals its private copy.
// ---------------------------------------------------------------------------
func VerifH18g() {
	big := make([]byte, 5000)
	for i := range big {
		big[i] = 'A'
	}
	big[0], big[4999] = nondetByte(), nondetByte()
	var kept, keptCopy []byte
	stmt := func(ctx context.Context, dw DataWriter, params []Parameter) error {
		if kept == nil && len(params) == 1 {
			kept = params[0].Value()
			keptCopy = append([]byte{}, kept...)
		}
		return dw.Complete("T")
	}
	parse := func(ctx context.Context, query string) (PreparedStatements, error) {
		return Prepared(NewStatement(stmt)), nil
	}
	later := make([]byte, 4500)
	for i := range later {
		later[i] = 'B'
	}
	sync := vMsgBytes('S', nil)
	bind := func(v []byte) []byte {
		return vMsgBytes('B', vCat(vCStr(nil), vCStr(nil), vU16(0), vU16(1), vU32(uint32(len(v))), v, vU16(0)))
	}
	input := vCat(
		vMsgBytes('P', vCat(vCStr(nil), vCStr([]byte("q")), vU16(0))),
		bind(big), vMsgBytes('E', vCat(vCStr(nil), vU32(0))), sync,
		bind(later), vMsgBytes('E', vCat(vCStr(nil), vU32(0))), sync,
		vMsgBytes('P', vCat(vCStr(nil), vCStr(later[:3000]), vU16(0))), sync,
		vMsgBytes('Q', vCStr(later[:100])))
	srv, err := NewServer(parse, MessageBufferSize(8192))
	vAssert("newserver-ok", err == nil)
	w := &vWorld{srv: srv}
	w.conn = vNewConn(input)
	w.ses, w.rd, w.wr = vSession(srv, w.conn)
	w.ctx = vCtx(srv)
	for i := 0; i < 10; i++ {
		_, e := w.step()
		vAssert("connection-stays-up", e == nil)
	}
	vAssert("value-was-kept", keptCopy != nil && len(keptCopy) == 5000)
	vAssert("value-kept-from-a-large-bind-unchanged-after-the-next-cycles", vEqBytes(kept, keptCopy))
	vReach("large-bind-then-more-cycles")
}

// ---------------------------------------------------------------------------
// H18x — what a callback keeps outlives the connection it came from (C18): a
// first connection's parser and session middleware keep the query text and the
// client parameters they were shown (next to private copies); the connection
// ends; a second connection with the same buffer size sends a start-up packet
// and queries of its own. Afterwards everything kept from the first connection
// still equals its copy.
// ---------------------------------------------------------------------------
func VerifH18x() {
	q1 := nondetBytes(3)
	vAssume(vNoNUL(q1))
	vAssume(vAnd(q1[0] > ' ', q1[0] < 0x7f)) // (a blank query is answered without the parser)
	u1 := vSymText(2)
	var keptQuery, keptUser string
	var copyQuery, copyUser []byte
	var keptParams Parameters // the collection itself, as the accessor handed it out
	mw := SessionMiddleware(func(ctx context.Context) (context.Context, error) {
		if RemoteAddress(ctx).(vAddr).id == 0 {
			keptParams = ClientParameters(ctx)
			keptUser = keptParams[ParamUsername]
			copyUser = append([]byte{}, keptUser...)
		}
		return ctx, nil
	})
	parse := func(ctx context.Context, query string) (PreparedStatements, error) {
		if RemoteAddress(ctx).(vAddr).id == 0 {
			keptQuery = query
			copyQuery = append([]byte{}, query...)
		}
		fn := func(ctx context.Context, dw DataWriter, params []Parameter) error { return dw.Complete("T") }
		return Prepared(NewStatement(fn)), nil
	}
	srv, err := NewServer(parse, MessageBufferSize(64), mw)
	vAssert("newserver-ok", err == nil)
	c1 := vNewConn(vCat(vStartup(vKV([]byte("user"), u1)), vMsgBytes('Q', vCStr(q1)), vMsgBytes('X', nil)))
	c2 := vNewConn(vCat(vStartup(vKV([]byte("user"), []byte("mallory"))), vMsgBytes('Q', vCStr([]byte("zzzzzzzz"))), vMsgBytes('Q', vCStr([]byte("yyyy"))), vMsgBytes('X', nil)))
	c2.id = 1
	srv.serve(context.Background(), c1) //nolint
	srv.serve(context.Background(), c2) //nolint
	vAssert("first-connection-served", copyQuery != nil && copyUser != nil)
	vAssert("query-kept-from-an-ended-connection-unchanged", vEqStr(keptQuery, string(copyQuery)))
	vAssert("client-parameter-kept-from-an-ended-connection-unchanged", vEqStr(keptUser, string(copyUser)))
	// ... and so is the collection the accessor handed out: still the first
	// connection's parameters, not emptied, not another connection's
	userNow, has := keptParams[ParamUsername]
	vAssert("client-parameter-collection-kept-from-an-ended-connection-unchanged", len(keptParams) == 1 && has && vEqStr(userNow, string(copyUser)))
	vReach("a-second-connection-after-the-first-ended")
}

// ---------------------------------------------------------------------------
// H03c — surplus or unread fields of one message never leak into the next
// (C03, session level): a first message with surplus bytes after its last
// field (or with fields the handler does not read), then a second message;
// what the second produces equals what it produces alone.
// ---------------------------------------------------------------------------
func VerifH03c() {
	S := vParam("S", 3)
	surplus := nondetBytes(vChoose(S + 1))
	kind := vChoose(4)
	var first []byte
	switch kind {
	case 0: // Query with bytes after the terminator
		first = vMsgBytes('Q', vCat(vCStr([]byte("a")), surplus))
	case 1: // Parse with declared parameter OIDs the handler leaves unread
		first = vMsgBytes('P', vCat(vCStr(nil), vCStr([]byte("a")), vU16(1), vU32(23), surplus))
	case 2: // Sync with a body
		first = vMsgBytes('S', surplus)
	default: // Flush with a body
		first = vMsgBytes('H', surplus)
	}
	// the second message reads fields; its body is arbitrary (possibly empty,
	// possibly unterminated)
	sb := nondetBytes(vChoose(3))
	second := vMsgBytes('Q', sb)

	run := func(input []byte, steps int) (string, []byte, bool, error) {
		w := vNewWorld(input, 64)
		w.parseMenu = -2 // same deterministic callbacks in both runs
		w.execMenu = 1
		var got string
		var err error
		mark := 0
		for i := 0; i < steps; i++ {
			mark = len(w.events)
			got, err = w.step()
		}
		var query []byte
		parsed := false
		for _, ev := range w.events[mark:] {
			if ev.kind == 'p' {
				parsed = true
				query = ev.query
			}
		}
		return got, query, parsed, err
	}
	g2, q2, p2, e2 := run(vCat(first, second), 2)
	g1, q1, p1, e1 := run(second, 1)
	vAssert("second-message-same-error", (e1 == nil) == (e2 == nil))
	vAssert("second-message-same-reply", g1 == g2)
	vAssert("second-message-same-callbacks", p1 == p2 && vEqBytes(q1, q2))
	if len(surplus) > 0 && len(sb) == 0 {
		vReach("surplus-then-empty-body")
	}
	if p1 {
		vReach("second-parsed")
	}
}

// ---------------------------------------------------------------------------
// H10f — the default limit at the server level (C10): a server configured
// with a non-positive size (through the option, the exported field, or not at
// all) serves a message of BODY bytes — larger than any small limit and than
// the 4 KiB allocation granule — normally, and skips one that declares more
// than 16 MiB with one 54000 ErrorResponse, then serves the next message.
// ---------------------------------------------------------------------------
func VerifH10f() {
	how := vChoose(4) // 0 no option, 1 option 0, 2 option -1, 3 exported field negative
	w := &vWorld{parseMenu: -2, execMenu: 1}
	var opts []OptionFn
	switch how {
	case 1:
		opts = append(opts, MessageBufferSize(0))
	case 2:
		opts = append(opts, MessageBufferSize(-1))
	}
	srv, err := NewServer(w.parse, opts...)
	vAssert("newserver-ok", err == nil)
	if how == 3 {
		srv.BufferedMsgSize = -(1 + int(nondetByte()))
	}
	body := vParam("BODY", 5000)
	q := make([]byte, body)
	for i := range q {
		q[i] = 'a'
	}
	input := vCat(vStartup(vKV([]byte("user"), []byte("u"))), vMsgBytes('Q', vCStr(q)))
	oversized := vParam("OVERSIZED", 0) > 0
	if oversized {
		input = vCat(input, vMsgBytes(nondetByte(), make([]byte, (1<<24)+1+vChoose(2))), vMsgBytes('Q', vCStr([]byte("b"))))
	}
	input = vCat(input, vMsgBytes('X', nil))
	conn := vNewConn(input)
	srv.serve(context.Background(), conn) //nolint
	vAssert("wire-wellformed", vWireOK(conn.out))
	parses := 0
	for _, ev := range w.events {
		if ev.kind == 'p' {
			parses++
			if parses == 1 {
				vAssert("large-message-under-default-limit-served", len(ev.query) == body)
			} else {
				vAssert("message-after-oversized-intact", string(ev.query) == "b")
			}
		}
	}
	typesOut := vTypes(conn.out)
	if oversized {
		vAssert("both-queries-parsed", parses == 2)
		vAssert("one-error-for-the-oversized-message", vCount(typesOut, 'E') == 1)
		msgs, _ := vFrames(conn.out)
		for _, m := range msgs {
			if m.typ == 'E' {
				code, _ := vErrField(m.body, 'C')
				vAssert("oversized-class-program-limit-exceeded", string(code) == "54000")
			}
		}
		vReach("beyond-the-default-limit")
	} else {
		vAssert("query-parsed", parses == 1)
	}
	if how == 3 {
		vReach("negative-size-on-the-exported-field")
	}
}

// ---------------------------------------------------------------------------
// H03s — the transcript is a function of the byte stream, not of how it is
// cut into reads (C03, session level): one stream — a startup packet and K
// messages drawn from {Query, Parse, Bind, Execute, Sync, Terminate, a message
// with a symbolic type byte and body} — is served twice by equally configured
// servers: once with every Read returning all that is available, once with
// every Read returning CHUNK bytes (1 by default: one byte per read, so every
// header and every message is split). Output and callback trace must be
// identical. In particular what follows a Terminate in the same
// segment is treated like what follows it in a later one.
// ---------------------------------------------------------------------------
func VerifH03s() {
	K := vParam("K", 2)
	stream := vStartup(vKV([]byte("user"), []byte("u")))
	// AUTH=1: the server may ask for a clear-text password; the client sends it
	// (right or wrong — the solver's choice) and pipelines what follows behind it
	auth := vParam("AUTH", 0) == 1 && nondetBool()
	if auth {
		pw := []byte("pw")
		if nondetBool() {
			pw = []byte("no")
		}
		stream = vCat(stream, vMsgBytes('p', vCStr(pw)))
		vReach("password-message-with-pipelined-messages-behind-it")
	}
	sawX := false
	for k := 0; k < K; k++ {
		switch vChoose(7 + vParam("COPY", 0)) {
		case 7:
			// a COPY-in cycle: the handler reads chunk by chunk and records every
			// payload it is handed; two CopyData messages, then CopyDone
			stream = vCat(stream, vMsgBytes('Q', vCStr([]byte("copy"))),
				vMsgBytes('d', nondetBytes(1)), vMsgBytes('d', nondetBytes(1)), vMsgBytes('c', nil))
			vReach("copy-in-with-two-copydata-messages")
		case 0:
			stream = vCat(stream, vMsgBytes('Q', vCStr([]byte{'a' + nondetByte()%2})))
		case 1:
			stream = vCat(stream, vMsgBytes('P', vCat(vCStr(nil), vCStr([]byte("q")), vU16(0))))
		case 2:
			stream = vCat(stream, vMsgBytes('B', vCat(vCStr(nil), vCStr(nil), vU16(0), vU16(0), vU16(0))))
		case 3:
			stream = vCat(stream, vMsgBytes('E', vCat(vCStr(nil), vU32(0))))
		case 4:
			stream = vCat(stream, vMsgBytes('S', nil))
		case 5:
			stream = vCat(stream, vMsgBytes('X', nil))
			if k < K-1 {
				sawX = true
			}
		default:
			typ := nondetByte()
			vAssume(typ != 'P') // (see H04a: a complete Parse's 16-bit count)
			stream = vCat(stream, vMsgBytes(typ, nondetBytes(vChoose(3))))
		}
	}
	type run struct {
		w    *vWorld
		conn *vConn
	}
	serve := func(chunk int) run {
		w := &vWorld{parseMenu: -2, execMenu: 1}
		opts := []OptionFn{MessageBufferSize(64)}
		if auth {
			opts = append(opts, SessionAuthStrategy(ClearTextPassword(func(ctx context.Context, db, user, password string) (context.Context, bool, error) {
				w.events = append(w.events, vEvent{kind: 'a', query: []byte(password)})
				return ctx, password == "pw", nil
			})))
		}
		parse := func(ctx context.Context, query string) (PreparedStatements, error) {
			if query != "copy" {
				return w.parse(ctx, query)
			}
			w.events = append(w.events, vEvent{kind: 'p', query: []byte(query)})
			fn := func(ctx context.Context, dw DataWriter, params []Parameter) error {
				cr, err := dw.CopyIn(TextFormat)
				if err != nil {
					return err
				}
				for n := 0; n < 4; n++ {
					if err := cr.Read(); err != nil {
						if err == io.EOF {
							return dw.Complete("COPY")
						}
						return err
					}
					w.events = append(w.events, vEvent{kind: 'd', query: append([]byte{}, cr.Msg...)})
				}
				return dw.Complete("COPY")
			}
			return Prepared(NewStatement(fn, WithColumns(vTextColumns(1)))), nil
		}
		srv, err := NewServer(parse, opts...)
		vAssert("newserver-ok", err == nil)
		c := vNewConn(stream)
		c.in.chunk = chunk
		srv.serve(context.Background(), c) //nolint
		return run{w, c}
	}
	whole, cut := serve(0), serve(vParam("CHUNK", 1))
	vAssert("same-output-for-every-segmentation", vSameTranscript(whole.conn.out, cut.conn.out))
	vAssert("same-number-of-callbacks", len(whole.w.events) == len(cut.w.events))
	for i := range whole.w.events {
		if i < len(cut.w.events) {
			a, b := whole.w.events[i], cut.w.events[i]
			vAssert("same-callbacks", a.kind == b.kind && vEqBytes(a.query, b.query))
		}
	}
	if sawX {
		vReach("terminate-followed-by-more")
	}
	if len(whole.w.events) >= 2 {
		vReach("two-callbacks")
	}
}

// ---------------------------------------------------------------------------
// H10g — a declared length far beyond the limit, up to 2^32-1 (C10, C03): a
// message whose header declares any length above the limit — including values
// with the top bit set — followed by fewer bytes than declared (here: a
// complete, well-formed Query) and the end of the stream. Those bytes belong
// to the oversized message's body: they are never interpreted as a message,
// no callback runs, and the connection ends because its input ended.
// ---------------------------------------------------------------------------
func VerifH10g() {
	L := 64
	typ := nondetByte()
	declared := nondetU32()
	vAssume(declared > uint32(L)+4+16) // more than what follows
	hdr := []byte{typ, byte(declared >> 24), byte(declared >> 16), byte(declared >> 8), byte(declared)}
	inside := vMsgBytes('Q', vCStr([]byte("b")))
	w := vNewWorld(vCat(hdr, inside, inside), L)
	w.parseMenu = -2
	w.execMenu = 1
	for k := 0; k < 4; k++ {
		_, err := w.step()
		if err != nil {
			break
		}
	}
	vAssert("body-of-an-oversized-message-is-never-a-message", len(w.events) == 0)
	vAssert("wire-wellformed", vWireOK(w.conn.out))
	if declared >= 1<<31 {
		vReach("declared-length-with-the-top-bit-set")
	} else {
		vReach("declared-length-below-2^31")
	}
}

// ---------------------------------------------------------------------------
// H10u — a declared length below the 4-byte minimum inside a session (C10): a
// message of any type whose length word is 0..3. It has no body. It is
// rejected — an ErrorResponse without any callback, or the end of the
// connection — and it never leads to a read of a negative or wrapped size:
// a client that sends nothing after the header is not waited for, and when a
// well-formed Query follows and the connection was kept, that Query is served.
// ---------------------------------------------------------------------------
func VerifH10u() {
	L := 64
	typ := nondetByte()
	declared := vChoose(4)
	hdr := []byte{typ, 0, 0, 0, byte(declared)}
	follow := nondetBool()
	input := hdr
	if follow {
		input = vCat(hdr, vMsgBytes('Q', vCStr([]byte("b"))))
	}
	w := vNewWorld(input, L)
	w.parseMenu = -1
	w.execMenu = 1
	if !follow {
		w.conn.silent = "undersized-length-rejected-without-waiting-for-a-body"
		vReach("nothing-follows-the-header")
	}
	got, err := w.step()
	vAssert("undersized-no-callback", len(w.events) == 0)
	vAssert("undersized-rejected", err != nil || (len(got) >= 1 && got[0] == 'E'))
	vAssert("wire-wellformed", vWireOK(w.conn.out))
	if follow && err == nil {
		got2, err2 := w.step()
		vAssert("message-after-undersized-served", err2 == nil && vCount(got2, 'Z') == 1 && vCount(got2, 'C') == 1)
		parsed := false
		for _, ev := range w.events {
			if ev.kind == 'p' {
				parsed = true
				vAssert("message-after-undersized-intact", string(ev.query) == "b")
			}
		}
		vAssert("message-after-undersized-parsed", parsed)
		vReach("connection-kept-after-undersized")
	}
}

// ---------------------------------------------------------------------------
// H10h — the limit is a property of the connection, not of its history (C10):
// a COPY-in cycle (CopyInResponse, optional CopyData, CopyDone) comes first,
// then a message OVER bytes beyond the limit, then a normal query. The
// oversized message is still skipped in full and answered with 54000, and the
// query after it is served.
// ---------------------------------------------------------------------------
func VerifH10h() {
	L := 64
	withData := nondetBool()
	over := 1 + vChoose(vParam("OVER", 3))
	var parsed [][]byte
	parse := func(ctx context.Context, query string) (PreparedStatements, error) {
		parsed = append(parsed, []byte(query))
		isCopy := query == "c"
		fn := func(ctx context.Context, dw DataWriter, params []Parameter) error {
			if isCopy {
				cr, err := dw.CopyIn(TextFormat)
				if err != nil {
					return err
				}
				for k := 0; k < 3; k++ {
					if err := cr.Read(); err != nil {
						break
					}
				}
				return dw.Complete("COPY")
			}
			return dw.Complete("T")
		}
		return Prepared(NewStatement(fn, WithColumns(vTextColumns(1)))), nil
	}
	input := vMsgBytes('Q', vCStr([]byte("c")))
	if withData {
		input = vCat(input, vMsgBytes('d', []byte("row\n")))
	}
	big := make([]byte, L+over)
	for i := range big {
		big[i] = 'x'
	}
	big[len(big)-1] = 0
	input = vCat(input, vMsgBytes('c', nil), vMsgBytes('Q', big), vMsgBytes('Q', vCStr([]byte("b"))))
	srv, err := NewServer(parse, MessageBufferSize(L))
	vAssert("newserver-ok", err == nil)
	w := &vWorld{srv: srv}
	w.conn = vNewConn(input)
	w.ses, w.rd, w.wr = vSession(srv, w.conn)
	w.ctx = vCtx(srv)
	got, serr := w.step()
	vAssert("copy-cycle", serr == nil && got == "TGCZ")
	got, serr = w.step()
	vAssert("oversized-after-copy-keeps-connection", serr == nil)
	vAssert("oversized-after-copy-one-ErrorResponse", got == "E" || got == "EZ")
	msgs, _ := vFrames(w.conn.out)
	for _, m := range msgs {
		if m.typ == 'E' {
			code, _ := vErrField(m.body, 'C')
			vAssert("oversized-class-program-limit-exceeded", string(code) == "54000")
		}
	}
	vAssert("oversized-after-copy-never-parsed", len(parsed) == 1)
	got, serr = w.step()
	vAssert("next-query-served", serr == nil && len(parsed) == 2 && string(parsed[1]) == "b" && vCount(got, 'Z') == 1)
	vReach("oversized-after-a-copy-in-cycle")
}

// ---------------------------------------------------------------------------
// H10i — an oversized message while a handler is reading COPY data (C10, C13,
// C03): Query (the statement starts COPY-in and reads until an error), a small
// CopyData, then a CopyData whose body is one byte beyond the limit and
// consists of well-formed messages, then CopyDone, Sync and a normal query. The
// oversized body is skipped in full — none of its bytes is taken for a
// message, no callback runs for them —, the aborted COPY is reported with
// exactly one ErrorResponse and one ReadyForQuery, and the query after it is
// served.
// ---------------------------------------------------------------------------
func VerifH10i() {
	L := 64
	// the 65-byte body is made of well-formed messages (a symbolic body makes
	// an implementation that does NOT skip it fork without end): thirteen Syncs,
	// or a Query followed by eleven Flushes
	var big []byte
	if nondetBool() {
		for k := 0; k < 13; k++ {
			big = append(big, vMsgBytes('S', nil)...)
		}
	} else {
		big = vMsgBytes('Q', vCStr([]byte("abcd")))
		for k := 0; k < 11; k++ {
			big = append(big, vMsgBytes('H', nil)...)
		}
		vReach("query-inside-the-oversized-body")
	}
	var parsed [][]byte
	var copyErr error
	chunks := 0
	parse := func(ctx context.Context, query string) (PreparedStatements, error) {
		parsed = append(parsed, []byte(query))
		isCopy := query == "c"
		fn := func(ctx context.Context, dw DataWriter, params []Parameter) error {
			if isCopy {
				cr, err := dw.CopyIn(TextFormat)
				if err != nil {
					return err
				}
				for k := 0; k < 4; k++ {
					if err := cr.Read(); err != nil {
						copyErr = err
						break
					}
					chunks++
				}
				if copyErr == io.EOF {
					return dw.Complete("COPY")
				}
				return copyErr
			}
			return dw.Complete("T")
		}
		return Prepared(NewStatement(fn, WithColumns(vTextColumns(1)))), nil
	}
	input := vCat(vMsgBytes('Q', vCStr([]byte("c"))), vMsgBytes('d', []byte("row\n")), vMsgBytes('d', big),
		vMsgBytes('c', nil), vMsgBytes('S', nil), vMsgBytes('Q', vCStr([]byte("b"))))
	srv, err := NewServer(parse, MessageBufferSize(L))
	vAssert("newserver-ok", err == nil)
	w := &vWorld{srv: srv}
	w.conn = vNewConn(input)
	w.ses, w.rd, w.wr = vSession(srv, w.conn)
	w.ctx = vCtx(srv)
	got, serr := w.step()
	vAssert("connection-stays-up", serr == nil)
	vAssert("copy-aborted-by-the-oversized-message", copyErr != nil && copyErr != io.EOF && chunks == 1)
	vAssert("abort-exactly-one-E-one-Z", got == "TGEZ")
	// what follows: CopyDone (stray: ignored), Sync, the query
	for k := 0; k < 6 && len(parsed) < 2; k++ {
		if _, e := w.step(); e != nil {
			break
		}
	}
	vAssert("nothing-of-the-oversized-body-is-a-message", len(parsed) == 2 && string(parsed[1]) == "b")
	vAssert("wire-wellformed", vWireOK(w.conn.out))
	vReach("oversized-copydata")
}

// ---------------------------------------------------------------------------
// H18c — retained data and binary COPY streams split across messages (C18):
// a COPY whose tuple is split over two CopyData messages at a solver-chosen
// point (inside the file header, the field count, the field length or the
// value), a query whose text the parser retains, a second split COPY with
// other bytes, a last query. The query texts the parser kept and the row
// values the first COPY delivered still equal their private copies at the end:
// whatever the reader uses to join chunks is never memory a callback holds.
// ---------------------------------------------------------------------------
func VerifH18c() {
	cuts := []int{5, 20, 23, 26}
	mkCopy := func(v []byte, cut int, binaryValue bool) []byte {
		stream := vCat(vCopyHeader, vU16(1), vU32(uint32(len(v))), v, []byte{0xFF, 0xFF})
		return vCat(vMsgBytes('d', stream[:cut]), vMsgBytes('d', stream[cut:]), vMsgBytes('c', nil))
	}
	v1 := nondetBytes(4)
	v2 := nondetBytes(4)
	q := nondetBytes(3)
	vAssume(vNoNUL(q))
	vAssume(q[0] != 'C')
	vAssume(q[0] > ' ') // a blank query never reaches the parser
	cut1 := cuts[vChoose(len(cuts))]
	cut2 := cuts[vChoose(len(cuts))]
	bytea := nondetBool() // the COPY column is bytea (values decode to []byte) or text
	var keptQueries []string
	var keptCopies [][]byte
	var keptVals []any
	var keptValCopies [][]byte
	parse := func(ctx context.Context, query string) (PreparedStatements, error) {
		keptQueries = append(keptQueries, query)
		keptCopies = append(keptCopies, append([]byte{}, query...))
		isCopy := len(query) > 0 && query[0] == 'C'
		fn := func(ctx context.Context, dw DataWriter, params []Parameter) error {
			if !isCopy {
				return dw.Complete("T")
			}
			cr, err := dw.CopyIn(BinaryFormat)
			if err != nil {
				return err
			}
			br, err := NewBinaryColumnReader(ctx, cr)
			if err != nil {
				return err
			}
			for k := 0; k < 3; k++ {
				row, err := br.Read(ctx)
				if err == io.EOF {
					return dw.Complete("COPY")
				}
				if err != nil {
					return err
				}
				keptVals = append(keptVals, row[0])
				switch x := row[0].(type) {
				case string:
					keptValCopies = append(keptValCopies, []byte(x))
				case []byte:
					keptValCopies = append(keptValCopies, append([]byte{}, x...))
				default:
					keptValCopies = append(keptValCopies, nil)
				}
			}
			return errVerifExec
		}
		cols := vTextColumns(1)
		if bytea {
			cols = Columns{{Name: "b", Oid: 17}}
		}
		return Prepared(NewStatement(fn, WithColumns(cols))), nil
	}
	input := vCat(vMsgBytes('Q', vCStr([]byte("C1"))), mkCopy(v1, cut1, bytea),
		vMsgBytes('Q', vCStr(q)),
		vMsgBytes('Q', vCStr([]byte("C2"))), mkCopy(v2, cut2, bytea),
		vMsgBytes('Q', vCStr([]byte("last"))))
	srv, err := NewServer(parse, MessageBufferSize(4200))
	vAssert("newserver-ok", err == nil)
	w := &vWorld{srv: srv}
	w.conn = vNewConn(input)
	w.ses, w.rd, w.wr = vSession(srv, w.conn)
	w.ctx = vCtx(srv)
	for k := 0; k < 4; k++ {
		out, e := w.step()
		vAssert("connection-stays-up", e == nil)
		if k == 0 || k == 2 {
			vAssert("split-copy-completes", out == "TGCZ")
		}
	}
	vAssert("split-copy-queries-retained", len(keptQueries) == 4)
	vAssert("split-copy-rows-delivered", len(keptVals) == 2 && vEqBytes(keptValCopies[0], v1) && vEqBytes(keptValCopies[1], v2))
	for i := range keptQueries {
		vAssert("retained-query-unchanged-by-split-copy", vEqStr(keptQueries[i], string(keptCopies[i])))
	}
	for i := range keptVals {
		switch x := keptVals[i].(type) {
		case string:
			vAssert("retained-copy-value-unchanged", vEqStr(x, string(keptValCopies[i])))
		case []byte:
			vAssert("retained-copy-value-unchanged", vEqBytes(x, keptValCopies[i]))
			vReach("copy-value-delivered-as-bytes")
		}
	}
	if cut1 >= 26 && cut2 >= 26 {
		vReach("both-copies-split-inside-the-value")
	}
}

// ---------------------------------------------------------------------------
// H18p — the password (and the user/database names) a validator was given
// stay intact (C18): clear-text authentication with a validator that keeps
// the strings it received next to private copies; then K simple queries whose
// texts are long enough to be written over anything that is not protected.
// Message limit: the default (16 MiB) or a small one — the solver's choice.
// ---------------------------------------------------------------------------
func VerifH18p() {
	K := vParam("K", 2)
	pw := nondetBytes(3)
	vAssume(vNoNUL(pw))
	user := vSymText(1)
	var keptPw, keptUser, keptDB string
	var copyPw, copyUser, copyDB []byte
	validate := func(ctx context.Context, database, username, password string) (context.Context, bool, error) {
		keptPw, keptUser, keptDB = password, username, database
		copyPw, copyUser, copyDB = append([]byte{}, password...), append([]byte{}, username...), append([]byte{}, database...)
		return ctx, true, nil
	}
	var kept []string
	var copies [][]byte
	parse := func(ctx context.Context, query string) (PreparedStatements, error) {
		kept = append(kept, query)
		copies = append(copies, append([]byte{}, query...))
		fn := func(ctx context.Context, dw DataWriter, params []Parameter) error { return dw.Complete("T") }
		return Prepared(NewStatement(fn)), nil
	}
	opts := []OptionFn{SessionAuthStrategy(ClearTextPassword(validate))}
	if nondetBool() {
		opts = append(opts, MessageBufferSize(128))
		vReach("small-limit")
	} else {
		vReach("default-limit")
	}
	srv, err := NewServer(parse, opts...)
	vAssert("newserver-ok", err == nil)
	input := vCat(vStartup(vKV([]byte("user"), user, []byte("database"), []byte("db"))), vMsgBytes('p', vCStr(pw)))
	for k := 0; k < K; k++ {
		q := make([]byte, 40)
		for i := range q {
			q[i] = byte('A' + k)
		}
		input = vCat(input, vMsgBytes('Q', vCStr(q)))
	}
	input = vCat(input, vMsgBytes('X', nil))
	conn := vNewConn(input)
	srv.serve(context.Background(), conn) //nolint
	vAssert("validator-was-consulted", copyPw != nil)
	vAssert("queries-served", len(kept) == K)
	vAssert("retained-password-unchanged", vEqStr(keptPw, string(copyPw)) && vEqBytes(copyPw, pw))
	vAssert("retained-user-unchanged", vEqStr(keptUser, string(copyUser)) && vEqBytes(copyUser, user))
	vAssert("retained-database-unchanged", vEqStr(keptDB, string(copyDB)) && keptDB == "db")
	for i := range kept {
		vAssert("retained-query-unchanged", vEqStr(kept[i], string(copies[i])))
	}
}

// ---------------------------------------------------------------------------
// H10s — the limit is ONE limit, the same for every message type (C10): with
// a limit of 32768 bytes, an extended-query cycle whose statement and portal
// name is 10050 bytes long (longer than any "small message" bound another
// implementation may know): Parse, Bind, Describe, Execute, Close and Sync all
// carry a body below the limit and are all processed normally.
// ---------------------------------------------------------------------------
func VerifH10s() {
	n := vParam("NAME", 10050)
	name := make([]byte, n)
	for i := range name {
		name[i] = 'n'
	}
	name[n-1] = nondetByte()
	vAssume(name[n-1] != 0)
	execs := 0
	stmt := func(ctx context.Context, dw DataWriter, params []Parameter) error {
		execs++
		return dw.Complete("T")
	}
	parse := func(ctx context.Context, query string) (PreparedStatements, error) {
		return Prepared(NewStatement(stmt)), nil
	}
	srv, err := NewServer(parse, MessageBufferSize(32768))
	vAssert("newserver-ok", err == nil)
	input := vCat(
		vMsgBytes('P', vCat(vCStr(name), vCStr([]byte("q")), vU16(0))),
		vMsgBytes('D', vCat([]byte{'S'}, vCStr(name))),
		vMsgBytes('B', vCat(vCStr(name), vCStr(name), vU16(0), vU16(0), vU16(0))),
		vMsgBytes('D', vCat([]byte{'P'}, vCStr(name))),
		vMsgBytes('E', vCat(vCStr(name), vU32(0))),
		vMsgBytes('C', vCat([]byte{'P'}, vCStr(name))),
		vMsgBytes('C', vCat([]byte{'S'}, vCStr(name))),
		vMsgBytes('S', nil))
	w := &vWorld{srv: srv}
	w.conn = vNewConn(input)
	w.ses, w.rd, w.wr = vSession(srv, w.conn)
	w.ctx = vCtx(srv)
	for i := 0; i < 8; i++ {
		_, e := w.step()
		vAssert("connection-stays-up", e == nil)
	}
	vAssert("every-message-below-the-limit-is-processed", vTypes(w.conn.out) == "1tn2nC33Z")
	vAssert("statement-ran-once", execs == 1)
	vAssert("wire-wellformed", vWireOK(w.conn.out))
	vReach("control-messages-longer-than-ten-thousand-bytes")
}

// ---------------------------------------------------------------------------
// H18q — a text handed to a callback outlives the statement it defined (C18):
// Parse of a named statement whose query is ~3000 bytes (the parse callback
// keeps the string it was given), Close of that statement (or of another, or no
// Close at all — the solver's choice), Sync, then a simple Query of ~2000 bytes
// that no longer fits into what is left of the first 4 KiB granule, and one
// more of ~3000 bytes. The kept text is still the text the client sent.
// ---------------------------------------------------------------------------
func VerifH18q() {
	n1 := vParam("FIRST", 3000)
	q1 := make([]byte, n1)
	for i := range q1 {
		q1[i] = 'a'
	}
	q1[0], q1[n1-1] = nondetByte(), nondetByte()
	vAssume(vAnd(q1[0] > ' ', q1[0] < 0x7f))
	vAssume(q1[n1-1] != 0)
	var kept string
	var copyOf []byte
	parse := func(ctx context.Context, query string) (PreparedStatements, error) {
		if kept == "" {
			kept = query
			copyOf = append([]byte{}, query...)
		}
		fn := func(ctx context.Context, dw DataWriter, params []Parameter) error { return dw.Complete("T") }
		return Prepared(NewStatement(fn)), nil
	}
	srv, err := NewServer(parse)
	vAssert("newserver-ok", err == nil)
	big := func(n int, fill byte) []byte {
		b := make([]byte, n)
		for i := range b {
			b[i] = fill
		}
		return b
	}
	input := vMsgBytes('P', vCat(vCStr([]byte("s")), vCStr(q1), vU16(0)))
	steps := 1
	switch vChoose(3) {
	case 0:
		input = vCat(input, vMsgBytes('C', vCat([]byte{'S'}, vCStr([]byte("s")))))
		steps++
		vReach("the-statement-is-closed-before-the-later-traffic")
	case 1:
		input = vCat(input, vMsgBytes('C', vCat([]byte{'S'}, vCStr([]byte("other")))))
		steps++
	}
	input = vCat(input, vMsgBytes('S', nil),
		vMsgBytes('Q', vCStr(big(vParam("SECOND", 2000), 'x'))),
		vMsgBytes('Q', vCStr(big(n1, 'y'))))
	steps += 3
	w := &vWorld{srv: srv}
	w.conn = vNewConn(input)
	w.ses, w.rd, w.wr = vSession(srv, w.conn)
	w.ctx = vCtx(srv)
	for i := 0; i < steps; i++ {
		_, e := w.step()
		vAssert("connection-stays-up", e == nil)
	}
	vAssert("parse-callback-ran", copyOf != nil)
	vAssert("query-text-kept-by-the-parse-callback-unchanged-by-later-traffic", vEqStr(kept, string(copyOf)))
	vReach("later-messages-beyond-the-first-granule")
}

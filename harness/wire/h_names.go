package wire

// ---------------------------------------------------------------------------
// H07a — statement and portal names resolve to the latest definition (C07).
// Histories of K operations over names that are symbolic strings of length
// 0..1, so the solver (not a pool) decides when two names coincide. Every
// operation is followed by a Sync so that each starts in normal mode.
// ---------------------------------------------------------------------------

type vNamedStmt struct {
	name []byte
	info *vStmtInfo
}

type vNamedPortal struct {
	name []byte
	info *vStmtInfo
}

func vSymName() []byte {
	// LONGNAME > 0: a name may also be LONGNAME concrete bytes followed by one
	// symbolic byte — two such names differ only beyond any identifier-length
	// threshold below LONGNAME
	if long := vParam("LONGNAME", 0); long > 0 && nondetBool() {
		b := make([]byte, long+1)
		for i := range b {
			b[i] = 'n'
		}
		b[long] = nondetByte()
		vAssume(b[long] != 0)
		return b
	}
	b := nondetBytes(vChoose(2))
	vAssume(vNoNUL(b))
	return b
}

func VerifH07a() {
	K := vParam("K", 3)
	kinds := make([]int, K)
	n1 := make([][]byte, K)
	n2 := make([][]byte, K)
	var input []byte
	sync := vMsgBytes('S', nil)
	for i := 0; i < K; i++ {
		kinds[i] = vChoose(vParam("KINDS", 8)) // 8: with the simple-query kind; 7: without
		n1[i] = vSymName()
		switch kinds[i] {
		case 0: // Parse n1
			input = append(input, vMsgBytes('P', vCat(vCStr(n1[i]), vCStr([]byte("q")), vU16(0)))...)
		case 1: // Bind portal n1 to statement n2
			n2[i] = vSymName()
			input = append(input, vMsgBytes('B', vCat(vCStr(n1[i]), vCStr(n2[i]), vU16(0), vU16(0), vU16(0)))...)
		case 2:
			input = append(input, vMsgBytes('D', vCat([]byte{'S'}, vCStr(n1[i])))...)
		case 3:
			input = append(input, vMsgBytes('D', vCat([]byte{'P'}, vCStr(n1[i])))...)
		case 4:
			input = append(input, vMsgBytes('E', vCat(vCStr(n1[i]), vU32(0)))...)
		case 5:
			input = append(input, vMsgBytes('C', vCat([]byte{'S'}, vCStr(n1[i])))...)
		case 6:
			input = append(input, vMsgBytes('C', vCat([]byte{'P'}, vCStr(n1[i])))...)
		case 7: // a simple query in between: it defines and alters no name, not even the unnamed ones
			input = append(input, vMsgBytes('Q', vCStr([]byte("s")))...)
		}
		input = append(input, sync...)
	}
	w := vNewWorld(input, 64)
	w.execMenu = 1 // statements write one row and complete
	var stmts []vNamedStmt
	var portals []vNamedPortal
	findStmt := func(name []byte) *vStmtInfo {
		for k := len(stmts) - 1; k >= 0; k-- {
			if vEqBytes(stmts[k].name, name) {
				return stmts[k].info
			}
		}
		return nil
	}
	findPortal := func(name []byte) *vStmtInfo {
		for k := len(portals) - 1; k >= 0; k-- {
			if vEqBytes(portals[k].name, name) {
				return portals[k].info
			}
		}
		return nil
	}
	rebound, reparsed, sawSimple := false, false, false
	// portals built from a statement that was closed afterwards: whether they
	// survive (this library) or are closed with it (PostgreSQL) is not settled
	// by the property; both are accepted
	stmtClosed := map[*vStmtInfo]bool{}
	for i := 0; i < K; i++ {
		before := len(w.events)
		// ParseFn stub: one statement with 1 or 0 columns (so Describe tells them apart)
		w.parseMenu = 0
		got, err := vStepParse(w)
		vAssert("connection-stays-up", err == nil)
		var ran *vStmtInfo
		for _, e := range w.events[before:] {
			if e.kind == 'x' {
				ran = w.stmts[e.id]
			}
		}
		switch kinds[i] {
		case 0:
			vAssert("parse-complete", got == "1")
			if findStmt(n1[i]) != nil {
				reparsed = true
			}
			stmts = append(stmts, vNamedStmt{n1[i], w.lastParse[0]})
		case 1:
			st := findStmt(n2[i])
			if st == nil {
				vAssert("bind-unknown-statement-is-error", got == "E")
			} else {
				vAssert("bind-complete", got == "2")
				if findPortal(n1[i]) != nil {
					rebound = true
				}
				portals = append(portals, vNamedPortal{n1[i], st})
			}
		case 2:
			st := findStmt(n1[i])
			if st == nil {
				vAssert("describe-unknown-statement-is-error", got == "E")
			} else {
				vAssert("describe-statement-uses-latest-definition", got == "t"+vDescOf(st))
			}
		case 3:
			st := findPortal(n1[i])
			if st == nil {
				vAssert("describe-unknown-portal-is-error", got == "E")
			} else if stmtClosed[st] {
				vAssert("describe-portal-of-closed-statement", got == vDescOf(st) || got == "E")
			} else {
				vAssert("describe-portal-uses-bound-statement", got == vDescOf(st))
			}
		case 4:
			st := findPortal(n1[i])
			if st == nil {
				vAssert("execute-unknown-portal-is-error", got == "E")
				vAssert("execute-unknown-portal-runs-nothing", ran == nil)
			} else if stmtClosed[st] {
				vAssert("execute-portal-of-closed-statement", ran == st || (ran == nil && got == "E"))
			} else {
				vAssert("execute-runs-the-statement-bound-at-bind-time", ran == st)
				if reparsed {
					vReach("execute-after-reparse")
				}
				if sawSimple {
					vReach("execute-after-a-simple-query")
				}
			}
		case 5:
			vAssert("close-complete", got == "3")
			if st := findStmt(n1[i]); st != nil {
				stmtClosed[st] = true
			}
			stmts = append(stmts, vNamedStmt{n1[i], nil})
			vReach("closed-statement")
		case 6:
			vAssert("close-complete", got == "3")
			portals = append(portals, vNamedPortal{n1[i], nil})
		case 7:
			vAssert("simple-query-cycle", vCount(got, 'Z') == 1 && got[len(got)-1] == 'Z')
			sawSimple = true
		}
		gotS, errS := w.step()
		vAssert("sync-ready", errS == nil && gotS == "Z")
	}
	if rebound {
		vReach("portal-rebound")
	}
	if sawSimple {
		vReach("simple-query-in-history")
	}
}

// vStepParse runs one step with a ParseFn that always yields exactly one
// statement whose column count (1 or 0) is chosen by the solver.
func vStepParse(w *vWorld) (string, error) {
	w.parseMenu = -1
	return w.step()
}

// H07c — the re-parse/re-bind skeleton with symbolic names: Parse s1; Bind
// p1->s2; Parse s3; Execute p2; Bind p3->s4; Execute p4. Whether names
// coincide is the solver's choice; the reference decides what must run.
func VerifH07c() {
	s1, p1, s2, s3, p2, p3, s4, p4 := vSymName(), vSymName(), vSymName(), vSymName(), vSymName(), vSymName(), vSymName(), vSymName()
	sync := vMsgBytes('S', nil)
	parse := func(n []byte) []byte {
		return vCat(vMsgBytes('P', vCat(vCStr(n), vCStr([]byte("q")), vU16(0))), sync)
	}
	bind := func(p, s []byte) []byte {
		return vCat(vMsgBytes('B', vCat(vCStr(p), vCStr(s), vU16(0), vU16(0), vU16(0))), sync)
	}
	exec := func(p []byte) []byte { return vCat(vMsgBytes('E', vCat(vCStr(p), vU32(0))), sync) }
	input := vCat(parse(s1), bind(p1, s2), parse(s3), exec(p2), bind(p3, s4), exec(p4))
	w := vNewWorld(input, 64+4*vParam("LONGNAME", 0))
	w.execMenu = 1
	w.parseMenu = -1
	type ent struct {
		name []byte
		info *vStmtInfo
	}
	var stmts, portals []ent
	find := func(tab []ent, name []byte) *vStmtInfo {
		for k := len(tab) - 1; k >= 0; k-- {
			if vEqBytes(tab[k].name, name) {
				return tab[k].info
			}
		}
		return nil
	}
	ranOf := func(before int) *vStmtInfo {
		for _, e := range w.events[before:] {
			if e.kind == 'x' {
				return w.stmts[e.id]
			}
		}
		return nil
	}
	step2 := func() string {
		got, err := w.step()
		vAssert("connection-stays-up", err == nil)
		z, errZ := w.step()
		vAssert("sync-ready", errZ == nil && z == "Z")
		return got
	}
	vAssert("parse-1", step2() == "1")
	stmts = append(stmts, ent{s1, w.lastParse[0]})
	first := w.lastParse[0]
	got := step2()
	if st := find(stmts, s2); st != nil {
		vAssert("bind-1", got == "2")
		portals = append(portals, ent{p1, st})
	} else {
		vAssert("bind-1-unknown", got == "E")
	}
	vAssert("parse-2", step2() == "1")
	stmts = append(stmts, ent{s3, w.lastParse[0]})
	before := len(w.events)
	got = step2()
	if st := find(portals, p2); st != nil {
		vAssert("execute-1-runs-statement-bound-at-bind-time", ranOf(before) == st)
		if vEqBytes(s1, s3) && st == first {
			vReach("reparse-does-not-change-bound-portal")
		}
	} else {
		vAssert("execute-1-unknown", got == "E" && ranOf(before) == nil)
	}
	got = step2()
	if st := find(stmts, s4); st != nil {
		vAssert("bind-2", got == "2")
		portals = append(portals, ent{p3, st})
	} else {
		vAssert("bind-2-unknown", got == "E")
	}
	before = len(w.events)
	got = step2()
	if st := find(portals, p4); st != nil {
		vAssert("execute-2-runs-latest-binding", ranOf(before) == st)
		if st != first {
			vReach("rebind-picks-up-new-definition")
		}
	} else {
		vAssert("execute-2-unknown", got == "E" && ranOf(before) == nil)
	}
}

// ---------------------------------------------------------------------------
// H07e — Close affects exactly the named object of the named kind (C07):
// Parse s1; Bind p1->s1; Close <kind> n (kind and name symbolic, so the
// solver may close the statement, the portal, a statement that happens to be
// called like the portal, or something unknown); then Describe statement s2,
// Describe portal p2 and Execute p3. Closing a portal leaves the statement
// usable; closing a statement leaves a portal of the same name that was built
// from ANOTHER statement usable. (Whether closing a statement also closes the
// portals built from it — PostgreSQL does — is not settled by the property:
// both behaviours are accepted.)
// ---------------------------------------------------------------------------
func VerifH07e() {
	s1, p1, n, s4, s2, p2, p3 := vSymName(), vSymName(), vSymName(), vSymName(), vSymName(), vSymName(), vSymName()
	closeStmt := nondetBool()
	sync := vMsgBytes('S', nil)
	kind := byte('P')
	if closeStmt {
		kind = 'S'
	}
	input := vCat(
		vMsgBytes('P', vCat(vCStr(s1), vCStr([]byte("q")), vU16(0))), sync,
		vMsgBytes('B', vCat(vCStr(p1), vCStr(s1), vU16(0), vU16(0), vU16(0))), sync,
		vMsgBytes('C', vCat([]byte{kind}, vCStr(n))), sync,
		// another statement is parsed after the Close (it may reuse any name)
		vMsgBytes('P', vCat(vCStr(s4), vCStr([]byte("r")), vU16(0))), sync,
		vMsgBytes('D', vCat([]byte{'S'}, vCStr(s2))), sync,
		vMsgBytes('D', vCat([]byte{'P'}, vCStr(p2))), sync,
		vMsgBytes('E', vCat(vCStr(p3), vU32(0))), sync,
	)
	// CUSTOMCACHES=1: the embedder may install caches of its own through the
	// Statements/Portals options — here the simplest ones: types that embed the
	// default caches (and so have everything they have, Close included)
	var opts []OptionFn
	if vParam("CUSTOMCACHES", 0) == 1 {
		// (fewer free names in this configuration: the later Parse and the two
		// Describes use the first statement's and portal's names)
		vAssume(vAnd(vEqBytes(s4, s1), vAnd(vEqBytes(s2, s1), vEqBytes(p2, p1))))
		opts = append(opts,
			Statements(func() StatementCache { return &vEmbedStatements{&DefaultStatementCache{}} }),
			Portals(func() PortalCache { return &vEmbedPortals{&DefaultPortalCache{}} }))
		vReach("caches-installed-through-the-options")
	}
	w := vNewWorld(input, 64+4*vParam("LONGNAME", 0), opts...)
	w.execMenu = 1
	w.parseMenu = -1
	step2 := func() string {
		got, err := w.step()
		vAssert("connection-stays-up", err == nil)
		z, errZ := w.step()
		vAssert("sync-ready", errZ == nil && z == "Z")
		return got
	}
	vAssert("parse", step2() == "1")
	st := w.lastParse[0]
	vAssert("bind", step2() == "2")
	vAssert("close-complete", step2() == "3")
	vAssert("second-parse", step2() == "1")
	st2 := w.lastParse[0]
	firstAlive := !(closeStmt && vEqBytes(n, s1)) && !vEqBytes(s4, s1) // s1 still names the first statement
	portalAlive := !(!closeStmt && vEqBytes(n, p1))
	portalUnspecified := closeStmt && vEqBytes(n, s1) // its statement was closed
	got := step2()
	switch {
	case vEqBytes(s2, s4):
		vAssert("latest-statement-described", got == "t"+vDescOf(st2))
	case vEqBytes(s2, s1) && firstAlive:
		vAssert("statement-still-described", got == "t"+vDescOf(st))
	default:
		vAssert("unknown-or-closed-statement-is-error", got == "E")
	}
	got = step2()
	if vEqBytes(p2, p1) && portalUnspecified {
		vAssert("portal-of-closed-statement-described-or-error", got == vDescOf(st) || got == "E")
	} else if vEqBytes(p2, p1) && portalAlive {
		vAssert("portal-still-described", got == vDescOf(st))
	} else {
		vAssert("unknown-or-closed-portal-is-error", got == "E")
	}
	before := len(w.events)
	got = step2()
	ran, ranOther := false, false
	for _, e := range w.events[before:] {
		if e.kind == 'x' {
			if w.stmts[e.id] == st {
				ran = true
			} else {
				ranOther = true
			}
		}
	}
	// whatever happens to a portal, it never comes to run a statement it was not bound to
	vAssert("a-portal-never-runs-another-statement", !ranOther)
	if vEqBytes(p3, p1) && portalUnspecified {
		vAssert("portal-of-closed-statement-runs-or-error", ran || got == "E")
		vReach("portal-of-a-closed-statement-executed-after-another-parse")
	} else if vEqBytes(p3, p1) && portalAlive {
		vAssert("portal-still-executes-its-statement", ran)
		if closeStmt && vEqBytes(n, p1) {
			vReach("closing-a-statement-named-like-the-portal")
		}
	} else {
		vAssert("unknown-or-closed-portal-runs-nothing", got == "E" && !ran)
		if !closeStmt && vEqBytes(n, p1) && vEqBytes(p3, p1) {
			vReach("closed-portal-unresolvable")
		}
	}
}

type vEmbedStatements struct{ *DefaultStatementCache }
type vEmbedPortals struct{ *DefaultPortalCache }

// ---------------------------------------------------------------------------
// H07r — a Parse always (re)defines its name (C07): Parse s1 "q"; Close
// statement n; Parse s2 with the SAME query text; Describe statement s3; Bind
// to s3. Whether the names coincide is the solver's choice. After the second
// Parse its name resolves — whatever was parsed or closed before, and although
// the text is byte-identical to an earlier Parse — and the parser was
// consulted for it.
// ---------------------------------------------------------------------------
func VerifH07r() {
	s1, n, s2, s3 := vSymName(), vSymName(), vSymName(), vSymName()
	sync := vMsgBytes('S', nil)
	parse := func(name []byte) []byte {
		return vCat(vMsgBytes('P', vCat(vCStr(name), vCStr([]byte("q")), vU16(0))), sync)
	}
	input := vCat(parse(s1),
		vMsgBytes('C', vCat([]byte{'S'}, vCStr(n))), sync,
		parse(s2),
		vMsgBytes('D', vCat([]byte{'S'}, vCStr(s3))), sync,
		vMsgBytes('B', vCat(vCStr(nil), vCStr(s3), vU16(0), vU16(0), vU16(0))), sync)
	w := vNewWorld(input, 64+4*vParam("LONGNAME", 0))
	w.execMenu = 1
	w.parseMenu = -1
	step2 := func() string {
		got, err := w.step()
		vAssert("connection-stays-up", err == nil)
		z, errZ := w.step()
		vAssert("sync-ready", errZ == nil && z == "Z")
		return got
	}
	vAssert("parse-1", step2() == "1")
	first := w.lastParse[0]
	vAssert("close-complete", step2() == "3")
	parsesBefore := w.countEvents('p')
	vAssert("parse-2", step2() == "1")
	vAssert("second-parse-consults-the-parser", w.countEvents('p') == parsesBefore+1)
	second := w.lastParse[0]
	var want *vStmtInfo
	switch {
	case vEqBytes(s3, s2):
		want = second
	case vEqBytes(s3, s1) && !vEqBytes(n, s1):
		want = first
	}
	got := step2()
	if want != nil {
		vAssert("describe-resolves-the-latest-definition", got == "t"+vDescOf(want))
	} else {
		vAssert("describe-unknown-is-error", got == "E")
	}
	got = step2()
	if want != nil {
		vAssert("bind-resolves-the-latest-definition", got == "2")
	} else {
		vAssert("bind-unknown-is-error", got == "E")
	}
	if vEqBytes(s1, s2) && vEqBytes(n, s1) && vEqBytes(s3, s1) {
		vReach("reparsed-after-close-with-identical-text")
	}
}

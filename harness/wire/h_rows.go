package wire

import (
	"time"
	"context"
	"log/slog"

	"github.com/jackc/pgx/v5/pgtype"
	"github.com/jeroenrinzema/psql-wire/pkg/buffer"
	"github.com/lib/pq/oid"
)

// vValue draws one source value from the encode-model menu (DESIGN §3) and
// returns it with what the codec contract says must be framed.
//
//	kind 0 untyped nil, 1 typed nil pointer, 2 invalid nullable  -> NULL
//	kind 3 string, 4 []byte (non-nil, possibly empty), 6 *string  -> those bytes
//	kind 5 a value no codec accepts                               -> error
// vLongLens: value lengths around the sizes at which buffers and length
// fields commonly change behaviour.
var vLongLens = []int{59, 60, 61, 62, 63, 64, 65, 66, 127, 128, 129, 255, 256, 257, 4095, 4096, 4097, 5000, 8200}

func vValue(maxLen int) (src any, null bool, payload []byte, unenc bool) {
	if vParam("LONGVALS", 0) > 0 && nondetBool() {
		// a long text value: n-1 concrete bytes and one symbolic byte at the end
		n := vLongLens[vChoose(len(vLongLens))]
		b := make([]byte, n)
		for i := range b {
			b[i] = 'v'
		}
		b[n-1] = nondetByte()
		vReach("long-value")
		return string(b), false, b, false
	}
	switch vChoose(7) {
	case 0:
		return nil, true, nil, false
	case 1:
		return (*string)(nil), true, nil, false
	case 2:
		return pgtype.Text{Valid: false}, true, nil, false
	case 3:
		b := nondetBytes(vChoose(maxLen + 1))
		return string(b), false, b, false
	case 4:
		b := nondetBytes(vChoose(maxLen + 1))
		return b, false, b, false
	case 5:
		return vUnencodable{1}, false, nil, true
	default:
		b := nondetBytes(vChoose(maxLen + 1))
		s := string(b)
		return &s, false, b, false
	}
}

func vFormats(n int) []FormatCode {
	// admissible counts: 0, 1, n
	var k int
	switch vChoose(3) {
	case 0:
		k = 0
	case 1:
		k = 1
	default:
		k = n
	}
	f := make([]FormatCode, k)
	for i := range f {
		f[i] = FormatCode(vChoose(2))
	}
	return f
}

func vFormatFor(formats []FormatCode, i int) FormatCode {
	switch {
	case len(formats) == 0:
		return TextFormat
	case len(formats) == 1:
		return formats[0]
	default:
		return formats[i]
	}
}

// ---------------------------------------------------------------------------
// H09a — a row arrives as one DataRow, NULL stays NULL (C09; also C02 for
// DataRow/RowDescription and the "rejected row emits nothing" clause of C05)
// ---------------------------------------------------------------------------
func VerifH09a() {
	srv, _ := NewServer(nil)
	ctx := vCtx(srv)
	nc := 1 + vChoose(vParam("COLS", 2))
	columns := make(Columns, nc)
	srcs := make([]any, nc)
	null := make([]bool, nc)
	payload := make([][]byte, nc)
	anyUnenc := false
	typedNull := false
	for i := 0; i < nc; i++ {
		// every descriptive field of the column is arbitrary (a width of -1 is
		// PostgreSQL's own typlen for text): none of them affects the value sent
		columns[i] = Column{Name: "c", Oid: oid.T_text, Table: int32(nondetU32()), ID: int32(nondetU32()),
			Attr: int16(nondetU16()), AttrNo: int16(nondetU16()), Width: int16(nondetU16()), TypeModifier: int32(nondetU32())}
		var un bool
		srcs[i], null[i], payload[i], un = vValue(vParam("VLEN", 2))
		if un {
			anyUnenc = true
		}
		if null[i] && srcs[i] != nil {
			typedNull = true
		}
	}
	formats := vFormats(nc)
	conn := vNewConn(nil)
	w := buffer.NewWriter(slog.Default(), conn)

	// RowDescription first: its field count must match the DataRow's
	vAssert("define-ok", columns.Define(ctx, w, formats) == nil)
	hdr, ok := vFrames(conn.out)
	vAssert("rowdescription-framed", ok && len(hdr) == 1 && hdr[0].typ == 'T' && vBodyOK(hdr[0]))
	vAssert("rowdescription-count", vBE16(hdr[0].body, 0) == nc)
	conn.out = nil

	err := columns.Write(ctx, formats, w, srcs)
	if anyUnenc {
		vAssert("unencodable-is-error", err != nil)
		vAssert("unencodable-emits-nothing", len(conn.out) == 0)
		// and the abandoned frame does not corrupt the next message
		vAssert("next-message-ok", readyForQuery(w, 'I') == nil)
		vAssert("next-message-clean", vTypes(conn.out) == "Z" && vWireOK(conn.out))
		vReach("unencodable")
		return
	}
	vAssert("row-ok", err == nil)
	msgs, ok := vFrames(conn.out)
	vAssert("datarow-framed", ok && len(msgs) == 1 && msgs[0].typ == 'D')
	want := vU16(nc)
	for i := 0; i < nc; i++ {
		if null[i] {
			want = append(want, 0xFF, 0xFF, 0xFF, 0xFF)
		} else {
			want = append(want, vU32(uint32(len(payload[i])))...)
			want = append(want, payload[i]...)
		}
	}
	vAssertK("datarow-body", "KF-C09-1", typedNull, vEqBytes(msgs[0].body, want))
	if typedNull {
		vReach("typed-null")
	}
	for i := 0; i < nc; i++ {
		if !null[i] && len(payload[i]) == 0 {
			vReach("non-null-empty")
		}
	}
}

// H09w — wrong arity is rejected and emits nothing.
func VerifH09w() {
	srv, _ := NewServer(nil)
	ctx := vCtx(srv)
	nc := 1 + vChoose(2)
	ns := vChoose(4)
	vAssume(ns != nc)
	columns := make(Columns, nc)
	for i := range columns {
		columns[i] = Column{Name: "c", Oid: oid.T_text}
	}
	srcs := make([]any, ns)
	for i := range srcs {
		srcs[i] = "x"
	}
	conn := vNewConn(nil)
	w := buffer.NewWriter(slog.Default(), conn)
	err := columns.Write(ctx, nil, w, srcs)
	if ns > nc {
		vReach("too-many-values")
	}
	// (C02's weaker reading first: whatever a wrong-arity row puts on the wire is well-formed)
	vAssert("wrong-arity-output-wellformed", vWireOK(conn.out))
	vAssert("wrong-arity-is-error", err != nil)
	vAssert("wrong-arity-emits-nothing", len(conn.out) == 0)
	// (C02's weaker reading: whatever a wrong-arity row leaves behind, what
	// reaches the client — with the next, correct row — is well-formed)
	good := make([]any, nc)
	for i := range good {
		good[i] = "y"
	}
	vAssert("next-row-ok", columns.Write(ctx, nil, w, good) == nil)
	vAssert("wrong-arity-then-good-row-wellformed", vWireOK(conn.out))
	vReach("wrong-arity")
}

// ---------------------------------------------------------------------------
// H09d — RowDescription content (C09/C08/C02): every field of every column
// definition is symbolic; the message must carry, per column, the name, table
// id, attribute number, type OID, width, type modifier -1 and the format code
// chosen by the none/one/n rule, in the protocol's order.
// ---------------------------------------------------------------------------
func VerifH09d() {
	srv, _ := NewServer(nil)
	ctx := vCtx(srv)
	nc := 1 + vChoose(vParam("COLS", 2))
	cols := make(Columns, nc)
	names := make([][]byte, nc)
	for i := range cols {
		names[i] = nondetBytes(vChoose(3))
		vAssume(vNoNUL(names[i]))
		cols[i] = Column{
			Table: int32(nondetU32()), ID: int32(nondetU32()), Attr: int16(nondetU16()), Name: string(names[i]),
			AttrNo: int16(nondetU16()), Oid: oid.Oid(nondetU32()), Width: int16(nondetU16()), TypeModifier: int32(nondetU32()),
		}
	}
	formats := vFormats(nc)
	conn := vNewConn(nil)
	w := buffer.NewWriter(slog.Default(), conn)
	vAssert("define-ok", cols.Define(ctx, w, formats) == nil)
	msgs, ok := vFrames(conn.out)
	vAssert("one-RowDescription", ok && len(msgs) == 1 && msgs[0].typ == 'T' && vBodyOK(msgs[0]))
	// the type modifier is not pinned down by any property: -1 ("no modifier",
	// what the library writes today) and the column's own TypeModifier are both
	// accepted; everything else is exact
	want := vU16(nc)
	wantMod := vU16(nc)
	for i, c := range cols {
		for _, dst := range []*[]byte{&want, &wantMod} {
			*dst = append(*dst, vCStr(names[i])...)
			*dst = append(*dst, vU32(uint32(c.Table))...)
			*dst = append(*dst, vU16(int(uint16(c.AttrNo)))...)
			*dst = append(*dst, vU32(uint32(c.Oid))...)
			*dst = append(*dst, vU16(int(uint16(c.Width)))...)
			if dst == &want {
				*dst = append(*dst, 0xFF, 0xFF, 0xFF, 0xFF)
			} else {
				*dst = append(*dst, vU32(uint32(c.TypeModifier))...)
			}
			*dst = append(*dst, vU16(int(uint16(vFormatFor(formats, i))))...)
		}
	}
	vAssert("rowdescription-content", vOr(vEqBytes(msgs[0].body, want), vEqBytes(msgs[0].body, wantMod)))
	if nc == 2 {
		vReach("two-columns")
	}
	// a column derived from one that has been described already (a copy of the
	// described element with another name, type and width — how a handler
	// builds one statement's columns from a catalogue entry) is described by its
	// own fields
	{
		d := cols[0]
		dn := nondetBytes(1 + vChoose(2))
		vAssume(vNoNUL(dn))
		d.Name, d.Oid, d.Width = string(dn), oid.Oid(nondetU32()), int16(nondetU16())
		conn.out = nil
		vAssert("define-derived-ok", Columns{d}.Define(ctx, w, nil) == nil)
		dm, dok := vFrames(conn.out)
		vAssert("derived-one-RowDescription", dok && len(dm) == 1 && dm[0].typ == 'T' && vBodyOK(dm[0]))
		b := dm[0].body
		j := vCString(b, 2)
		vAssert("derived-column-described-by-its-own-fields", j > 0 && vEqBytes(b[2:j-1], dn) &&
			vBE32(b, j+6) == uint32(d.Oid) && vBE16(b, j+10) == int(uint16(d.Width)))
		vReach("column-derived-from-a-described-one")
	}
	// no columns: nothing is written (NoData is the Describe path's business)
	conn.out = nil
	vAssert("define-nothing-for-no-columns", Columns(nil).Define(ctx, w, nil) == nil && len(conn.out) == 0)
}

// ---------------------------------------------------------------------------
// H09m — a result set whose values change Go type from row to row (C09/C05):
// the same text column carries a string in one row, a []byte, a pgtype.Text or
// a NULL in the next. Each row must arrive as its own DataRow with the bytes of
// that row's value: nothing learnt from an earlier row (an encoder, a buffer)
// may be applied to a later one.
// ---------------------------------------------------------------------------
func vMixedValue() (src any, null bool, payload []byte) {
	switch vChoose(5) {
	case 0:
		return nil, true, nil
	case 1:
		b := nondetBytes(vChoose(vParam("VLEN", 1) + 1))
		return string(b), false, b
	case 2:
		b := nondetBytes(vChoose(vParam("VLEN", 1) + 1))
		return b, false, b
	case 3:
		b := nondetBytes(vChoose(vParam("VLEN", 1) + 1))
		return pgtype.Text{String: string(b), Valid: true}, false, b
	default:
		return pgtype.Text{Valid: false}, true, nil
	}
}

func VerifH09m() {
	srv, _ := NewServer(nil)
	ctx := vCtx(srv)
	nc := 1 + vChoose(vParam("COLS", 2))
	columns := make(Columns, nc)
	for i := range columns {
		columns[i] = Column{Name: "c", Oid: oid.T_text}
	}
	formats := vFormats(nc)
	conn := vNewConn(nil)
	w := buffer.NewWriter(slog.Default(), conn)
	rd := buffer.NewReader(slog.Default(), conn, 64)
	dw := NewDataWriter(ctx, columns, formats, rd, w)
	rows := 1 + vChoose(vParam("ROWS", 2))
	var want [][]byte
	var first []any
	for r := 0; r < rows; r++ {
		srcs := make([]any, nc)
		body := vU16(nc)
		for i := 0; i < nc; i++ {
			var null bool
			var payload []byte
			srcs[i], null, payload = vMixedValue()
			if null {
				body = append(body, 0xFF, 0xFF, 0xFF, 0xFF)
			} else {
				body = append(body, vU32(uint32(len(payload)))...)
				body = append(body, payload...)
			}
		}
		if r == 0 {
			first = srcs
		} else {
			for i := 0; i < nc; i++ {
				_, s0 := first[i].(string)
				_, s1 := srcs[i].(string)
				if first[i] != nil && srcs[i] != nil && s0 != s1 {
					vReach("type-changes-between-rows")
				}
				if first[i] == nil && srcs[i] != nil {
					vReach("null-then-value")
				}
			}
		}
		vAssert("mixed-row-ok", dw.Row(srcs) == nil)
		want = append(want, body)
	}
	vAssert("mixed-written-count", dw.Written() == uint64(rows))
	msgs, ok := vFrames(conn.out)
	vAssert("mixed-rows-framed", ok && len(msgs) == rows)
	for r := 0; r < rows; r++ {
		vAssert("mixed-row-is-datarow", msgs[r].typ == 'D')
		vAssert("mixed-row-body", vEqBytes(msgs[r].body, want[r]))
	}
}

// ---------------------------------------------------------------------------
// H09t — a connection's values are encoded with ITS type map (C09, C15): the
// type map handed out through TypeMap(ctx) is the connection's own to
// customise. A first connection registers a type of its own on it (in its
// session middleware) and ends; a second, ordinary connection on the same
// server then finds its map as a server that serves it alone would have built
// it: the first connection's type is not there, and its row is delivered.
// ---------------------------------------------------------------------------
func VerifH09t() {
	custom := uint32(100000 + vChoose(3))
	var foundLater, registered bool
	mw := SessionMiddleware(func(ctx context.Context) (context.Context, error) {
		if RemoteAddress(ctx).(vAddr).id == 0 {
			TypeMap(ctx).RegisterType(&pgtype.Type{Name: "verif_type", OID: custom, Codec: pgtype.TextCodec{}})
			_, registered = TypeMap(ctx).TypeForOID(custom)
		}
		return ctx, nil
	})
	parse := func(ctx context.Context, query string) (PreparedStatements, error) {
		fn := func(ctx context.Context, dw DataWriter, params []Parameter) error {
			if RemoteAddress(ctx).(vAddr).id == 1 {
				_, foundLater = TypeMap(ctx).TypeForOID(custom)
			}
			if err := dw.Row([]any{"v"}); err != nil {
				return err
			}
			return dw.Complete("T")
		}
		return Prepared(NewStatement(fn, WithColumns(vTextColumns(1)))), nil
	}
	srv, err := NewServer(parse, MessageBufferSize(64), mw)
	vAssert("newserver-ok", err == nil)
	traffic := vCat(vStartup(vKV([]byte("user"), []byte("u"))), vMsgBytes('Q', vCStr([]byte("q"))), vMsgBytes('X', nil))
	c1, c2 := vNewConn(traffic), vNewConn(traffic)
	c2.id = 1
	srv.serve(context.Background(), c1) //nolint
	srv.serve(context.Background(), c2) //nolint
	vAssert("the-first-connection-sees-its-own-registration", registered)
	vAssert("a-later-connection-does-not-inherit-an-earlier-one's-types", !foundLater)
	vAssert("both-rows-delivered", vCount(vTypes(c1.out), 'D') == 1 && vCount(vTypes(c2.out), 'D') == 1 && vWireOK(c2.out))
	vReach("type-registered-by-an-earlier-connection")
}

// ---------------------------------------------------------------------------
// H09z — a value reaches the encoder as the handler gave it (C09): a
// time.Time in a Location of its own (UTC+2, thirty minutes past midnight —
// another calendar day in UTC) written into a timestamp, date, time or
// timestamptz column, text or binary. pgx encodes timestamp/date/time from the
// wall clock in the value's own Location, so the field the client receives must
// be what the connection's type map encodes for THAT value — compared here with
// Encode of the handler's value through the same map.
// ---------------------------------------------------------------------------
func VerifH09z() {
	columnOid := []oid.Oid{oid.T_timestamp, oid.T_date, oid.T_time, oid.T_timestamptz}[vChoose(4)]
	format := FormatCode(vChoose(2))
	tv := time.Unix(1710023400, 0).In(time.FixedZone("+02", 2*60*60)) // 2024-03-10 00:30:00 +02
	var want []byte
	var wantErr error
	stmt := func(ctx context.Context, dw DataWriter, params []Parameter) error {
		want, wantErr = TypeMap(ctx).Encode(uint32(columnOid), int16(format), tv, nil)
		if err := dw.Row([]any{tv}); err != nil {
			return err
		}
		return dw.Complete("SELECT 1")
	}
	parse := func(ctx context.Context, query string) (PreparedStatements, error) {
		return Prepared(NewStatement(stmt, WithColumns(Columns{{Name: "c", Oid: columnOid}}))), nil
	}
	srv, err := NewServer(parse, MessageBufferSize(64))
	vAssert("newserver-ok", err == nil)
	w := &vWorld{srv: srv}
	if format == BinaryFormat {
		// (binary results are requested through Bind)
		w.conn = vNewConn(vCat(vMsgBytes('P', vCat(vCStr(nil), vCStr([]byte("q")), vU16(0))),
			vMsgBytes('B', vCat(vCStr(nil), vCStr(nil), vU16(0), vU16(0), vU16(1), vU16(1))),
			vMsgBytes('E', vCat(vCStr(nil), vU32(0)))))
	} else {
		w.conn = vNewConn(vMsgBytes('Q', vCStr([]byte("q"))))
	}
	w.ses, w.rd, w.wr = vSession(srv, w.conn)
	w.ctx = vCtx(srv)
	steps := 1
	if format == BinaryFormat {
		steps = 3
	}
	for i := 0; i < steps; i++ {
		_, e := w.step()
		vAssert("connection-stays-up", e == nil)
	}
	vAssert("reference-encoding-ok", wantErr == nil && len(want) > 0)
	msgs, ok := vFrames(w.conn.out)
	vAssert("wire-wellformed", ok)
	found := false
	for _, m := range msgs {
		if m.typ != 'D' {
			continue
		}
		found = true
		b := m.body
		vAssert("one-field", len(b) >= 6 && vBE16(b, 0) == 1)
		n := int(b[2])<<24 | int(b[3])<<16 | int(b[4])<<8 | int(b[5])
		vAssert("the-field-is-the-encoding-of-the-handler's-value", n == len(want) && len(b) == 6+n && vEqBytes(b[6:], want))
	}
	vAssert("row-delivered", found)
	vReach("zoned-time-value-written")
}

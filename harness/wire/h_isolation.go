package wire

import (
	"context"
	"sync"

	"github.com/jackc/pgx/v5/pgtype"
)

// ---------------------------------------------------------------------------
// H15 — conflict-freedom lemma (C15). Two connections are served by one
// Server through the real serve path, each with its own solver-chosen
// traffic (startup with a symbolic user, Parse/Bind/Execute writing one row,
// a simple query), using the same statement/portal names. The engine records
// every heap cell the library reads or writes under each connection's origin
// tag, with the locks held. Assert: no cell written on behalf of one
// connection is read or written on behalf of the other, unless both accesses
// are sync/atomic operations or hold a common lock.
//
// From the lemma to the property (argument, DESIGN §7 C15): steps of
// different connections that touch disjoint mutable state commute, so every
// interleaving is equivalent to serving them one after the other.
// ---------------------------------------------------------------------------
func vConnTraffic(user []byte, name []byte, extended, simple, auth bool) []byte {
	sync := vMsgBytes('S', nil)
	in := vStartup(vKV([]byte("user"), user))
	if auth {
		in = vCat(in, vMsgBytes('p', vCStr(user))) // the password is the user name
	}
	if extended {
		in = vCat(in,
			vMsgBytes('P', vCat(vCStr(name), vCStr([]byte("q")), vU16(0))),
			vMsgBytes('B', vCat(vCStr(name), vCStr(name), vU16(0), vU16(0), vU16(0))),
			vMsgBytes('D', vCat([]byte{'S'}, vCStr(name))),
			vMsgBytes('E', vCat(vCStr(name), vU32(0))), sync)
	}
	if simple {
		in = vCat(in, vMsgBytes('Q', vCStr([]byte("s"))))
	}
	return vCat(in, vMsgBytes('X', nil))
}

type vIsoState struct {
	cols   int
	rows   bool
	parses int
	execs  int
}

func VerifH15() {
	name := vSymName()
	u1, u2 := vSymText(1), vSymText(1)
	ext1, ext2 := nondetBool(), nondetBool()
	sim1, sim2 := nondetBool(), nondetBool()
	// per-connection callback behaviour, drawn up front (callbacks draw nothing,
	// so the native replay can run the two connections concurrently)
	st := [2]*vIsoState{{cols: vChoose(2), rows: nondetBool()}, {cols: vChoose(2), rows: nondetBool()}}
	parse := func(ctx context.Context, query string) (PreparedStatements, error) {
		me := st[RemoteAddress(ctx).(vAddr).id]
		me.parses++
		fn := func(ctx context.Context, dw DataWriter, params []Parameter) error {
			me.execs++
			if me.rows {
				row := make([]any, me.cols)
				for i := range row {
					row[i] = "v"
				}
				if err := dw.Row(row); err != nil {
					return err
				}
			}
			return dw.Complete("T")
		}
		return Prepared(NewStatement(fn, WithColumns(vTextColumns(me.cols)))), nil
	}
	// configuration: configured parameter map nil / empty but non-nil / one entry
	var global Parameters
	gkind := vChoose(3)
	switch gkind {
	case 1:
		global = Parameters{}
	case 2:
		global = Parameters{"app": "v"}
	}
	opts := []OptionFn{MessageBufferSize(64), GlobalParameters(global), Version("15"),
		SessionMiddleware(func(ctx context.Context) (context.Context, error) { return ctx, nil })}
	extended := nondetBool() // configuration: with or without a type extension registered
	if extended {
		opts = append(opts, ExtendTypes(func(m *pgtype.Map) {}))
	}
	withAuth := nondetBool() // configuration: clear-text password authentication
	authOK := [2]bool{true, true}
	if withAuth {
		opts = append(opts, SessionAuthStrategy(ClearTextPassword(func(ctx context.Context, db, user, pw string) (context.Context, bool, error) {
			// each connection must be validated with its own user name
			if user != pw {
				authOK[RemoteAddress(ctx).(vAddr).id] = false
			}
			return ctx, true, nil
		})))
	}
	srv, err := NewServer(parse, opts...)
	vAssert("newserver-ok", err == nil)
	c1 := vNewConn(vConnTraffic(u1, name, ext1, sim1, withAuth))
	c2 := vNewConn(vConnTraffic(u2, name, ext2, sim2, withAuth))
	c2.id = 1

	if vRaceMode() {
		// native replay of a footprint counterexample: the same two connections,
		// served concurrently under the race detector
		var wg sync.WaitGroup
		wg.Add(2)
		go func() { defer wg.Done(); srv.serve(context.Background(), c1) }() //nolint
		go func() { defer wg.Done(); srv.serve(context.Background(), c2) }() //nolint
		wg.Wait()
		return
	}
	vFootBegin()
	vOrigin("conn1")
	srv.serve(context.Background(), c1) //nolint
	vOrigin("conn2")
	srv.serve(context.Background(), c2) //nolint
	vOrigin("")
	vFootReport("no-unsynchronised-shared-access", "KF-C15-1")

	vAssert("wire-1-wellformed", vWireOK(c1.out))
	vAssert("wire-2-wellformed", vWireOK(c2.out))
	// each transcript is what that connection's own traffic and callbacks determine
	vAssert("each-connection-validated-with-its-own-credentials", authOK[0] && authOK[1])
	expect := func(s *vIsoState, ext, sim bool) string {
		want := "R"
		if withAuth {
			want = "RR"
		}
		out := ""
		d := "n"
		if s.cols > 0 {
			d = "T"
		}
		rows := ""
		if s.rows {
			rows = "D"
		}
		if ext {
			out += "12t" + d + rows + "CZ"
		}
		if sim {
			if s.cols > 0 {
				out += "T"
			}
			out += rows + "CZ"
		}
		return want + out
	}
	strip := func(out []byte) string { // drop ParameterStatus and the startup ReadyForQuery
		t := vTypes(out)
		r := ""
		seenZ := false
		for i := 0; i < len(t); i++ {
			if t[i] == 'S' {
				continue
			}
			if t[i] == 'Z' && !seenZ {
				seenZ = true
				continue
			}
			r += string(t[i])
		}
		return r
	}
	vAssert("conn1-transcript-as-if-alone", strip(c1.out) == expect(st[0], ext1, sim1))
	vAssert("conn2-transcript-as-if-alone", strip(c2.out) == expect(st[1], ext2, sim2))
	n := func(b bool) int {
		if b {
			return 1
		}
		return 0
	}
	vAssert("conn1-callbacks-as-if-alone", st[0].parses == n(ext1)+n(sim1) && st[0].execs == n(ext1)+n(sim1))
	vAssert("conn2-callbacks-as-if-alone", st[1].parses == n(ext2)+n(sim2) && st[1].execs == n(ext2)+n(sim2))
	// session_authorization of each connection is its own user
	check := func(label string, out []byte, user []byte) {
		msgs, _ := vFrames(out)
		k := 0
		for _, m := range msgs {
			if m.typ == 'S' {
				e := vCString(m.body, 0)
				if string(m.body[:e-1]) == "session_authorization" {
					k++
					vAssert(label, vEqBytes(m.body[e:len(m.body)-1], user))
				}
			}
		}
		vAssert(label+"-once", k == 1)
	}
	check("conn1-own-user", c1.out, u1)
	check("conn2-own-user", c2.out, u2)
	if gkind == 2 {
		vAssert("global-parameters-untouched", len(global) == 1 && global["app"] == "v")
	} else {
		vAssert("global-parameters-untouched", len(global) == 0)
		if gkind == 1 {
			vReach("empty-configured-map")
		}
	}
	if st[0].rows && st[1].rows && (ext1 || sim1) && (ext2 || sim2) {
		vReach("both-encode-rows")
	}
	if ext1 && ext2 {
		vReach("same-names-on-both")
	}
	if extended && st[0].rows && st[1].rows {
		vReach("with-type-extension")
	}
	if withAuth {
		vReach("with-authentication")
	}
}

package wire

import (
	"context"
	"errors"
	"net"
	"sync"

	"github.com/jeroenrinzema/psql-wire/codes"
	psqlerr "github.com/jeroenrinzema/psql-wire/errors"

	"github.com/jackc/pgx/v5/pgtype"
	"github.com/lib/pq/oid"
)

// ---------------------------------------------------------------------------
// H15 — conflict-freedom lemma (C15). Two connections are served by one
// Server through the real serve path, each with its own solver-chosen
// traffic (startup with a symbolic user, Parse/Bind/Execute writing one row,
// a simple query), using the same statement/portal names. The engine records
// every heap cell the library reads or writes under each connection's origin
// tag, with the locks held. Assert: no cell written on behalf of one
// connection is read or written on behalf of the other, unless both accesses
// are sync/atomic operations or hold a common lock.
//
// From the lemma to the property (argument, DESIGN §7 C15): steps of
// different connections that touch disjoint mutable state commute, so every
// interleaving is equivalent to serving them one after the other.
// ---------------------------------------------------------------------------
// vIsoQuery is the text of the statement the two connections of H15 prepare.
var vIsoQuery = []byte("q")

// vIsoPreOID != 0: the Parse message pre-specifies one parameter type, this one
var vIsoPreOID uint32

func vIsoPrespecified() []byte {
	if vIsoPreOID == 0 {
		return vU16(0)
	}
	return vCat(vU16(1), vU32(vIsoPreOID))
}

func vConnTraffic(user []byte, name []byte, extended, simple, auth bool) []byte {
	sync := vMsgBytes('S', nil)
	in := vStartup(vKV([]byte("user"), user))
	if auth {
		in = vCat(in, vMsgBytes('p', vCStr(user))) // the password is the user name
	}
	if extended {
		in = vCat(in,
			vMsgBytes('P', vCat(vCStr(name), vCStr(vIsoQuery), vIsoPrespecified())),
			vMsgBytes('B', vCat(vCStr(name), vCStr(name), vU16(0), vU16(0), vU16(0))),
			vMsgBytes('D', vCat([]byte{'S'}, vCStr(name))),
			vMsgBytes('E', vCat(vCStr(name), vU32(0))), sync)
	}
	if simple {
		in = vCat(in, vMsgBytes('Q', vCStr([]byte("s"))))
	}
	return vCat(in, vMsgBytes('X', nil))
}

type vIsoState struct {
	cols   int
	rows   bool
	parses int
	execs  int
	// what the handler saw when it touched its result writer again AFTER
	// Complete (bookkeeping): the row count, and whether a further Row was refused
	writtenAfter  uint64
	lateRowTaken  bool
	touchedAfter  bool
}

func VerifH15() {
	name := vSymName()
	u1, u2 := vSymText(1), vSymText(1)
	ext1, ext2 := nondetBool(), nondetBool()
	sim1, sim2 := nondetBool(), nondetBool()
	if vParam("FULLTRAFFIC", 0) == 1 {
		// both connections send everything (keeps the product with the earlier
		// connection small in the quick tier)
		vAssume(vAnd(vAnd(ext1, ext2), vAnd(sim1, sim2)))
	}
	// per-connection callback behaviour, drawn up front (callbacks draw nothing,
	// so the native replay can run the two connections concurrently)
	st := [2]*vIsoState{{cols: vChoose(2), rows: nondetBool()}, {cols: vChoose(2), rows: nondetBool()}}
	// a handler may build a fresh statement for every Parse, or keep ONE prepared
	// statement (built once, e.g. per query text) and hand it to every
	// connection: the library never required fresh ones
	sharedStmt := vParam("SHAREDSTMT", 0) == 1 && nondetBool()
	if sharedStmt {
		vAssume(st[0].cols == st[1].cols)
	}
	run := func(ctx context.Context, dw DataWriter, params []Parameter) error {
		me := st[RemoteAddress(ctx).(vAddr).id]
		me.execs++
		if me.rows {
			row := make([]any, me.cols)
			for i := range row {
				row[i] = "v"
			}
			if err := dw.Row(row); err != nil {
				return err
			}
		}
		err := dw.Complete("T")
		// the writer a statement was given stays that statement's: the handler
		// looks at it again after completion (bookkeeping, a late row by mistake)
		me.touchedAfter = true
		me.writtenAfter = dw.Written()
		me.lateRowTaken = dw.Row(make([]any, me.cols)) == nil
		return err
	}
	var kept *PreparedStatement
	if sharedStmt {
		kept = NewStatement(run, WithColumns(vTextColumns(st[0].cols)))
		if vParam("PRESPEC", 0) == 1 {
			// ... with one parameter whose type the handler leaves unspecified (0),
			// while each connection's Parse pre-specifies a type of its own for it
			kept = NewStatement(run, WithColumns(vTextColumns(st[0].cols)), WithParameters([]oid.Oid{0}))
			vReach("connections-prespecify-different-types-for-a-shared-statement")
		}
		vReach("one-prepared-statement-for-all-connections")
	}
	// PARSEPARAMS=1: the handler asks the library's ParseParameters helper for
	// the statement's parameters and fills in the types it knows — which depend
	// on the connection — in the list it was handed, as the helper's result is
	// the caller's to use
	withHelper := vParam("PARSEPARAMS", 0) == 1
	if withHelper {
		vIsoQuery = []byte("$1")
	} else {
		vIsoQuery = []byte("q")
	}
	parse := func(ctx context.Context, query string) (PreparedStatements, error) {
		id := RemoteAddress(ctx).(vAddr).id
		me := st[id]
		me.parses++
		if kept != nil {
			return Prepared(kept), nil
		}
		if withHelper {
			params := ParseParameters(query)
			for i := range params {
				if id == 0 {
					params[i] = oid.T_int4
				}
			}
			return Prepared(NewStatement(run, WithColumns(vTextColumns(me.cols)), WithParameters(params))), nil
		}
		return Prepared(NewStatement(run, WithColumns(vTextColumns(me.cols)))), nil
	}
	// configuration: configured parameter map nil / empty but non-nil / one entry
	var global Parameters
	gkind := vChoose(3)
	switch gkind {
	case 1:
		global = Parameters{}
	case 2:
		global = Parameters{"app": "v"}
	}
	opts := []OptionFn{MessageBufferSize(64), GlobalParameters(global), Version("15"),
		SessionMiddleware(func(ctx context.Context) (context.Context, error) { return ctx, nil })}
	extended := nondetBool() // configuration: with or without a type extension registered
	if extended {
		opts = append(opts, ExtendTypes(func(m *pgtype.Map) {}))
	}
	withAuth := nondetBool() // configuration: clear-text password authentication
	if vParam("AUTHONLY", 0) == 1 {
		vAssume(withAuth)
	}
	authOK := [2]bool{true, true}
	if withAuth {
		opts = append(opts, SessionAuthStrategy(ClearTextPassword(func(ctx context.Context, db, user, pw string) (context.Context, bool, error) {
			// each connection must be validated with its own user name
			if user != pw {
				authOK[RemoteAddress(ctx).(vAddr).id] = false
			}
			return ctx, true, nil
		})))
	}
	srv, err := NewServer(parse, opts...)
	vAssert("newserver-ok", err == nil)
	prespec := vParam("PRESPEC", 0) == 1 && sharedStmt
	if prespec {
		vIsoPreOID = 23
	}
	c1 := vNewConn(vConnTraffic(u1, name, ext1, sim1, withAuth))
	if prespec {
		vIsoPreOID = 25
	}
	c2 := vNewConn(vConnTraffic(u2, name, ext2, sim2, withAuth))
	vIsoPreOID = 0
	c2.id = 1
	// an earlier connection that has come and gone before the two are served (a
	// solver choice): none, a CancelRequest, an SSLRequest that is refused and
	// followed by a hang-up, a startup packet cut short, a complete tiny session.
	// Whatever it leaves behind in the server is part of what the two share.
	var c0 *vConn
	switch vChoose(vParam("PRELUDE", 5)) {
	case 1:
		c0 = vNewConn([]byte{0, 0, 0, 16, 0x04, 0xd2, 0x16, 0x2e, 0, 0, 0, 1, 0, 0, 0, 2})
		vReach("after-a-cancel-request")
	case 2:
		c0 = vNewConn([]byte{0, 0, 0, 8, 0x04, 0xd2, 0x16, 0x2f})
	case 3:
		c0 = vNewConn(vStartup(vKV([]byte("user"), []byte("z")))[:7])
	case 4:
		c0 = vNewConn(vConnTraffic([]byte("z"), []byte("z"), false, false, withAuth))
		vReach("after-an-earlier-session")
	}
	if c0 != nil {
		c0.id = 2
		srv.serve(context.Background(), c0) //nolint
	}

	if vRaceMode() {
		// native replay of a footprint counterexample: the same two connections,
		// served concurrently under the race detector
		var wg sync.WaitGroup
		wg.Add(2)
		go func() { defer wg.Done(); srv.serve(context.Background(), c1) }() //nolint
		go func() { defer wg.Done(); srv.serve(context.Background(), c2) }() //nolint
		wg.Wait()
		return
	}
	vFootBegin()
	vOrigin("conn1")
	srv.serve(context.Background(), c1) //nolint
	vOrigin("conn2")
	srv.serve(context.Background(), c2) //nolint
	vOrigin("")
	vFootReport("no-unsynchronised-shared-access", "KF-C15-1")

	vAssert("wire-1-wellformed", vWireOK(c1.out))
	vAssert("wire-2-wellformed", vWireOK(c2.out))
	// each transcript is what that connection's own traffic and callbacks determine
	vAssert("each-connection-validated-with-its-own-credentials", authOK[0] && authOK[1])
	expect := func(s *vIsoState, ext, sim bool) string {
		want := "R"
		if withAuth {
			want = "RR"
		}
		out := ""
		d := "n"
		if s.cols > 0 {
			d = "T"
		}
		rows := ""
		if s.rows {
			rows = "D"
		}
		if ext {
			out += "12t" + d + rows + "CZ"
		}
		if sim {
			if s.cols > 0 {
				out += "T"
			}
			out += rows + "CZ"
		}
		return want + out
	}
	strip := func(out []byte) string { // drop ParameterStatus and the startup ReadyForQuery
		t := vTypes(out)
		r := ""
		seenZ := false
		for i := 0; i < len(t); i++ {
			if t[i] == 'S' {
				continue
			}
			if t[i] == 'Z' && !seenZ {
				seenZ = true
				continue
			}
			r += string(t[i])
		}
		return r
	}
	if withHelper {
		// the parameter types a connection is told are the ones ITS handler filled in
		types := func(out []byte) (uint32, bool) {
			msgs, _ := vFrames(out)
			for _, m := range msgs {
				if m.typ == 't' && len(m.body) == 6 {
					return vBE32(m.body, 2), true
				}
			}
			return 0, false
		}
		if ext1 {
			o, ok := types(c1.out)
			vAssert("conn1-parameter-types-as-its-own-handler-set-them", ok && o == uint32(oid.T_int4))
		}
		if ext2 {
			o, ok := types(c2.out)
			vAssert("conn2-parameter-types-as-its-own-handler-set-them", ok && o == 0)
		}
	}
	vAssert("conn1-transcript-as-if-alone", strip(c1.out) == expect(st[0], ext1, sim1))
	vAssert("conn2-transcript-as-if-alone", strip(c2.out) == expect(st[1], ext2, sim2))
	n := func(b bool) int {
		if b {
			return 1
		}
		return 0
	}
	for i := 0; i < 2; i++ {
		if st[i].touchedAfter {
			want := uint64(0)
			if st[i].rows {
				want = 1
			}
			vAssert("result-writer-after-completion-still-this-statement's", st[i].writtenAfter == want && !st[i].lateRowTaken)
		}
	}
	vAssert("conn1-callbacks-as-if-alone", st[0].parses == n(ext1)+n(sim1) && st[0].execs == n(ext1)+n(sim1))
	vAssert("conn2-callbacks-as-if-alone", st[1].parses == n(ext2)+n(sim2) && st[1].execs == n(ext2)+n(sim2))
	// session_authorization of each connection is its own user
	check := func(label string, out []byte, user []byte) {
		msgs, _ := vFrames(out)
		k := 0
		for _, m := range msgs {
			if m.typ == 'S' {
				e := vCString(m.body, 0)
				if string(m.body[:e-1]) == "session_authorization" {
					k++
					vAssert(label, vEqBytes(m.body[e:len(m.body)-1], user))
				}
			}
		}
		vAssert(label+"-once", k == 1)
	}
	check("conn1-own-user", c1.out, u1)
	check("conn2-own-user", c2.out, u2)
	if gkind == 2 {
		vAssert("global-parameters-untouched", len(global) == 1 && global["app"] == "v")
	} else {
		vAssert("global-parameters-untouched", len(global) == 0)
		if gkind == 1 {
			vReach("empty-configured-map")
		}
	}
	if st[0].rows && st[1].rows && (ext1 || sim1) && (ext2 || sim2) {
		vReach("both-encode-rows")
	}
	if ext1 && ext2 {
		vReach("same-names-on-both")
	}
	if extended && st[0].rows && st[1].rows {
		vReach("with-type-extension")
	}
	if withAuth {
		vReach("with-authentication")
	}
}

// ---------------------------------------------------------------------------
// H15f — the conflict-freedom lemma on the less travelled paths (C15): each
// connection's traffic optionally contains an oversized message (skipped), a
// message of unknown type, a Bind to an unknown statement (error, then
// discard until Sync) and a COPY-in cycle, around an ordinary extended-query
// round. Oracle for the transcripts: the same traffic served ALONE by a fresh
// server with the same configuration (the property's own wording); oracle for
// shared memory: the footprint lemma, replayed under the race detector.
// ---------------------------------------------------------------------------
type vIsoTraffic struct {
	over, unknown, bad, copy, fail bool
}

// vSharedErrs are error values shared by the handlers of all connections, one
// per decorator and each with that decorator outermost; every connection
// re-decorates each of them with its own values. Decorating is expected to
// wrap, never to write into the error it is given.
var vSharedErrs = [6]error{
	psqlerr.WithCode(errors.New("shared"), codes.Syntax),
	psqlerr.WithSeverity(errors.New("shared"), psqlerr.LevelError),
	psqlerr.WithHint(errors.New("shared"), "generic hint"),
	psqlerr.WithDetail(errors.New("shared"), "generic detail"),
	psqlerr.WithConstraintName(errors.New("shared"), "generic"),
	psqlerr.WithSource(errors.New("shared"), "f.go", 1, "fn"),
}

func vRedecorate(own string) error {
	_ = psqlerr.WithCode(vSharedErrs[0], codes.Internal)
	_ = psqlerr.WithSeverity(vSharedErrs[1], psqlerr.LevelFatal)
	_ = psqlerr.WithHint(vSharedErrs[2], own)
	d := psqlerr.WithDetail(vSharedErrs[3], own)
	_ = psqlerr.WithConstraintName(vSharedErrs[4], own)
	_ = psqlerr.WithSource(vSharedErrs[5], own, 7, own)
	return psqlerr.WithHint(d, own)
}

func vFaultTraffic(user, name []byte, t vIsoTraffic) []byte {
	sync := vMsgBytes('S', nil)
	in := vStartup(vKV([]byte("user"), user))
	if t.over {
		in = vCat(in, vMsgBytes('Q', make([]byte, 70)))
	}
	in = vCat(in, vMsgBytes('P', vCat(vCStr(name), vCStr([]byte("q")), vU16(0))), sync)
	if t.unknown {
		in = vCat(in, vMsgBytes('z', []byte{1, 2}))
	}
	if t.bad {
		in = vCat(in, vMsgBytes('B', vCat(vCStr(name), vCStr([]byte("nope")), vU16(0), vU16(0), vU16(0))),
			vMsgBytes('E', vCat(vCStr(name), vU32(0))), sync)
	}
	if t.over {
		in = vCat(in, vMsgBytes('d', make([]byte, 65)))
	}
	in = vCat(in,
		vMsgBytes('B', vCat(vCStr(name), vCStr(name), vU16(0), vU16(0), vU16(0))),
		vMsgBytes('D', vCat([]byte{'S'}, vCStr(name))),
		vMsgBytes('E', vCat(vCStr(name), vU32(0))), sync)
	if t.copy {
		in = vCat(in, vMsgBytes('Q', vCStr([]byte("c"))), vMsgBytes('d', vCat(user, []byte("\n"))), vMsgBytes('c', nil))
	}
	if t.fail {
		in = vCat(in, vMsgBytes('Q', vCStr(vCat([]byte("e"), user))))
	}
	return vCat(in, vMsgBytes('X', nil))
}

type vIsoTrace struct {
	queries [][]byte
	copied  [][]byte
	execs   int
}

func vIsoServer(tr *[2]vIsoTrace) *Server {
	parse := func(ctx context.Context, query string) (PreparedStatements, error) {
		me := &tr[RemoteAddress(ctx).(vAddr).id]
		me.queries = append(me.queries, []byte(query))
		isCopy := query == "c"
		isFail := len(query) > 0 && query[0] == 'e'
		fn := func(ctx context.Context, dw DataWriter, params []Parameter) error {
			me.execs++
			if isFail {
				// the shared sentinels, decorated with this connection's own values
				return vRedecorate(query[1:])
			}
			if isCopy {
				cr, err := dw.CopyIn(TextFormat)
				if err != nil {
					return err
				}
				for k := 0; k < 3; k++ {
					if err := cr.Read(); err != nil {
						break
					}
					me.copied = append(me.copied, append([]byte{}, cr.Msg...))
				}
				return dw.Complete("COPY")
			}
			if err := dw.Row([]any{"v"}); err != nil {
				return err
			}
			return dw.Complete("T")
		}
		return Prepared(NewStatement(fn, WithColumns(vTextColumns(1)))), nil
	}
	srv, err := NewServer(parse, MessageBufferSize(64))
	vAssert("newserver-ok", err == nil)
	return srv
}

func vSameTrace(a, b *vIsoTrace) bool {
	if a.execs != b.execs || len(a.queries) != len(b.queries) || len(a.copied) != len(b.copied) {
		return false
	}
	for i := range a.queries {
		if !vEqBytes(a.queries[i], b.queries[i]) {
			return false
		}
	}
	for i := range a.copied {
		if !vEqBytes(a.copied[i], b.copied[i]) {
			return false
		}
	}
	return true
}

// vSameTranscript: equal frame for frame, except that the ParameterStatus
// frames are compared as a set.
func vSameTranscript(a, b []byte) bool {
	ma, oka := vFrames(a)
	mb, okb := vFrames(b)
	if !oka || !okb || len(ma) != len(mb) {
		return false
	}
	var ra, rb, sa, sb []vMsg
	for _, m := range ma {
		if m.typ == 'S' {
			sa = append(sa, m)
		} else {
			ra = append(ra, m)
		}
	}
	for _, m := range mb {
		if m.typ == 'S' {
			sb = append(sb, m)
		} else {
			rb = append(rb, m)
		}
	}
	if len(ra) != len(rb) || len(sa) != len(sb) {
		return false
	}
	for i := range ra {
		if ra[i].typ != rb[i].typ || !vEqBytes(ra[i].body, rb[i].body) {
			return false
		}
	}
	for _, x := range sa {
		found := false
		for _, y := range sb {
			if vEqBytes(x.body, y.body) {
				found = true
			}
		}
		if !found {
			return false
		}
	}
	return true
}

func VerifH15f() {
	name := vSymName()
	u1, u2 := vSymText(1), vSymText(1)
	t1 := vIsoTraffic{over: nondetBool(), bad: nondetBool(), copy: nondetBool(), fail: nondetBool()}
	t2 := vIsoTraffic{over: nondetBool(), bad: nondetBool(), copy: nondetBool(), fail: nondetBool()}
	t1.unknown, t2.unknown = t1.over, t2.over // (the two unusual message kinds come together)
	in1, in2 := vFaultTraffic(u1, name, t1), vFaultTraffic(u2, name, t2)

	var shared [2]vIsoTrace
	srv := vIsoServer(&shared)
	c1 := vNewConn(in1)
	c2 := vNewConn(in2)
	c2.id = 1
	if vRaceMode() {
		var wg sync.WaitGroup
		wg.Add(2)
		go func() { defer wg.Done(); srv.serve(context.Background(), c1) }() //nolint
		go func() { defer wg.Done(); srv.serve(context.Background(), c2) }() //nolint
		wg.Wait()
		return
	}
	vFootBegin()
	vOrigin("conn1")
	srv.serve(context.Background(), c1) //nolint
	vOrigin("conn2")
	srv.serve(context.Background(), c2) //nolint
	vOrigin("")
	vFootReport("no-unsynchronised-shared-access", "KF-C15-1")

	// the same traffic, each connection alone on a fresh server
	var alone1, alone2 [2]vIsoTrace
	a1 := vNewConn(in1)
	vIsoServer(&alone1).serve(context.Background(), a1) //nolint
	a2 := vNewConn(in2)
	a2.id = 1
	vIsoServer(&alone2).serve(context.Background(), a2) //nolint

	vAssert("wire-1-wellformed", vWireOK(c1.out))
	vAssert("wire-2-wellformed", vWireOK(c2.out))
	// (ParameterStatus messages are written in map order, which Go randomises:
	// they are compared as a sorted set, everything else byte for byte)
	vAssert("conn1-transcript-as-if-alone", vSameTranscript(c1.out, a1.out))
	vAssert("conn2-transcript-as-if-alone", vSameTranscript(c2.out, a2.out))
	vAssert("conn1-callbacks-as-if-alone", vSameTrace(&shared[0], &alone1[0]))
	vAssert("conn2-callbacks-as-if-alone", vSameTrace(&shared[1], &alone2[1]))
	vAssert("served-to-the-end", vCount(vTypes(c1.out), 'Z') >= 3 && vCount(vTypes(c2.out), 'Z') >= 3)
	if t1.over && t2.over {
		vReach("both-skip-an-oversized-message")
	}
	if t1.copy && t2.copy {
		vReach("both-copy-in")
	}
	if t1.bad && t2.bad {
		vReach("both-discard-until-sync")
	}
	if t1.fail && t2.fail {
		vReach("both-decorate-a-shared-error")
	}
}

// ---------------------------------------------------------------------------
// H15s — the accept loop itself (C15): Server.Serve on a listener that hands
// out two connections (different users, one simple query each) and is then
// closed. The engine runs each goroutine the loop starts under an origin of
// its own: nothing written by the loop, or for one connection, is touched for
// another connection without synchronisation; each connection is served as
// its own user. Natively the same Serve runs under the race detector.
// ---------------------------------------------------------------------------
type vListener2 struct {
	conns []net.Conn
	next  int
}

func (l *vListener2) Accept() (net.Conn, error) {
	if l.next < len(l.conns) {
		c := l.conns[l.next]
		l.next++
		return c, nil
	}
	return nil, net.ErrClosed
}
func (l *vListener2) Close() error   { return nil }
func (l *vListener2) Addr() net.Addr { return vAddr{} }

func VerifH15s() {
	u1, u2 := vSymText(1), vSymText(1)
	var trace [2]vIsoTrace
	srv := vIsoServer(&trace)
	traffic := func(u []byte) []byte {
		return vCat(vStartup(vKV([]byte("user"), u)), vMsgBytes('Q', vCStr([]byte("q"))), vMsgBytes('X', nil))
	}
	c1, c2 := vNewConn(traffic(u1)), vNewConn(traffic(u2))
	c2.id = 1
	l := &vListener2{conns: []net.Conn{c1, c2}}
	if !vSymbolic() {
		c1.doneCh, c2.doneCh = make(chan struct{}), make(chan struct{})
	}
	if vRaceMode() {
		srv.Serve(l) //nolint
		c1.vAwaitClosed()
		c2.vAwaitClosed()
		return
	}
	vFootBegin()
	vOrigin("accept-loop")
	err := srv.Serve(l)
	vOrigin("")
	vFootReport("no-unsynchronised-shared-access", "KF-C15-1")
	// (natively the connections are served by goroutines of their own)
	c1.vAwaitClosed()
	c2.vAwaitClosed()
	vAssert("serve-returns-nil-when-the-listener-is-closed", err == nil)
	check := func(label string, out []byte, user []byte) {
		msgs, _ := vFrames(out)
		k := 0
		for _, m := range msgs {
			if m.typ == 'S' {
				e := vCString(m.body, 0)
				if string(m.body[:e-1]) == "session_authorization" {
					k++
					vAssert(label+"-own-user", vEqBytes(m.body[e:len(m.body)-1], user))
				}
			}
		}
		vAssert(label+"-served-once", k == 1 && vWireOK(out) && vCount(vTypes(out), 'C') == 1)
	}
	check("first-connection", c1.out, u1)
	check("second-connection", c2.out, u2)
	vAssert("each-connection-parsed-its-own-query", len(trace[0].queries) == 1 && len(trace[1].queries) == 1)
	vReach("two-connections-accepted")
}

// ---------------------------------------------------------------------------
// H15c — a graceful Close that begins while a statement function is in the
// middle of its result set (C15, C16, C02). The handler has written a row when
// another goroutine calls Server.Close; it then writes more rows and
// completes. Whatever Close does while the command is still running, the
// closing goroutine and the connection share no unsynchronised memory — two
// writers into one connection's frame buffer is what tears a message apart —
// and what the client receives is well-formed. Footprint lemma, replayed under
// the race detector.
// ---------------------------------------------------------------------------
func VerifH15c() {
	more := 1 + vChoose(2)
	val := vSymText(1)
	var srv *Server
	parse := func(ctx context.Context, query string) (PreparedStatements, error) {
		fn := func(ctx context.Context, dw DataWriter, params []Parameter) error {
			if err := dw.Row([]any{string(val)}); err != nil {
				return err
			}
			go srv.Close() //nolint
			vPause()
			for i := 0; i < more; i++ {
				if err := dw.Row([]any{string(val)}); err != nil {
					return err
				}
			}
			return dw.Complete("T")
		}
		return Prepared(NewStatement(fn, WithColumns(vTextColumns(1)))), nil
	}
	var err error
	srv, err = NewServer(parse, MessageBufferSize(64))
	vAssert("newserver-ok", err == nil)
	conn := vNewConn(vCat(vStartup(vKV([]byte("user"), []byte("u"))), vMsgBytes('Q', vCStr([]byte("s"))), vMsgBytes('X', nil)))
	if vRaceMode() {
		srv.serve(context.Background(), conn) //nolint
		return
	}
	vFootBegin()
	vOrigin("conn1")
	srv.serve(context.Background(), conn) //nolint
	vOrigin("")
	vFootReport("no-unsynchronised-shared-access-between-close-and-a-running-command", "")
	vAssert("wire-wellformed", vWireOK(conn.out))
	t := vTypes(conn.out)
	vAssert("rows-written-before-and-after-close-began-are-delivered", vCount(t, 'D') == 1+more)
	vReach("close-began-during-a-result-set")
}

package wire

import (
	"context"
	"crypto/ecdsa"
	"crypto/elliptic"
	"crypto/rand"
	"crypto/tls"
	"crypto/x509"
	"crypto/x509/pkix"
	"io"
	"math/big"
	"net"
	"sync"
	"time"
)

func (c *vConn) VerifTLSInner() net.Conn {
	if c.inner == nil {
		return nil
	}
	return c.inner
}

var vSSLRequest = []byte{0, 0, 0, 8, 0x04, 0xd2, 0x16, 0x2f}

// vTLSRun is what a connection that asked for SSL looks like from outside.
type vTLSRun struct {
	rawOut   []byte // bytes the server put on the raw connection
	innerOut []byte // bytes the server sent inside TLS (plaintext as the client sees it)
	closed   bool
	escaped  bool // a panic escaped serve (recovered by the harness, the embedder)
	rawReadsAfterS int
}

// vServeTLS serves one connection that starts with `first` on the raw
// transport; when the server upgrades, `inner` is what the client sends
// inside TLS. Symbolically the TLS layer is the opaque model of DESIGN §3;
// natively it is a real TLS client over net.Pipe with a wire tap.
// vTLSIdle, if set, is what happens while the upgraded connection is idle
// (the client has sent everything and waits): symbolically it runs inside the
// Read that finds the TLS stream used up, natively the client calls it after
// a pause. Reset by vServeTLS.
var vTLSIdle func()

func vServeTLS(srv *Server, first, inner []byte) vTLSRun {
	idle := vTLSIdle
	vTLSIdle = nil
	if vSymbolic() {
		raw := vNewConn(first)
		raw.inner = vNewConn(inner)
		raw.inner.onIdle = idle
		escaped := vServeRecovered(srv, raw)
		return vTLSRun{rawOut: raw.out, innerOut: raw.inner.out, closed: raw.closed >= 1, escaped: escaped}
	}
	return vServeTLSNative(srv, first, inner, idle)
}

// vServeRecovered serves the connection the way an embedder that survives a
// panicking callback would: whatever escapes serve is recovered here.
func vServeRecovered(srv *Server, conn net.Conn) (escaped bool) {
	defer func() {
		if r := recover(); r != nil {
			escaped = true
		}
	}()
	srv.serve(context.Background(), conn) //nolint
	return false
}

// ---- native side: real TLS ----

type vTap struct {
	net.Conn
	mu  sync.Mutex
	out []byte
}

func (t *vTap) Write(p []byte) (int, error) {
	t.mu.Lock()
	t.out = append(t.out, p...)
	t.mu.Unlock()
	return t.Conn.Write(p)
}

func vSelfSigned() tls.Certificate {
	key, _ := ecdsa.GenerateKey(elliptic.P256(), rand.Reader)
	tmpl := &x509.Certificate{
		SerialNumber: big.NewInt(1), Subject: pkix.Name{CommonName: "verif"},
		NotBefore: time.Now().Add(-time.Hour), NotAfter: time.Now().Add(time.Hour),
		KeyUsage: x509.KeyUsageDigitalSignature, ExtKeyUsage: []x509.ExtKeyUsage{x509.ExtKeyUsageServerAuth},
		DNSNames: []string{"verif"},
	}
	der, _ := x509.CreateCertificate(rand.Reader, tmpl, tmpl, &key.PublicKey, key)
	return tls.Certificate{Certificate: [][]byte{der}, PrivateKey: key}
}

func vServeTLSNative(srv *Server, first, inner []byte, idle func()) vTLSRun {
	if srv.TLSConfig != nil && len(srv.TLSConfig.Certificates) > 0 {
		srv.TLSConfig = &tls.Config{Certificates: []tls.Certificate{vSelfSigned()}, ClientAuth: srv.TLSConfig.ClientAuth}
	}
	sc, cc := net.Pipe()
	tap := &vTap{Conn: sc}
	var run vTLSRun
	done := make(chan struct{})
	go func() {
		defer close(done)
		defer cc.Close()
		cc.SetDeadline(time.Now().Add(5 * time.Second)) //nolint
		if _, err := cc.Write(first); err != nil {
			return
		}
		one := make([]byte, 1)
		if _, err := io.ReadFull(cc, one); err != nil || one[0] != 'S' {
			return
		}
		tc := tls.Client(cc, &tls.Config{InsecureSkipVerify: true})
		if err := tc.Handshake(); err != nil {
			return
		}
		if _, err := tc.Write(inner); err != nil {
			return
		}
		if idle != nil {
			go func() {
				time.Sleep(100 * time.Millisecond) // the server has answered and waits for the next message
				idle()
			}()
		}
		buf := make([]byte, 4096)
		for {
			tc.SetReadDeadline(time.Now().Add(300 * time.Millisecond)) //nolint
			n, err := tc.Read(buf)
			run.innerOut = append(run.innerOut, buf[:n]...)
			if err != nil {
				return
			}
		}
	}()
	run.escaped = vServeRecovered(srv, tap)
	sc.Close()
	<-done
	tap.mu.Lock()
	run.rawOut = append([]byte{}, tap.out...)
	tap.mu.Unlock()
	run.closed = true
	return run
}

// vOnlyTLSRecords: after the single 'S', the raw bytes are a sequence of TLS
// records (content type 20..23, version 3.x, length) — no plaintext protocol
// message is interleaved. (Symbolically the model never writes raw bytes.)
func vOnlyTLSRecords(b []byte) bool {
	for len(b) > 0 {
		if len(b) < 5 || b[0] < 20 || b[0] > 23 || b[1] != 3 {
			return false
		}
		l := int(b[3])<<8 | int(b[4])
		if len(b) < 5+l {
			return false
		}
		b = b[5+l:]
	}
	return true
}

// ---------------------------------------------------------------------------
// H11 — TLS upgrade (C11). TLS configuration symbolic in {nil, no
// certificates, certificates}; the client sends an SSLRequest followed by
// `stuffed` plaintext bytes (a complete startup packet for user "x" or
// arbitrary bytes) ahead of the handshake; inside TLS (or, without
// certificates, on the same plaintext connection) it then sends a startup
// packet for user "u" and a Terminate.
// ---------------------------------------------------------------------------
func VerifH11() {
	cfgKind := vChoose(3)
	direct := nondetBool() // set through the TLSConfig option, or directly on the exported Server.TLSConfig field
	stuffKind := vChoose(3) // 0 none, 1 a complete startup packet for user "x", 2 arbitrary bytes
	var stuffed []byte
	switch stuffKind {
	case 1:
		stuffed = vStartup(vKV([]byte("user"), []byte("x")))
	case 2:
		stuffed = nondetBytes(1 + vChoose(vParam("STUFF", 4)))
	}
	var seenUsers [][]byte
	var closer *Server
	mw := SessionMiddleware(func(ctx context.Context) (context.Context, error) {
		seenUsers = append(seenUsers, []byte(ClientParameters(ctx)[ParamUsername]))
		// CLOSEINSIDE=1: the embedder shuts the server down while this connection
		// is being set up (no command is running: Close returns at once);
		// whatever Close tells or does to the connections it knows of, it does it
		// inside their TLS sessions
		if closer != nil {
			closer.Close() //nolint
		}
		return ctx, nil
	})
	w := &vWorld{parseMenu: 2, execMenu: 2}
	// PANICS=1: the query sent inside the session may be one whose ParseFn panics
	// (query text "boom"); whatever the library does about a panicking callback,
	// it does it inside the TLS session
	parse := func(ctx context.Context, query string) (PreparedStatements, error) {
		if query == "boom" {
			panic("verif: the parser panicked on " + query)
		}
		return w.parse(ctx, query)
	}
	opts := []OptionFn{MessageBufferSize(64), mw}
	var tlsCfg *tls.Config
	switch cfgKind {
	case 1:
		tlsCfg = &tls.Config{}
	case 2:
		tlsCfg = &tls.Config{Certificates: []tls.Certificate{{}}}
		// CLIENTAUTH=1: the embedder may ask for (but not insist on) a client
		// certificate; the client of this harness never presents one
		if vParam("CLIENTAUTH", 0) == 1 {
			tlsCfg.ClientAuth = []tls.ClientAuthType{tls.NoClientCert, tls.RequestClientCert, tls.VerifyClientCertIfGiven}[vChoose(3)]
			if tlsCfg.ClientAuth != tls.NoClientCert {
				vReach("client-certificate-requested-none-presented")
			}
		}
	}
	if !direct && tlsCfg != nil {
		opts = append(opts, TLSConfig(tlsCfg))
	}
	srv, err := NewServer(parse, opts...)
	vAssert("newserver-ok", err == nil)
	if direct {
		srv.TLSConfig = tlsCfg
	}
	session := vCat(vStartup(vKV([]byte("user"), []byte("u"))), vMsgBytes('X', nil))
	if vParam("GSS", 0) == 1 {
		// the client asks for GSSAPI encryption first (as libpq does with a ticket
		// cache), then for SSL. Whether the server declines the first request with
		// 'N' or hangs up on it: with certificates configured, an SSLRequest it
		// answers is answered 'S', and nothing but TLS follows
		vAssume(cfgKind == 2)
		gss := []byte{0, 0, 0, 8, 0x04, 0xd2, 0x16, 0x30}
		run := vServeTLS(srv, vCat(gss, vSSLRequest, stuffed), session)
		vAssert("no-panic", !run.escaped)
		raw := run.rawOut
		vAssert("an-answered-SSLRequest-is-answered-S-when-certificates-are-configured",
			len(raw) == 0 || (len(raw) == 1 && (raw[0] == 'N' || raw[0] == 'S')) || (len(raw) >= 2 && ((raw[0] == 'N' && raw[1] == 'S' && vOnlyTLSRecords(raw[2:])) || (raw[0] == 'S' && vOnlyTLSRecords(raw[1:])))))
		for _, u := range seenUsers {
			vAssert("no-session-from-plaintext-start-up-bytes", string(u) == "u")
		}
		vReach("gssenc-request-before-the-sslrequest")
		return
	}
	if vParam("CLOSEINSIDE", 0) == 1 {
		vAssume(cfgKind == 2)
		if nondetBool() {
			closer = srv // Close called from the session middleware
		} else {
			// Close called while the connection, set up and answered, waits for its
			// next message (the client sends nothing after the start-up packet)
			session = vStartup(vKV([]byte("user"), []byte("u")))
			vTLSIdle = func() { srv.Close() } //nolint
			vReach("server-closed-while-an-upgraded-connection-is-idle")
		}
		run := vServeTLS(srv, vCat(vSSLRequest, stuffed), session)
		vAssert("no-panic", !run.escaped)
		vAssert("ssl-accepted-with-single-S", len(run.rawOut) >= 1 && run.rawOut[0] == 'S')
		vAssert("nothing-but-TLS-after-S", vOnlyTLSRecords(run.rawOut[1:]))
		vAssert("session-inside-TLS-wellformed", vWireOK(run.innerOut))
		vReach("server-closed-while-a-tls-connection-is-open")
		return
	}
	if vParam("PANICS", 0) == 1 {
		vAssume(cfgKind == 2)
		session = vCat(vStartup(vKV([]byte("user"), []byte("u"))), vMsgBytes('Q', vCStr([]byte("boom"))), vMsgBytes('X', nil))
		run := vServeTLS(srv, vCat(vSSLRequest, stuffed), session)
		vAssert("ssl-accepted-with-single-S", len(run.rawOut) >= 1 && run.rawOut[0] == 'S')
		vAssert("nothing-but-TLS-after-S", vOnlyTLSRecords(run.rawOut[1:]))
		vAssert("session-inside-TLS-wellformed", vWireOK(run.innerOut))
		vReach("callback-panicked-inside-tls")
		return
	}
	repeatInside := nondetBool()
	if repeatInside {
		// a second SSLRequest sent inside the TLS session, then a startup packet
		session = vCat(vSSLRequest, session)
	}
	cancelInside := !repeatInside && nondetBool()
	if cancelInside {
		// a CancelRequest (any pid/secret) sent after the SSL negotiation
		session = vCat([]byte{0, 0, 0, 16, 0x04, 0xd2, 0x16, 0x2e}, nondetBytes(8), nondetBytes(vChoose(3)))
	}

	// a message larger than the configured limit (64) sent after the startup:
	// the limit applies inside TLS exactly as it does in plaintext
	oversizedInside := !repeatInside && !cancelInside && nondetBool()
	if oversizedInside {
		big := make([]byte, 65+vChoose(2))
		for i := range big {
			big[i] = 'a'
		}
		big[len(big)-1] = 0
		session = vCat(vStartup(vKV([]byte("user"), []byte("u"))), vMsgBytes('Q', big), vMsgBytes('X', nil))
	}
	checkOversized := func(out []byte) {
		msgs, ok := vFrames(out)
		vAssert("oversized-session-wellformed", ok && vWireOK(out))
		errs := 0
		for _, m := range msgs {
			if m.typ == 'E' {
				errs++
				code, _ := vErrField(m.body, 'C')
				vAssert("oversized-class-program-limit-exceeded", string(code) == "54000")
			}
		}
		vAssert("oversized-one-error", errs == 1)
		vAssert("oversized-never-parsed", len(w.events) == 0)
	}

	if cfgKind == 2 {
		// with certificates: 'S', then everything inside TLS
		run := vServeTLS(srv, vCat(vSSLRequest, stuffed), session)
		vAssert("no-panic", !run.escaped)
		vAssert("ssl-accepted-with-single-S", len(run.rawOut) >= 1 && run.rawOut[0] == 'S')
		vAssert("nothing-but-TLS-after-S", vOnlyTLSRecords(run.rawOut[1:]))
		if repeatInside {
			// whatever the server makes of it, nothing may leave the TLS session
			vAssert("closed", run.closed)
			vAssert("repeated-sslrequest-output-wellformed", vWireOK(run.innerOut))
			vReach("repeated-sslrequest-inside-tls")
			return
		}
		if cancelInside {
			vAssert("cancel-after-upgrade-no-reply", len(run.innerOut) == 0)
			vAssert("cancel-after-upgrade-no-callback", len(seenUsers) == 0 && len(w.events) == 0)
			vAssert("closed", run.closed)
			vReach("cancel-after-upgrade")
			return
		}
		if oversizedInside {
			checkOversized(run.innerOut)
			vAssert("closed", run.closed)
			vReach("limit-enforced-inside-tls")
			return
		}
		vAssert("session-runs-inside-TLS", vWireOK(run.innerOut) && vCount(vTypes(run.innerOut), 'Z') == 1)
		vAssert("one-session", len(seenUsers) == 1)
		if len(seenUsers) == 1 {
			vAssert("startup-parameters-come-from-inside-TLS", string(seenUsers[0]) == "u")
		}
		vAssert("closed", run.closed)
		if stuffKind == 1 {
			vReach("stuffed-startup-ignored")
		}
		vReach("upgraded")
		return
	}
	// without certificates: 'N', then the same connection continues in plaintext
	if repeatInside {
		// a second SSLRequest after the refusal: whatever the server makes of it,
		// only ONE byte is the SSL reply — everything after it is well-formed
		// backend messages (a second 'N' would be read as a NoticeResponse header)
		conn := vNewConn(vCat(vSSLRequest, session))
		if vSymbolic() {
			conn.inner = vNewConn(nil)
		}
		srv.serve(context.Background(), conn) //nolint
		vAssert("ssl-refused-with-single-N", len(conn.out) >= 1 && conn.out[0] == 'N')
		vAssert("repeated-sslrequest-after-refusal-output-wellformed", vWireOK(conn.out[1:]))
		vAssert("closed", conn.closed >= 1)
		vReach("repeated-sslrequest-after-refusal")
		return
	}
	if cancelInside {
		return // cancel after the refusal is H12b
	}
	var rest []byte
	if stuffKind == 0 {
		rest = session
	} else {
		rest = stuffed // whatever follows the SSLRequest is the fresh startup packet
	}
	conn := vNewConn(vCat(vSSLRequest, rest))
	if vSymbolic() {
		// should the server (wrongly) start a handshake, the client's plaintext
		// is not a TLS session: the handshake fails (model: the TLS stream is empty)
		conn.inner = vNewConn(nil)
	}
	srv.serve(context.Background(), conn) //nolint
	vAssert("ssl-refused-with-single-N", len(conn.out) >= 1 && conn.out[0] == 'N')
	vAssert("plaintext-continues-wellformed", vWireOK(conn.out[1:]))
	vAssert("closed", conn.closed >= 1)
	if oversizedInside {
		if stuffKind == 0 {
			checkOversized(conn.out[1:])
			vReach("limit-enforced-after-refusal")
		}
		return
	}
	if stuffKind == 0 {
		vAssert("fresh-startup-served", len(seenUsers) == 1 && string(seenUsers[0]) == "u" && vCount(vTypes(conn.out[1:]), 'Z') == 1)
		vReach("refused-then-plaintext")
		if direct && cfgKind == 1 {
			vReach("empty-config-on-field")
		}
	}
	if stuffKind == 1 {
		vAssert("following-startup-is-the-session", len(seenUsers) == 1 && string(seenUsers[0]) == "x")
	}
}

// ---------------------------------------------------------------------------
// H11d — "the TLS session otherwise behaves exactly like its plaintext
// equivalent" as a differential (C11): one session — a startup packet, one
// message of symbolic type with up to N symbolic body bytes (declared length
// correct, too small, or beyond the limit), a simple query, Terminate — is
// served once in plaintext and once inside TLS by two servers with the same
// configuration. Transcripts (ParameterStatus as a set) and callback traces
// must be equal, and the raw side of the TLS run carries nothing but 'S' and
// TLS records.
// ---------------------------------------------------------------------------
func VerifH11d() {
	N := vParam("N", 3)
	typ := nondetByte()
	if N >= 4 {
		// (a complete Parse carries a 16-bit count that drives an empty loop:
		// 65536 ways to do nothing; Parse is covered by the bound N=3)
		vAssume(typ != 'P')
	}
	body := nondetBytes(vChoose(N + 1))
	msg := vMsgBytes(typ, body)
	switch vChoose(3) {
	case 1:
		msg[4] = byte(vChoose(4)) // declared length below the minimum
	case 2:
		msg = vMsgBytes(typ, make([]byte, 65+vChoose(2))) // beyond the limit of 64
		vReach("oversized-inside")
	}
	session := vCat(vStartup(vKV([]byte("user"), []byte("u"))), msg, vMsgBytes('Q', vCStr([]byte("q"))), vMsgBytes('X', nil))
	// BIGSTARTUP > 0: the limit is 32768 and the start-up packet carries a user
	// name of that many bytes (beyond any bound another implementation knows for
	// start-up packets, below this server's limit): accepted or refused, the two
	// runs agree
	limit := 64
	if bs := vParam("BIGSTARTUP", 0); bs > 0 {
		limit = 32768
		name := make([]byte, bs)
		for i := range name {
			name[i] = 'u'
		}
		name[bs-1] = nondetByte()
		vAssume(name[bs-1] != 0)
		session = vCat(vStartup(vKV([]byte("user"), name)), vMsgBytes('Q', vCStr([]byte("q"))), vMsgBytes('X', nil))
		vReach("start-up-packet-of-more-than-ten-thousand-bytes")
	}
	type run struct {
		w     *vWorld
		srv   *Server
		users [][]byte
	}
	mk := func(withTLS bool) *run {
		r := &run{w: &vWorld{parseMenu: -2, execMenu: 1}}
		opts := []OptionFn{MessageBufferSize(limit), SessionMiddleware(func(ctx context.Context) (context.Context, error) {
			r.users = append(r.users, []byte(ClientParameters(ctx)[ParamUsername]))
			return ctx, nil
		})}
		if withTLS {
			opts = append(opts, TLSConfig(&tls.Config{Certificates: []tls.Certificate{{}}}))
		}
		srv, err := NewServer(r.w.parse, opts...)
		vAssert("newserver-ok", err == nil)
		r.srv = srv
		return r
	}
	plain, secure := mk(false), mk(true)
	pc := vNewConn(session)
	plain.srv.serve(context.Background(), pc) //nolint
	tr := vServeTLS(secure.srv, vSSLRequest, session)
	vAssert("ssl-accepted-with-single-S", len(tr.rawOut) >= 1 && tr.rawOut[0] == 'S')
	vAssert("nothing-but-TLS-after-S", vOnlyTLSRecords(tr.rawOut[1:]))
	vAssert("same-transcript-as-plaintext", vSameTranscript(tr.innerOut, pc.out))
	vAssert("same-middleware-calls", len(plain.users) == len(secure.users))
	vAssert("same-callback-trace", len(plain.w.events) == len(secure.w.events))
	for i := range plain.w.events {
		if i < len(secure.w.events) {
			a, b := plain.w.events[i], secure.w.events[i]
			vAssert("same-callback-kind-and-text", a.kind == b.kind && vEqBytes(a.query, b.query))
		}
	}
	if vCount(vTypes(pc.out), 'C') >= 1 {
		vReach("query-served-in-both")
	}
}

// ---------------------------------------------------------------------------
// H03n — the surplus of an SSLRequest is not the next packet (C03, C11, C10):
// a server without certificates receives an SSLRequest whose length word is
// larger than 8, the surplus shaped like the body of a start-up packet (version
// 3.0, user "ghost"); it answers 'N'. The client then sends a packet that is
// nothing but a length word declaring 0..8, and hangs up. No session may come
// of it: the surplus belonged to the SSLRequest.
// ---------------------------------------------------------------------------
func VerifH03n() {
	body := vCat([]byte{0, 3, 0, 0}, vKV([]byte("user"), []byte("ghost")), []byte{0})
	surplus := body[:vChoose(len(body)+1)]
	first := vCat(vU32(uint32(8+len(surplus))), []byte{0x04, 0xd2, 0x16, 0x2f}, surplus)
	declared := vChoose(9)
	second := vU32(uint32(declared))
	sessions := 0
	mw := SessionMiddleware(func(ctx context.Context) (context.Context, error) { sessions++; return ctx, nil })
	w := &vWorld{parseMenu: 2, execMenu: 2}
	srv, err := NewServer(w.parse, MessageBufferSize(64), mw)
	vAssert("newserver-ok", err == nil)
	conn := vNewConn(vCat(first, second))
	srv.serve(context.Background(), conn) //nolint
	vAssert("closed", conn.closed >= 1)
	vAssert("ssl-refused-with-single-N", len(conn.out) >= 1 && conn.out[0] == 'N')
	vAssert("no-session-out-of-the-surplus-of-an-SSLRequest", sessions == 0 && !vHasAuthOK(conn.out[1:]) && vCount(vTypes(conn.out[1:]), 'Z') == 0)
	vAssert("output-wellformed", vWireOK(conn.out[1:]))
	if len(surplus) == len(body) {
		vReach("surplus-shaped-like-a-startup-packet")
	}
}

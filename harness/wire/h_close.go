package wire

import (
	"context"
	"errors"
	"fmt"
	"net"
	"sync"
	"time"
)

// ---------------------------------------------------------------------------
// C16 — thread entries. The same functions are (1) executed by the engine in
// event mode to extract each thread's event tree from the SSA of the real
// Close / Serve / consumeSingleCommand, and (2) run natively as goroutines
// under a schedule controller to replay a schedule found by the solver.
// ---------------------------------------------------------------------------

type vListener struct {
	id   int
	done chan struct{} // native replay only: Accept really blocks until Close
	once sync.Once
}

func vNewListener(id int) *vListener {
	l := &vListener{id: id}
	if !vSymbolic() {
		l.done = make(chan struct{})
	}
	return l
}

func (l *vListener) Accept() (net.Conn, error) {
	// no new connection arrives in the bounded scenario: Accept blocks until
	// the listener is closed
	if l.id == 1 {
		vMark("accept2")
	} else {
		vMark("accept")
	}
	if !vSymbolic() {
		<-l.done
	}
	return nil, net.ErrClosed
}
func (l *vListener) Close() error {
	if l.id == 1 {
		vMark("lclose2")
	} else {
		vMark("lclose")
	}
	if !vSymbolic() {
		l.once.Do(func() { close(l.done) })
	}
	return nil
}
func (l *vListener) Addr() net.Addr { return vAddr{} }

func vT16Server() *Server {
	parse := func(ctx context.Context, query string) (PreparedStatements, error) {
		vMark("handler_start")
		vMark("handler_end")
		if query == "boom" {
			fn := func(ctx context.Context, dw DataWriter, params []Parameter) error {
				vMark("handler_start")
				vMark("handler_end") // the handler is over once it panics
				panic("verif: the statement panicked")
			}
			return Prepared(NewStatement(fn)), nil
		}
		if query == "copy" {
			fn := func(ctx context.Context, dw DataWriter, params []Parameter) error {
				vMark("handler_start")
				defer vMark("handler_end")
				cr, err := dw.CopyIn(TextFormat)
				if err != nil {
					return err
				}
				for i := 0; i < 4; i++ {
					if err := cr.Read(); err != nil {
						break
					}
				}
				return dw.Complete("COPY 0")
			}
			return Prepared(NewStatement(fn, WithColumns(vTextColumns(1)))), nil
		}
		if query == "ok" {
			fn := func(ctx context.Context, dw DataWriter, params []Parameter) error {
				vMark("handler_start")
				vMark("handler_end")
				return dw.Complete("T")
			}
			return Prepared(NewStatement(fn)), nil
		}
		return nil, errors.New("verif: no statements")
	}
	opts := []OptionFn{MessageBufferSize(64)}
	if vParam("R", 1) == -8 {
		opts = append(opts, SessionAuthStrategy(ClearTextPassword(func(ctx context.Context, db, user, pw string) (context.Context, bool, error) {
			return ctx, true, nil
		})))
	}
	srv, err := NewServer(parse, opts...)
	vAssert("newserver-ok", err == nil)
	return srv
}

func vT16Close(srv *Server) {
	srv.Close() //nolint
	vMark("close_returned")
}

func vT16Serve(srv *Server, lid int) {
	err := srv.Serve(vNewListener(lid))
	if err == nil {
		vMark("serve_nil")
	} else {
		vMark("serve_err")
	}
}

func vT16Conn(srv *Server, r int) {
	var input []byte
	stall := false
	if r == -9 {
		// scenario 10: a client that has asked for SSL, has been refused ('N') and
		// goes silent before its start-up packet: the connection is still in the
		// handshake, nobody's command is running, Close must return.
		conn := vNewConn(vSSLRequest)
		conn.stall = true
		func() {
			defer func() { recover() }() //nolint
			srv.serve(context.Background(), conn) //nolint
		}()
		return
	}
	if r == -8 {
		// scenario 9: a whole connection through serve on a server that asks for a
		// password; the client has sent its start-up packet, has been asked for the
		// password and goes silent. Nobody's command is running: Close must return.
		conn := vNewConn(vStartup(vKV([]byte("user"), []byte("u"))))
		conn.stall = true
		func() {
			defer func() { recover() }() //nolint
			srv.serve(context.Background(), conn) //nolint
		}()
		return
	}
	if r == -7 {
		// scenario 8: a whole connection through serve — startup, then Parse, Bind and
		// Execute of a statement that PANICS, then the input ends. Whatever the library
		// does about the panic (report it and go on, or end the connection), the
		// command it was raised in has ended: a Close must not wait for it forever.
		// The embedder (this harness) recovers whatever escapes serve.
		input = vCat(vStartup(vKV([]byte("user"), []byte("u"))),
			vMsgBytes('P', vCat(vCStr(nil), vCStr([]byte("boom")), vU16(0))),
			vMsgBytes('B', vCat(vCStr(nil), vCStr(nil), vU16(0), vU16(0), vU16(0))),
			vMsgBytes('E', vCat(vCStr(nil), vU32(0))))
		conn := vNewConn(input)
		func() {
			defer func() { recover() }() //nolint
			srv.serve(context.Background(), conn) //nolint
		}()
		return
	}
	if r == -10 {
		// scenario 11: a statement function that takes a COPY-in stream — one simple
		// query, two CopyData and the CopyDone are all there. The function is inside
		// the command from its first to its last step, also while it waits for the
		// next message of the stream: a Close must not return in between.
		input = vCat(vMsgBytes('Q', vCStr([]byte("copy"))),
			vMsgBytes('d', []byte("a\n")), vMsgBytes('d', []byte("b\n")), vMsgBytes('c', nil))
		r = 1
	} else if r == -2 || r == -3 {
		// scenarios 3 and 4: a client that goes silent in the middle of a message
		// — an ordinary one (-2), or one that declares more than the limit of 64
		// (-3) — and never sends the rest
		if r == -2 {
			input = vCat([]byte{'Q', 0, 0, 0, 24}, []byte("half a que"))
		} else {
			input = vCat([]byte{'Q', 0, 0, 0, 204}, []byte("oversized, ten bytes of two hundred"))
		}
		stall = true
		r = 1
	} else if r == -5 {
		// scenario 6: a well-framed message with a malformed body (a Query without
		// its terminator): the command ends with an error and so does the session
		input = vMsgBytes('Q', []byte("no terminator"))
		r = 1
	} else if r == -4 {
		// scenario 5: an extended-query cycle in progress — Parse, Parse, Sync —
		// so that a Close may fall between two messages of one cycle
		parse := vMsgBytes('P', vCat(vCStr(nil), vCStr([]byte("ok")), vU16(0)))
		input = vCat(parse, parse, vMsgBytes('S', nil))
		r = 3
	} else if r < 0 {
		// scenario 2: an extended-query error (Bind of an unknown statement), a
		// pipelined message that is discarded, Sync, then one simple query
		input = vCat(
			vMsgBytes('B', vCat(vCStr(nil), vCStr([]byte("nope")), vU16(0), vU16(0), vU16(0))),
			vMsgBytes('E', vCat(vCStr(nil), vU32(0))),
			vMsgBytes('S', nil),
			vMsgBytes('Q', vCStr([]byte("q"))))
		r = 4
	} else {
		for i := 0; i < r; i++ {
			input = append(input, vMsgBytes('Q', vCStr([]byte("q")))...)
		}
	}
	conn := vNewConn(input)
	conn.stall = stall
	ses, rd, wr := vSession(srv, conn)
	ctx := vCtx(srv)
	for i := 0; i < r; i++ {
		vMark("read_message")
		if err := ses.consumeSingleCommand(ctx, rd, wr, conn); err != nil {
			break
		}
	}
}

func VerifT16Close() {
	srv := vT16Server()
	vEventBegin(srv)
	vT16Close(srv)
	vEventEnd()
}

func VerifT16Serve() {
	srv := vT16Server()
	vEventBegin(srv)
	vT16Serve(srv, vParam("LID", 0))
	vEventEnd()
}

func VerifT16Conn() {
	srv := vT16Server()
	vEventBegin(srv)
	vT16Conn(srv, vParam("R", 1))
	vEventEnd()
}

// VerifT16Replay runs the C16 threads natively as goroutines under the
// schedule controller, following the schedule in the input vector (a solver
// model, or the reachability witness). Built only with the instrumented
// overlay of wire.go/command.go.
func VerifT16Replay() {
	if vSymbolic() {
		return
	}
	srv := vT16Server()
	ctl := &vController{order: vVec.Schedule, waiting: map[string]chan struct{}{}, names: map[int64]string{},
		finished: map[string]bool{}, unknown: "/Serve$1"}
	vCtl = ctl
	stop := make(chan struct{})
	go ctl.pump(stop)
	defer func() { close(stop); vCtl = nil }()
	var wg sync.WaitGroup
	start := func(name string, fn func()) {
		wg.Add(1)
		go func() {
			defer wg.Done()
			ctl.register(name)
			defer ctl.finish(name)
			fn()
		}()
	}
	// every thread of the scenario is started, also one that takes no step in
	// the schedule (a Close that is blocked from the start is part of a deadlock)
	r := vParam("R", 1)
	start("closeA", func() { vT16Close(srv) })
	start("closeB", func() { vT16Close(srv) })
	start("serve", func() { vT16Serve(srv, 0) })
	if r == -6 {
		start("serve2", func() { vT16Serve(srv, 1) })
	} else {
		start("conn", func() {
			// a stalled connection blocks for good: it counts as done for the replay
			vOnStall = func() { ctl.finish("conn"); wg.Done() }
			vT16Conn(srv, r)
		})
	}
	done := make(chan struct{})
	go func() { wg.Wait(); close(done) }()
	select {
	case <-done:
		vReach("all-threads-finished")
	case <-time.After(8 * time.Second):
		fmt.Println("VERIF-FAIL e-no-deadlock")
		vFailures = append(vFailures, "e-no-deadlock")
	}
	ctl.mu.Lock()
	fmt.Printf("VERIF-TRACE followed=%d/%d %v\n", ctl.pos, len(ctl.order), ctl.trace)
	ctl.mu.Unlock()
	if len(vFailures) > 0 {
		panic(vFailed{vFailures[0]})
	}
}

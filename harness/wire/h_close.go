package wire

import (
	"context"
	"errors"
	"fmt"
	"net"
	"sync"
	"time"
)

// ---------------------------------------------------------------------------
// C16 — thread entries. The same functions are (1) executed by the engine in
// event mode to extract each thread's event tree from the SSA of the real
// Close / Serve / consumeSingleCommand, and (2) run natively as goroutines
// under a schedule controller to replay a schedule found by the solver.
// ---------------------------------------------------------------------------

type vListener struct{}

func (l *vListener) Accept() (net.Conn, error) {
	// no new connection arrives in the bounded scenario: Accept blocks until
	// the listener is closed
	vMark("accept")
	return nil, net.ErrClosed
}
func (l *vListener) Close() error   { vMark("lclose"); return nil }
func (l *vListener) Addr() net.Addr { return vAddr{} }

func vT16Server() *Server {
	parse := func(ctx context.Context, query string) (PreparedStatements, error) {
		vMark("handler_start")
		vMark("handler_end")
		return nil, errors.New("verif: no statements")
	}
	srv, err := NewServer(parse, MessageBufferSize(64))
	vAssert("newserver-ok", err == nil)
	return srv
}

func vT16Close(srv *Server) {
	srv.Close() //nolint
	vMark("close_returned")
}

func vT16Serve(srv *Server) {
	err := srv.Serve(&vListener{})
	if err == nil {
		vMark("serve_nil")
	} else {
		vMark("serve_err")
	}
}

func vT16Conn(srv *Server, r int) {
	var input []byte
	if r < 0 {
		// scenario 2: an extended-query error (Bind of an unknown statement), a
		// pipelined message that is discarded, Sync, then one simple query
		input = vCat(
			vMsgBytes('B', vCat(vCStr(nil), vCStr([]byte("nope")), vU16(0), vU16(0), vU16(0))),
			vMsgBytes('E', vCat(vCStr(nil), vU32(0))),
			vMsgBytes('S', nil),
			vMsgBytes('Q', vCStr([]byte("q"))))
		r = 4
	} else {
		for i := 0; i < r; i++ {
			input = append(input, vMsgBytes('Q', vCStr([]byte("q")))...)
		}
	}
	conn := vNewConn(input)
	ses, rd, wr := vSession(srv, conn)
	ctx := vCtx(srv)
	for i := 0; i < r; i++ {
		vMark("read_message")
		if err := ses.consumeSingleCommand(ctx, rd, wr, conn); err != nil {
			break
		}
	}
}

func VerifT16Close() {
	srv := vT16Server()
	vEventBegin(srv)
	vT16Close(srv)
	vEventEnd()
}

func VerifT16Serve() {
	srv := vT16Server()
	vEventBegin(srv)
	vT16Serve(srv)
	vEventEnd()
}

func VerifT16Conn() {
	srv := vT16Server()
	vEventBegin(srv)
	vT16Conn(srv, vParam("R", 1))
	vEventEnd()
}

// VerifT16Replay runs the C16 threads natively as goroutines under the
// schedule controller, following the schedule in the input vector (a solver
// model, or the reachability witness). Built only with the instrumented
// overlay of wire.go/command.go.
func VerifT16Replay() {
	if vSymbolic() {
		return
	}
	srv := vT16Server()
	ctl := &vController{order: vVec.Schedule, waiting: map[string]chan struct{}{}, names: map[int64]string{},
		finished: map[string]bool{}, unknown: "serve/Serve$1"}
	vCtl = ctl
	stop := make(chan struct{})
	go ctl.pump(stop)
	defer func() { close(stop); vCtl = nil }()
	var wg sync.WaitGroup
	start := func(name string, fn func()) {
		wg.Add(1)
		go func() {
			defer wg.Done()
			ctl.register(name)
			defer ctl.finish(name)
			fn()
		}()
	}
	threads := map[string]bool{}
	for _, s := range vVec.Schedule {
		threads[s.Thread] = true
	}
	r := vParam("R", 1)
	if threads["closeA"] {
		start("closeA", func() { vT16Close(srv) })
	}
	if threads["closeB"] {
		start("closeB", func() { vT16Close(srv) })
	}
	if threads["serve"] {
		start("serve", func() { vT16Serve(srv) })
	}
	if threads["conn"] {
		start("conn", func() { vT16Conn(srv, r) })
	}
	done := make(chan struct{})
	go func() { wg.Wait(); close(done) }()
	select {
	case <-done:
		vReach("all-threads-finished")
	case <-time.After(8 * time.Second):
		fmt.Println("VERIF-FAIL e-no-deadlock")
		vFailures = append(vFailures, "e-no-deadlock")
	}
	ctl.mu.Lock()
	fmt.Printf("VERIF-TRACE followed=%d/%d %v\n", ctl.pos, len(ctl.order), ctl.trace)
	ctl.mu.Unlock()
	if len(vFailures) > 0 {
		panic(vFailed{vFailures[0]})
	}
}

package wire

import (
	"context"

	"github.com/jeroenrinzema/psql-wire/pkg/buffer"
	"github.com/lib/pq/oid"
)

// ---------------------------------------------------------------------------
// H20a — ParseParameters is total and counts placeholders correctly (C20).
// The query is Q arbitrary bytes; the reference scans it independently
// (leftmost `$digits` or `?`).
// ---------------------------------------------------------------------------
func VerifH20a() {
	Q := vParam("Q", 4)
	q := nondetBytes(vChoose(Q + 1))
	// reference scan
	maxN, countQ, nDollar := 0, 0, 0
	big := false
	i := 0
	for i < len(q) {
		if q[i] == '$' {
			j := i + 1
			v := 0
			for j < len(q) && q[j] >= '0' && q[j] <= '9' {
				v = v*10 + int(q[j]-'0')
				j++
			}
			if j > i+1 {
				nDollar++
				if v > 65535 {
					big = true
				} else if v > maxN {
					maxN = v
				}
				i = j
				continue
			}
			i++
			continue
		}
		if q[i] == '?' {
			countQ++
		}
		i++
	}
	// mixing $n and ? in one query is not specified by the property
	vAssume(vOr(nDollar == 0, countQ == 0))
	vAllocLimit(65535 * 4)
	params := ParseParameters(string(q))
	vAssert("bounded-by-protocol-limit", len(params) <= 65535)
	switch {
	case nDollar == 0 && countQ == 0:
		vAssert("no-markers-no-parameters", len(params) == 0)
	case nDollar == 0:
		vAssert("question-marks-counted", len(params) == countQ)
		vReach("question-style")
	case countQ == 0 && !big:
		vAssert("highest-positional-index", len(params) == maxN)
		if maxN > nDollar {
			vReach("index-beyond-marker-count")
		}
		if nDollar >= 2 {
			vReach("repeated-markers")
		}
	case countQ == 0 && big:
		vAssert("oversized-index-ignored", len(params) == maxN)
		vReach("index-beyond-protocol-limit")
	}
	if len(params) <= 4 {
		for k := 0; k < len(params); k++ {
			vAssert("unspecified-type", params[k] == 0)
		}
		// the list belongs to the caller: filling in types (as a handler that
		// knows them would) does not show in the result of a later call
		for k := range params {
			params[k] = 23
		}
		again := ParseParameters(string(q))
		vAssert("second-call-same-length", len(again) == len(params))
		for k := 0; k < len(again) && k < 4; k++ {
			vAssert("second-call-unspecified-type", again[k] == 0)
		}
		if len(params) > 0 {
			vReach("result-mutated-between-calls")
		}
	}
}

// H20b — the length ParseParameters reports is what Describe announces.
func VerifH20b() {
	q := nondetBytes(vChoose(vParam("Q", 3) + 1))
	vAssume(vNoNUL(q))
	fn := func(ctx context.Context, dw DataWriter, params []Parameter) error { return nil }
	n := -1
	// RETAINED=1: the handler may keep ONE prepared statement and re-apply the
	// WithParameters option to it for every Parse (the session stores a copy of
	// the fields each time), or compose two WithParameters options — the later
	// one decides
	retained := vParam("RETAINED", 0) == 1 && nondetBool()
	composed := vParam("RETAINED", 0) == 1 && !retained && nondetBool()
	kept := NewStatement(fn)
	parse := func(ctx context.Context, query string) (PreparedStatements, error) {
		p := ParseParameters(query)
		n = len(p)
		if retained {
			WithParameters(p)(kept)
			return Prepared(kept), nil
		}
		if composed {
			return Prepared(NewStatement(fn, WithParameters([]oid.Oid{0, 0, 0}), WithParameters(p))), nil
		}
		return Prepared(NewStatement(fn, WithParameters(p))), nil
	}
	if retained {
		vReach("one-statement-retained-and-reconfigured")
	}
	srv, err := NewServer(parse, MessageBufferSize(64))
	vAssert("newserver-ok", err == nil)
	w := &vWorld{srv: srv}
	w.conn = vNewConn(nil)
	w.ses, w.rd, w.wr = vSession(srv, w.conn)
	w.ctx = vCtx(srv)
	// the same statement name may have been parsed before with another number of
	// placeholders: Describe announces the latest definition's count
	switch vChoose(4) {
	case 1:
		first := vCat(vCStr(nil), vCStr([]byte("$3")), vU16(0))
		vAssert("first-parse-ok", w.ses.handleParse(w.ctx, &buffer.Reader{Msg: first, MaxMessageSize: 64}, w.wr) == nil)
		vReach("reparsed-after-three-placeholders")
	case 2:
		first := vCat(vCStr(nil), vCStr([]byte("??")), vU16(0))
		vAssert("first-parse-ok", w.ses.handleParse(w.ctx, &buffer.Reader{Msg: first, MaxMessageSize: 64}, w.wr) == nil)
	case 3:
		first := vCat(vCStr(nil), vCStr([]byte("$1")), vU16(0))
		vAssert("first-parse-ok", w.ses.handleParse(w.ctx, &buffer.Reader{Msg: first, MaxMessageSize: 64}, w.wr) == nil)
	}
	// the Parse message may pre-specify any number of parameter types; whatever
	// it says, Describe announces what the ParseFn declared
	np := vChoose(4)
	// NAMES=1: the statement is stored under the unnamed slot, a short name or a
	// long name (71 bytes), and ANOTHER statement with three placeholders is
	// parsed afterwards under a different name (for the long name: one that
	// differs in its last byte only): Describe still announces this one's count
	var name, sibling []byte
	if vParam("NAMES", 0) == 1 {
		long := make([]byte, 70)
		for i := range long {
			long[i] = 'n'
		}
		switch vChoose(3) {
		case 0:
			sibling = []byte("b")
		case 1:
			name, sibling = []byte("a"), []byte("b")
		case 2:
			name, sibling = vCat(long, []byte("a")), vCat(long, []byte("b"))
			vReach("long-names-differing-in-the-last-byte")
		}
	}
	pbody := vCat(vCStr(name), vCStr(q), vU16(np))
	for k := 0; k < np; k++ {
		pbody = append(pbody, vU32(nondetU32())...)
	}
	vAssert("parse-ok", w.ses.handleParse(w.ctx, &buffer.Reader{Msg: pbody, MaxMessageSize: 64}, w.wr) == nil)
	vAssume(n <= 9)
	if np > 0 && np != n {
		vReach("prespecified-type-count-differs")
	}
	if sibling != nil {
		keep := n
		other := vCat(vCStr(sibling), vCStr([]byte("$3")), vU16(0))
		vAssert("sibling-parse-ok", w.ses.handleParse(w.ctx, &buffer.Reader{Msg: other, MaxMessageSize: 64}, w.wr) == nil)
		n = keep
	}
	w.conn.out = nil
	dbody := vCat([]byte{'S'}, vCStr(name))
	vAssert("describe-ok", w.ses.handleDescribe(w.ctx, &buffer.Reader{Msg: dbody, MaxMessageSize: 64}, w.wr) == nil)
	msgs, ok := vFrames(w.conn.out)
	vAssert("describe-replies", ok && len(msgs) == 2 && msgs[0].typ == 't' && vBodyOK(msgs[0]))
	vAssert("announced-count-is-ParseParameters-length", vBE16(msgs[0].body, 0) == n)
	if n >= 2 {
		vReach("several-parameters")
	}
}

// H20c — a single $n marker whose index has 1..22 digits (beyond 2^63).
func VerifH20c() {
	D := 1 + vChoose(vParam("DIGITS", 22))
	digits := nondetBytes(D)
	if vParam("LONG", 0) == 1 {
		// indices of 19..22 digits (around and beyond 2^63 and 2^64): the leading
		// digits are the solver's choice between all zeros and all nines, the last
		// three are symbolic
		D = 19 + vChoose(4)
		digits = nondetBytes(D)
		lead := byte('0')
		if nondetBool() {
			lead = '9'
		}
		for k := 0; k < D-3; k++ {
			digits[k] = lead
		}
	}
	v := 0
	big := false
	for k := 0; k < D; k++ {
		vAssume(vAnd(digits[k] >= '0', digits[k] <= '9'))
		if v > 65535 {
			big = true
		} else {
			v = v*10 + int(digits[k]-'0')
		}
	}
	if v > 65535 {
		big = true
	}
	vAllocLimit(65535 * 4)
	params := ParseParameters("select $" + string(digits) + " ")
	if big {
		vAssert("index-beyond-limit-ignored", len(params) == 0)
		if D >= 20 {
			vReach("beyond-2^63")
		}
	} else {
		vAssert("highest-positional-index", len(params) == v)
		if v == 65535 {
			vReach("at-protocol-limit")
		}
	}
}

// ---------------------------------------------------------------------------
// H02p — ParameterDescription for large parameter counts (C02, C20): the
// declared 16-bit count equals the number of object ids that follow, at the
// boundaries of the signed and unsigned 16-bit ranges.
// ---------------------------------------------------------------------------
func VerifH02p() {
	counts := []int{0, 1, 32767, 32768, 40000, 65535}
	n := counts[vChoose(len(counts))]
	fn := func(ctx context.Context, dw DataWriter, params []Parameter) error { return nil }
	parse := func(ctx context.Context, query string) (PreparedStatements, error) {
		return Prepared(NewStatement(fn, WithParameters(make([]oid.Oid, n)))), nil
	}
	srv, err := NewServer(parse, MessageBufferSize(64))
	vAssert("newserver-ok", err == nil)
	w := &vWorld{srv: srv}
	w.conn = vNewConn(nil)
	w.ses, w.rd, w.wr = vSession(srv, w.conn)
	w.ctx = vCtx(srv)
	pbody := vCat(vCStr(nil), vCStr([]byte("q")), vU16(0))
	vAssert("parse-ok", w.ses.handleParse(w.ctx, &buffer.Reader{Msg: pbody, MaxMessageSize: 64}, w.wr) == nil)
	w.conn.out = nil
	dbody := vCat([]byte{'S'}, vCStr(nil))
	vAssert("describe-ok", w.ses.handleDescribe(w.ctx, &buffer.Reader{Msg: dbody, MaxMessageSize: 64}, w.wr) == nil)
	msgs, ok := vFrames(w.conn.out)
	vAssert("describe-replies", ok && len(msgs) == 2 && msgs[0].typ == 't')
	b := msgs[0].body
	vAssert("declared-count-is-the-parameter-count", vBE16(b, 0) == n)
	vAssert("object-ids-match-declared-count", len(b) == 2+4*n)
	if n == 32768 {
		vReach("beyond-int16")
	}
	if n == 65535 {
		vReach("protocol-maximum")
	}
}

// ---------------------------------------------------------------------------
// H20d — more markers than the protocol limit (C20): MARKERS (65535 by
// default) repetitions of "$1" — concrete, so this prefix costs no solver
// work — followed by a symbolic tail "$d" with d one arbitrary digit. The
// length is still the highest index: the tail marker counts although it comes
// after the 65535th marker.
// ---------------------------------------------------------------------------
func VerifH20d() {
	M := vParam("MARKERS", 65535)
	q := make([]byte, 0, 2*M+2)
	for i := 0; i < M; i++ {
		q = append(q, '$', '1')
	}
	d := nondetByte()
	vAssume(vAnd(d >= '0', d <= '9'))
	q = append(q, '$', d)
	params := ParseParameters(string(q))
	want := int(d - '0')
	if want < 1 {
		want = 1
	}
	vAssert("highest-index-after-many-markers", len(params) == want)
	if want > 1 {
		vReach("marker-after-the-65535th")
	}
}

package wire

import (
	"os"
	"context"
	"errors"
	"fmt"
	"io"
	"net"

	"github.com/jeroenrinzema/psql-wire/codes"
	psqlerr "github.com/jeroenrinzema/psql-wire/errors"
	"github.com/jeroenrinzema/psql-wire/pkg/buffer"
	"github.com/lib/pq/oid"
)

// ---------------------------------------------------------------------------
// The session world: a real Server/Session from NewServer + options, a
// captured connection, and harness callbacks (ParseFn, statement functions,
// terminate hook) whose behaviour is chosen by the solver and whose
// invocations are recorded in a callback trace.
// ---------------------------------------------------------------------------

type vEvent struct {
	kind   byte // 'p' ParseFn, 'x' statement fn, 't' terminate hook, 'm' middleware
	id     int
	query  []byte
	params []Parameter
	ctx    context.Context
	live   bool // the context was not yet cancelled when the callback was entered
}

type vStmtInfo struct {
	id      int
	cols    int
	nparams int
	outcome int // what the statement function does when executed
}

type vWorld struct {
	srv    *Server
	ses    *Session
	conn   *vConn
	rd     *buffer.Reader
	wr     *buffer.Writer
	ctx    context.Context
	events []vEvent
	nextID int
	stmts  []*vStmtInfo // every statement ever returned by the ParseFn stub

	// behaviour menus (sizes chosen per harness)
	parseMenu     int // ParseFn outcomes: 0 error, 1 one stmt/1 col, 2 one stmt/0 cols, 3 zero stmts, 4 two stmts, 5 one stmt/empty non-nil cols
	execMenu      int // statement fn outcomes: 0 one row + Complete, 1 error, 2 Complete only, 3 row then error
	lastParse     []*vStmtInfo
	lastParseErr  bool
	errKind       int
	errChosen     bool
	freshWriters  []bool
	countersRight []bool
}

var errVerifParse = errors.New("verif: parse failed")
var errVerifExec = errors.New("verif: statement failed")

// cbErr is the error a failing callback returns. With ERRKINDS > 0 its
// identity is the solver's choice (once per world) among values a handler may
// well return and that the library itself gives a meaning to elsewhere — a
// cancelled or expired context of the handler's own, io.EOF, a closed writer,
// a size error: whatever it is, it is the handler's error and is reported as
// one ErrorResponse like any other.
func (w *vWorld) cbErr(dflt error) error {
	if vParam("ERRKINDS", 0) == 0 {
		return dflt
	}
	if !w.errChosen {
		w.errKind, w.errChosen = vChoose(14), true
	}
	switch w.errKind {
	case 1:
		vReach("callback-returns-context-canceled")
		return context.Canceled
	case 2:
		return context.DeadlineExceeded
	case 3:
		return io.EOF
	case 4:
		return ErrClosedWriter
	case 5:
		return buffer.NewMessageSizeExceeded(64, 65)
	case 6:
		return fmt.Errorf("wrapped: %w", context.Canceled)
	case 7: // decorated errors: whatever severity or code the handler chose, a failure is a failure
		vReach("callback-returns-a-warning")
		return psqlerr.WithSeverity(dflt, psqlerr.LevelWarning)
	case 8:
		return psqlerr.WithSeverity(psqlerr.WithCode(dflt, codes.Syntax), psqlerr.LevelNotice)
	case 9:
		return psqlerr.WithSeverity(dflt, psqlerr.LevelFatal)
	case 10:
		return psqlerr.WithHint(psqlerr.WithSeverity(dflt, psqlerr.LevelLog), "hint")
	case 11: // the handler's own I/O ended short (a file, an upstream connection)
		return fmt.Errorf("upstream: %w", io.ErrUnexpectedEOF)
	case 12:
		return fmt.Errorf("upstream: %w", net.ErrClosed)
	case 13:
		return fmt.Errorf("upstream: %w", io.EOF)
	}
	return dflt
}

// mkStmt: cols == -1 declares an EMPTY BUT NON-NIL column list (a handler that
// builds its columns dynamically), which must behave like no columns at all.
func (w *vWorld) mkStmt(cols, nparams int) *PreparedStatement {
	emptyNonNil := cols < 0
	if emptyNonNil {
		cols = 0
	}
	info := &vStmtInfo{id: w.nextID, cols: cols, nparams: nparams, outcome: vChoose(w.execMenu)}
	w.nextID++
	w.stmts = append(w.stmts, info)
	var columns Columns
	if emptyNonNil {
		columns = make(Columns, 0)
		vReach("empty-non-nil-columns")
	}
	for i := 0; i < cols; i++ {
		columns = append(columns, Column{Name: "c", Oid: oid.T_text})
	}
	fn := func(ctx context.Context, dw DataWriter, params []Parameter) error {
		w.events = append(w.events, vEvent{kind: 'x', id: info.id, params: params, ctx: ctx, live: ctx.Err() == nil})
		// every statement gets a fresh result writer: nothing written, not closed
		w.freshWriters = append(w.freshWriters, dw.Written() == 0)
		defer func() {
			delivered := uint64(0)
			if info.outcome == 0 || info.outcome == 3 {
				delivered = 1
			}
			if info.outcome == 4 {
				delivered = 2
			}
			if info.outcome == 5 {
				delivered = 0
			}
			w.countersRight = append(w.countersRight, dw.Written() == delivered)
		}()
		row := make([]any, info.cols)
		for i := range row {
			row[i] = "v"
		}
		switch info.outcome {
		case 0:
			if err := dw.Row(row); err != nil {
				return err
			}
			return dw.Complete("T")
		case 1:
			return w.cbErr(errVerifExec)
		case 2:
			return dw.Complete("T")
		case 5: // the statement function panics (the extended protocol recovers it)
			panic("verif: the statement function panics")
		case 4: // two rows, then complete
			if err := dw.Row(row); err != nil {
				return err
			}
			if err := dw.Row(row); err != nil {
				return err
			}
			return dw.Complete("T")
		default:
			if err := dw.Row(row); err != nil {
				return err
			}
			return w.cbErr(errVerifExec)
		}
	}
	opts := []PreparedOptionFn{WithColumns(columns)}
	if nparams > 0 {
		opts = append(opts, WithParameters(make([]oid.Oid, nparams)))
	}
	w.lastParse = append(w.lastParse, info)
	return NewStatement(fn, opts...)
}

func (w *vWorld) parse(ctx context.Context, query string) (PreparedStatements, error) {
	w.events = append(w.events, vEvent{kind: 'p', query: []byte(query), ctx: ctx, live: ctx.Err() == nil})
	w.lastParse = nil
	w.lastParseErr = false
	if w.parseMenu == -2 { // deterministic: exactly one statement with one column
		return Prepared(w.mkStmt(1, 0)), nil
	}
	if w.parseMenu < 0 { // exactly one statement: 1 column, none (nil), or none (empty non-nil)
		return Prepared(w.mkStmt(vChoose(3)-1, 0)), nil
	}
	switch vChoose(w.parseMenu) {
	case 0:
		w.lastParseErr = true
		return nil, w.cbErr(errVerifParse)
	case 1:
		return Prepared(w.mkStmt(1, 0)), nil
	case 2:
		return Prepared(w.mkStmt(0, 0)), nil
	case 3:
		return Prepared(), nil
	case 4:
		return Prepared(w.mkStmt(1, 0), w.mkStmt(0, 0)), nil
	default:
		return Prepared(w.mkStmt(-1, 0)), nil
	}
}

// vServerCfg builds a server from options, or — the solver's choice — builds
// it without them and writes the same configuration directly to the exported
// fields (Auth, BufferedMsgSize, Parameters, TLSConfig, Session, Statements,
// Portals, CloseConn, TerminateConn, Version), which the API equally allows.
// What only an option can set (logger, type extensions) is carried over.
func vServerCfg(parse ParseFn, opts ...OptionFn) (*Server, error) {
	srv, err := NewServer(parse, opts...)
	if err != nil || !nondetBool() {
		return srv, err
	}
	bare, err := NewServer(parse)
	if err != nil {
		return bare, err
	}
	bare.Auth, bare.BufferedMsgSize, bare.Parameters, bare.TLSConfig = srv.Auth, srv.BufferedMsgSize, srv.Parameters, srv.TLSConfig
	bare.Session, bare.Statements, bare.Portals = srv.Session, srv.Statements, srv.Portals
	bare.CloseConn, bare.TerminateConn, bare.Version = srv.CloseConn, srv.TerminateConn, srv.Version
	bare.logger, bare.types, bare.typeExtensions = srv.logger, srv.types, srv.typeExtensions
	vReach("configured-through-exported-fields")
	return bare, nil
}

// vNewWorldCfg is vNewWorld with the configuration route left to the solver.
func vNewWorldCfg(input []byte, limit int, opts ...OptionFn) *vWorld {
	w := &vWorld{parseMenu: 2, execMenu: 2}
	all := append([]OptionFn{MessageBufferSize(limit)}, opts...)
	srv, err := vServerCfg(w.parse, all...)
	vAssert("newserver-ok", err == nil)
	w.srv = srv
	w.conn = vNewConn(input)
	w.ses, w.rd, w.wr = vSession(srv, w.conn)
	w.ctx = vCtx(srv)
	return w
}

func vNewWorld(input []byte, limit int, opts ...OptionFn) *vWorld {
	w := &vWorld{parseMenu: 2, execMenu: 2}
	all := append([]OptionFn{MessageBufferSize(limit)}, opts...)
	srv, err := NewServer(w.parse, all...)
	vAssert("newserver-ok", err == nil)
	w.srv = srv
	w.conn = vNewConn(input)
	w.ses, w.rd, w.wr = vSession(srv, w.conn)
	w.ctx = vCtx(srv)
	return w
}

// step handles exactly one client message with the real command loop body
// and returns the reply types produced while handling it.
func (w *vWorld) step() (string, error) {
	mark := len(w.conn.out)
	err := w.ses.consumeSingleCommand(w.ctx, w.rd, w.wr, w.conn)
	return vTypes(w.conn.out[mark:]), err
}

func (w *vWorld) countEvents(kind byte) int {
	n := 0
	for _, e := range w.events {
		if e.kind == kind {
			n++
		}
	}
	return n
}

// ---------------------------------------------------------------------------
// Reference automaton for extended-query histories (DESIGN Appendix C),
// written from the protocol text; it reads only client messages, captured
// reply types and the callback trace.
// ---------------------------------------------------------------------------

type vRefPortal struct {
	stmt *vStmtInfo
	// the statement it was built from has been closed since: whether the portal
	// survives (this library) or goes with it (PostgreSQL) is not settled by the
	// property; the reference follows whichever the implementation does
	stmtClosed bool
}

type vRef struct {
	skip    bool
	stmts   map[string]*vStmtInfo
	portals map[string]*vRefPortal
}

func vNames(i int) string {
	if i == 0 {
		return ""
	}
	return "a"
}

func vRowsOf(s *vStmtInfo) string {
	switch s.outcome {
	case 0:
		return "DC"
	case 1:
		return "E"
	case 2:
		return "C"
	case 4:
		return "DDC"
	case 5:
		return "E"
	default:
		return "DE"
	}
}

func vDescOf(s *vStmtInfo) string {
	if s.cols > 0 {
		return "T"
	}
	return "n"
}

// ---------------------------------------------------------------------------
// H06b — extended-query histories (C06; the monitor also serves C02 and C07)
// ---------------------------------------------------------------------------
func VerifH06b() {
	K := vParam("K", 3)
	withQ := vParam("Q", 0)
	// choose the history first (concrete framing, symbolic query byte)
	kinds := make([]int, K)
	a1 := make([]int, K)
	a2 := make([]int, K)
	var input []byte
	menu := 7
	if withQ > 0 {
		menu = 8
	}
	if vParam("X", 0) > 0 {
		menu = 12 // also unknown-type and oversized messages, Describe/Close of an unknown kind
	}
	// TRUNC=1: the body of a Parse/Bind/Describe/Execute/Close may lack its last
	// byte (an unterminated name, half a count): such a message fails — the
	// connection ends, or it is answered by one ErrorResponse and the rest of the
	// cycle is discarded; it is never answered by a ReadyForQuery of its own
	trunc := make([]bool, K)
	add := func(i int, t byte, body []byte) {
		if vParam("TRUNC", 0) > 0 && nondetBool() {
			body = body[:len(body)-1]
			trunc[i] = true
		}
		input = append(input, vMsgBytes(t, body)...)
	}
	for i := 0; i < K; i++ {
		kinds[i] = vChoose(menu)
		switch kinds[i] {
		case 0: // Parse name, query
			a1[i] = vChoose(2)
			q := []byte{nondetByte()}
			vAssume(q[0] != 0)
			add(i, 'P', vCat(vCStr([]byte(vNames(a1[i]))), vCStr(q), vU16(0)))
		case 1: // Bind portal, statement
			a1[i] = vChoose(2)
			a2[i] = vChoose(2)
			// no result-format code, or one (text or binary) that applies to all
			// result columns — however many the statement has, none included
			rf := vU16(0)
			if vParam("RF", 0) > 0 && nondetBool() {
				rf = vCat(vU16(1), vU16(vChoose(2)))
			}
			add(i, 'B', vCat(vCStr([]byte(vNames(a1[i]))), vCStr([]byte(vNames(a2[i]))), vU16(0), vU16(0), rf))
		case 2: // Describe kind, name
			a1[i] = vChoose(2)
			a2[i] = vChoose(2)
			kind := byte('S')
			if a1[i] == 1 {
				kind = 'P'
			}
			add(i, 'D', vCat([]byte{kind}, vCStr([]byte(vNames(a2[i])))))
		case 3: // Execute portal
			a1[i] = vChoose(2)
			// the row limit: "no limit" or any limit the statement's single row stays under
			lim := nondetU32()
			vAssume(vOr(lim == 0, lim >= 2))
			add(i, 'E', vCat(vCStr([]byte(vNames(a1[i]))), vU32(lim)))
		case 4: // Close kind, name
			a1[i] = vChoose(2)
			a2[i] = vChoose(2)
			kind := byte('S')
			if a1[i] == 1 {
				kind = 'P'
			}
			add(i, 'C', vCat([]byte{kind}, vCStr([]byte(vNames(a2[i])))))
		case 5:
			input = append(input, vMsgBytes('H', nil)...)
		case 6:
			input = append(input, vMsgBytes('S', nil)...)
		case 7: // simple query
			q := []byte{nondetByte()}
			vAssume(vAnd(q[0] != 0, q[0] > ' '))
			input = append(input, vMsgBytes('Q', vCStr(q))...)
		case 8: // a message type the server does not know
			input = append(input, vMsgBytes('z', nondetBytes(vChoose(2)))...)
		case 9: // an oversized message (limit 64) of an extended-query type
			input = append(input, vMsgBytes('P', make([]byte, 65+vChoose(2)))...)
		case 10, 11: // Describe / Close of a kind that is neither statement nor portal
			kind := nondetByte()
			vAssume(vAnd(kind != 'S', kind != 'P'))
			a2[i] = vChoose(2)
			t := byte('D')
			if kinds[i] == 11 {
				t = 'C'
			}
			input = append(input, vMsgBytes(t, vCat([]byte{kind}, vCStr([]byte(vNames(a2[i])))))...)
		}
	}

	w := vNewWorld(input, 64)
	// what the ParseFn may answer: 2 = error | one statement; 5 adds a statement
	// without columns, zero statements and two statements (both errors in Parse)
	w.parseMenu = vParam("PM", 2)
	w.execMenu = vParam("EM", 2) // 6 adds: Complete only, row then error, two rows, and a panicking statement
	ref := &vRef{stmts: map[string]*vStmtInfo{}, portals: map[string]*vRefPortal{}}
	sawError, sawSkip := false, false
	sawMulti := false

	for i := 0; i < K; i++ {
		evBefore := len(w.events)
		got, err := w.step()
		parses := 0
		execs := 0
		var ran *vStmtInfo
		for _, e := range w.events[evBefore:] {
			if e.kind == 'p' {
				parses++
			}
			if e.kind == 'x' {
				execs++
				ran = w.stmts[e.id]
			}
		}
		if trunc[i] && !ref.skip {
			// a malformed message: the connection ends, or one ErrorResponse and skip
			vAssert("malformed-message-no-callback", parses == 0 && execs == 0)
			if err != nil {
				vReach("malformed-message-ends-the-connection")
				return
			}
			vAssert("malformed-message-one-ErrorResponse-no-ReadyForQuery", got == "E")
			ref.skip = true
			continue
		}
		vAssert("connection-stays-up", err == nil)
		if err != nil {
			return
		}

		if kinds[i] == 8 || kinds[i] == 9 {
			// unknown type / oversized: the texts of C06 and C10 do not settle whether
			// the cycle ends here; one ErrorResponse, optionally ReadyForQuery, no callback
			if ref.skip && kinds[i] == 8 {
				vAssert("skipped-unknown-type-no-reply", got == "")
			} else {
				vAssert("unknown-or-oversized-one-error", got == "E" || got == "EZ")
			}
			vAssert("unknown-or-oversized-no-callback", parses == 0 && execs == 0)
			vReach("unknown-or-oversized")
			continue
		}
		if ref.skip && kinds[i] != 6 {
			vAssertK("skipped-no-reply", "KF-C06-2", true, got == "")
			vAssertK("skipped-no-callback", "KF-C06-2", true, parses == 0 && execs == 0)
			sawSkip = true
			if vKnownOpen("KF-C06-2") {
				// the implementation does not skip: the reference cannot follow it
				return
			}
			continue
		}
		want := ""
		fail := false
		switch kinds[i] {
		case 0:
			vAssert("parse-consults-parser-once", parses == 1)
			if w.lastParseErr || len(w.lastParse) != 1 {
				fail = true
				if len(w.lastParse) > 1 {
					sawMulti = true
				}
			} else {
				want = "1"
				ref.stmts[vNames(a1[i])] = w.lastParse[0]
			}
		case 1:
			st := ref.stmts[vNames(a2[i])]
			if st == nil {
				fail = true
			} else {
				want = "2"
				ref.portals[vNames(a1[i])] = &vRefPortal{stmt: st}
			}
		case 2:
			if a1[i] == 0 {
				st := ref.stmts[vNames(a2[i])]
				if st == nil {
					fail = true
				} else {
					want = "t" + vDescOf(st)
				}
			} else {
				p := ref.portals[vNames(a2[i])]
				if p == nil || (p.stmtClosed && got == "E") {
					fail = true
				} else {
					want = vDescOf(p.stmt)
				}
			}
		case 3:
			p := ref.portals[vNames(a1[i])]
			if p == nil || (p.stmtClosed && got == "E" && execs == 0) {
				fail = true
			} else {
				vAssert("execute-runs-statement-once", execs == 1)
				vAssert("execute-runs-the-bound-statement", ran == p.stmt)
				want = vRowsOf(p.stmt)
				if p.stmt.outcome == 1 || p.stmt.outcome == 3 || p.stmt.outcome == 5 {
					if p.stmt.outcome == 5 {
						vReach("statement-panicked")
					}
					ref.skip = true
					sawError = true
				}
			}
		case 4:
			want = "3"
			if a1[i] == 0 {
				if st := ref.stmts[vNames(a2[i])]; st != nil {
					for _, p := range ref.portals {
						if p.stmt == st {
							p.stmtClosed = true
						}
					}
				}
				delete(ref.stmts, vNames(a2[i]))
			} else {
				delete(ref.portals, vNames(a2[i]))
			}
		case 5:
			want = ""
		case 6:
			want = "Z"
			ref.skip = false
		case 10, 11:
			fail = true // an error, never silence or a dropped connection
			vReach("describe-or-close-of-unknown-kind")
		case 7:
			// simple query: one cycle ending in exactly one Z
			vAssert("simple-query-one-Z-last", vCount(got, 'Z') == 1 && got[len(got)-1] == 'Z')
			continue
		}
		if fail {
			// exactly one ErrorResponse, nothing else, then skip until Sync
			vAssertK("failure-is-exactly-one-E", "KF-C06-1", true, got == "E")
			if vKnownOpen("KF-C06-1") {
				vAssert("failure-has-one-E", vCount(got, 'E') == 1)
			}
			if kinds[i] != 3 {
				vAssert("failed-message-runs-no-statement", execs == 0)
			}
			ref.skip = true
			sawError = true
			continue
		}
		if kinds[i] != 3 {
			vAssert("no-statement-runs-outside-execute", execs == 0)
		}
		if kinds[i] != 0 {
			vAssert("parser-only-on-parse", parses == 0)
		}
		if ref.skip { // an Execute whose statement failed: D* then exactly one E
			vAssertK("reply-is-designated", "KF-C06-1", true, got == want)
		} else {
			vAssert("reply-is-designated", got == want)
		}
	}
	vAssert("wire-wellformed", vWireOK(w.conn.out))
	if sawError {
		vReach("error-then-more")
	}
	if sawSkip {
		vReach("skipped-until-sync")
	}
	if sawMulti {
		vReach("parse-with-several-statements")
	}
}

// ---------------------------------------------------------------------------
// H05b — simple-query cycle discipline (C05): symbolic query text, ParseFn
// returning error | 0 | 1 | 2 statements, each statement function running a
// solver-chosen script. Reference = Appendix C automaton.
// ---------------------------------------------------------------------------
func VerifH05b() {
	QLEN := vParam("QLEN", 2)
	n := vChoose(QLEN + 1)
	q := nondetBytes(n)
	vAssume(vNoNUL(q))
	for i := range q {
		vAssume(q[i] < 0x80) // Unicode white space is outside the claim
	}
	input := vMsgBytes('Q', vCStr(q))
	w := vNewWorld(input, 64)
	w.parseMenu = 6
	w.execMenu = 5
	got, err := w.step()
	vAssert("connection-stays-up", err == nil)
	// every parser and statement call of the command gets a context that is
	// still live when it starts — also the second statement of one query
	nx := 0
	for _, ev := range w.events {
		vAssert("callback-context-live-while-the-command-runs", ev.live)
		if ev.kind == 'x' {
			nx++
		}
	}
	if nx >= 2 {
		vReach("second-statement-ran")
	}

	blank := true
	for i := range q {
		c := q[i]
		if !(c == ' ' || c == '\t' || c == '\n' || c == '\v' || c == '\f' || c == '\r') {
			blank = false
		}
	}
	parses := w.countEvents('p')
	if blank {
		vAssert("blank-query-empty-response", got == "IZ")
		vAssert("blank-query-skips-parser", parses == 0)
		vReach("blank")
		return
	}
	vAssert("parser-consulted-once", parses == 1)
	vAssert("parser-sees-the-query", vEqBytes(w.events[0].query, q))
	want := ""
	ranWant := 0
	if w.lastParseErr || len(w.lastParse) == 0 {
		want = "E"
	} else {
		for _, st := range w.lastParse {
			if st.cols > 0 {
				want += "T"
			}
			want += vRowsOf(st)
			ranWant++
			if st.outcome == 1 || st.outcome == 3 {
				vReach("statement-failed")
				break
			}
		}
	}
	want += "Z"
	vAssert("cycle-matches-reference", got == want)
	vAssert("exactly-one-ReadyForQuery-last", vCount(got, 'Z') == 1 && got[len(got)-1] == 'Z')
	vAssert("statements-run-in-order-until-failure", w.countEvents('x') == ranWant)
	k := 0
	for _, e := range w.events {
		if e.kind == 'x' {
			vAssert("statement-order", e.id == w.lastParse[k].id)
			k++
		}
	}
	for _, ok := range w.freshWriters {
		vAssert("each-statement-gets-a-fresh-writer", ok)
	}
	for _, ok := range w.countersRight {
		vAssert("row-counter-equals-rows-delivered-by-this-statement", ok)
	}
	vAssert("wire-wellformed", vWireOK(w.conn.out))
	if len(w.lastParse) == 2 && ranWant == 2 {
		vReach("two-statements")
	}
}

// ---------------------------------------------------------------------------
// H05s — a simple Query is answered in full whatever came just before it
// (C05): a message of a type the server does not implement (symbolic type byte
// and body), a Flush, a stray CopyDone / CopyData / CopyFail, or an oversized
// message — none of them part of an extended-query cycle — and then Query. The
// Query's cycle is RowDescription, DataRow, CommandComplete and exactly one
// ReadyForQuery, last; its statement ran once.
// ---------------------------------------------------------------------------
func VerifH05s() {
	var before []byte
	kind := vChoose(6)
	switch kind {
	case 1:
		typ := nondetByte()
		// (types the server implements have harnesses of their own)
		for _, known := range []byte("QPBDECHSXdcfp") {
			vAssume(typ != known)
		}
		before = vMsgBytes(typ, nondetBytes(vChoose(3)))
		vReach("unimplemented-message-type-before-the-query")
	case 2:
		before = vMsgBytes('H', nil)
	case 3:
		before = vMsgBytes('c', nil)
	case 4:
		before = vMsgBytes('d', nondetBytes(vChoose(3)))
	case 5:
		before = vMsgBytes(nondetByte(), make([]byte, 65+vChoose(2)))
		vReach("oversized-message-before-the-query")
	}
	input := vCat(before, vMsgBytes('Q', vCStr([]byte("q"))))
	w := vNewWorld(input, 64)
	w.parseMenu = -2
	w.execMenu = 1
	if kind != 0 {
		_, err := w.step()
		vAssert("connection-stays-up", err == nil)
	}
	evBefore := len(w.events)
	got, err := w.step()
	vAssert("connection-stays-up", err == nil)
	vAssert("query-answered-in-full-with-one-ReadyForQuery", got == "TDCZ")
	execs := 0
	for _, e := range w.events[evBefore:] {
		if e.kind == 'x' {
			execs++
		}
	}
	vAssert("query-statement-ran-once", execs == 1)
	vAssert("wire-wellformed", vWireOK(w.conn.out))
}

// ---------------------------------------------------------------------------
// H06x — the designated replies do not depend on the state of the session's
// context (C06): the context the embedder's middleware returned has been
// cancelled (or not — the solver's choice) while the connection stays open,
// and the client sends Parse, Bind, Describe portal, Execute, Close, Flush,
// Sync for a statement that only completes. Each message gets its designated
// reply, the Sync the only ReadyForQuery.
// ---------------------------------------------------------------------------
func VerifH06x() {
	cancelled := nondetBool()
	stmt := func(ctx context.Context, dw DataWriter, params []Parameter) error { return dw.Complete("T") }
	parse := func(ctx context.Context, query string) (PreparedStatements, error) {
		return Prepared(NewStatement(stmt)), nil
	}
	srv, err := NewServer(parse, MessageBufferSize(64))
	vAssert("newserver-ok", err == nil)
	input := vCat(
		vMsgBytes('P', vCat(vCStr(nil), vCStr([]byte("q")), vU16(0))),
		vMsgBytes('B', vCat(vCStr(nil), vCStr(nil), vU16(0), vU16(0), vU16(0))),
		vMsgBytes('D', vCat([]byte{'P'}, vCStr(nil))),
		vMsgBytes('E', vCat(vCStr(nil), vU32(0))),
		vMsgBytes('C', vCat([]byte{'P'}, vCStr(nil))),
		vMsgBytes('H', nil),
		vMsgBytes('S', nil))
	w := &vWorld{srv: srv}
	w.conn = vNewConn(input)
	w.ses, w.rd, w.wr = vSession(srv, w.conn)
	ctx, cancel := context.WithCancel(vCtx(srv))
	w.ctx = ctx
	if cancelled {
		cancel()
		vReach("session-context-cancelled")
	}
	out := ""
	for i := 0; i < 7; i++ {
		got, e := w.step()
		vAssert("connection-stays-up", e == nil)
		out += got
	}
	cancel()
	vAssert("designated-replies-one-ReadyForQuery", out == "12nC3Z")
	vAssert("wire-wellformed", vWireOK(w.conn.out))
}

// ---------------------------------------------------------------------------
// H06p — the session goes on after a statement function panicked (C06): the
// unnamed statement (whose function panics, fails or completes — the solver's
// choice) is bound; Execute, Sync, then one more portal operation (Bind,
// Describe portal, Execute, Close portal — the solver's choice) and Sync. A
// panic is one ErrorResponse like any failure; whatever the first Execute did,
// the later operation gets its designated reply and the Sync its ReadyForQuery
// (nothing stays locked or half-updated behind the failed call).
// ---------------------------------------------------------------------------
func VerifH06p() {
	next := vChoose(4)
	var op []byte
	switch next {
	case 0:
		op = vMsgBytes('B', vCat(vCStr(nil), vCStr(nil), vU16(0), vU16(0), vU16(0)))
	case 1:
		op = vMsgBytes('D', vCat([]byte{'P'}, vCStr(nil)))
	case 2:
		op = vMsgBytes('E', vCat(vCStr(nil), vU32(0)))
	default:
		op = vMsgBytes('C', vCat([]byte{'P'}, vCStr(nil)))
	}
	sync := vMsgBytes('S', nil)
	// the first Execute may also name a portal that does not exist (while another
	// one is bound): one ErrorResponse, and again nothing stays locked behind it
	unknownFirst := nondetBool()
	first := vMsgBytes('E', vCat(vCStr(nil), vU32(0)))
	if unknownFirst {
		first = vMsgBytes('E', vCat(vCStr([]byte("x")), vU32(0)))
	}
	input := vCat(first, sync, op, sync)
	w := vNewWorld(input, 64)
	w.execMenu = 6
	stmt := w.mkStmt(1, 0)
	info := w.lastParse[0]
	vAssume(info.outcome == 5 || info.outcome == 1 || info.outcome == 0)
	vAssert("set-ok", w.ses.Statements.Set(w.ctx, "", stmt) == nil)
	bind := vCat(vCStr(nil), vCStr(nil), vU16(0), vU16(0), vU16(0))
	vAssert("bind-ok", w.ses.handleBind(w.ctx, &buffer.Reader{Msg: bind, MaxMessageSize: 64}, w.wr) == nil)
	w.conn.out = nil
	got, err := w.step()
	vAssert("connection-stays-up", err == nil)
	if unknownFirst {
		vAssert("execute-of-an-unknown-portal-is-one-error", got == "E")
		vReach("unknown-portal-executed-while-another-is-bound")
	} else {
		vAssert("first-execute-reply", got == vRowsOf(info))
	}
	got, err = w.step()
	vAssert("sync-ready", err == nil && got == "Z")
	got, err = w.step()
	vAssert("connection-stays-up", err == nil)
	switch next {
	case 0:
		vAssert("bind-after-a-failed-execute", got == "2")
	case 1:
		vAssert("describe-portal-after-a-failed-execute", got == "T")
	case 2:
		vAssert("execute-after-a-failed-execute", got == vRowsOf(info))
	default:
		vAssert("close-portal-after-a-failed-execute", got == "3")
	}
	got, err = w.step()
	vAssert("second-sync-ready", err == nil && got == "Z")
	if info.outcome == 5 {
		vReach("statement-panicked")
	}
}

// vSimpleCyclesOK: the reply types of simple-query cycles, possibly cut short:
// each cycle is RowDescription DataRow* (CommandComplete | ErrorResponse), or a
// lone CommandComplete / ErrorResponse / EmptyQueryResponse, then ReadyForQuery.
// A ReadyForQuery never comes without the completion or the error it closes.
func vSimpleCyclesOK(types string) bool {
	state := 0
	for i := 0; i < len(types); i++ {
		c := types[i]
		switch state {
		case 0:
			switch c {
			case 'T':
				state = 1
			case 'C', 'E', 'I':
				state = 2
			default:
				return false
			}
		case 1:
			switch c {
			case 'D':
			case 'C', 'E':
				state = 2
			default:
				return false
			}
		case 2:
			if c != 'Z' {
				return false
			}
			state = 0
		}
	}
	return true
}

// ---------------------------------------------------------------------------
// H05t — ONE refused write during simple queries (C05, C02): two Query
// messages; the statement writes a row and completes, or fails, or the parse
// callback fails; exactly one Write of the transport (which one is the solver's
// choice: a RowDescription, a DataRow, a CommandComplete, an ErrorResponse or a
// ReadyForQuery) is refused with nothing accepted — an error of the deadline
// kind, a net.Error timeout or an opaque one — and the Writes after it are
// accepted again. What the client RECEIVES stays a sequence of well-formed
// cycles: a ReadyForQuery only after the CommandComplete or ErrorResponse it
// closes, one per query answered; whatever could not be delivered is simply
// missing at the end of a session that ended there, or was reported.
// ---------------------------------------------------------------------------
func VerifH05t() {
	behaviour := vChoose(3)
	stmt := func(ctx context.Context, dw DataWriter, params []Parameter) error {
		if behaviour == 1 {
			return errors.New("verif: the statement failed")
		}
		if err := dw.Row([]any{"v"}); err != nil {
			return err
		}
		return dw.Complete("SELECT 1")
	}
	parse := func(ctx context.Context, query string) (PreparedStatements, error) {
		if behaviour == 2 {
			return nil, errors.New("verif: no such statement")
		}
		return Prepared(NewStatement(stmt, WithColumns(vTextColumns(1)))), nil
	}
	srv, err := NewServer(parse, MessageBufferSize(64))
	vAssert("newserver-ok", err == nil)
	q := vMsgBytes('Q', vCStr([]byte("q")))
	w := &vWorld{srv: srv}
	w.conn = vNewConn(vCat(q, q))
	w.conn.failWriteOnly = 1 + vChoose(vParam("WRITES", 6))
	switch vChoose(3) {
	case 0:
		w.conn.failWriteErr = os.ErrDeadlineExceeded
	case 1:
		w.conn.failWriteErr = vTimeoutErr{}
	default:
		w.conn.failWriteErr = errVerifIO
	}
	w.ses, w.rd, w.wr = vSession(srv, w.conn)
	w.ctx = vCtx(srv)
	for i := 0; i < 2; i++ {
		got, err := w.step()
		if err != nil {
			vAssert("a-session-that-ends-has-sent-at-most-one-ReadyForQuery-for-the-query", vCount(got, 'Z') <= 1)
			vReach("session-ended-by-the-refused-write")
			break
		}
		vAssert("an-answered-query-ends-with-its-one-ReadyForQuery", len(got) >= 2 && got[len(got)-1] == 'Z' && vCount(got, 'Z') == 1)
	}
	vAssert("wire-wellformed", vWireOK(w.conn.out))
	vAssert("received-replies-are-well-formed-cycles", vSimpleCyclesOK(vTypes(w.conn.out)))
	if w.conn.failedWrites == 1 {
		vReach("one-write-refused")
	}
}

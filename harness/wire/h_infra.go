package wire

import (
	"context"
	"errors"
	"io"
	"net"
	"time"

	"github.com/jeroenrinzema/psql-wire/pkg/buffer"
)

// ---------------------------------------------------------------------------
// Transport model (DESIGN §3): the client side of a connection is a byte
// string with nondeterministic short reads and a symbolic failure point; the
// server side is captured per Write call.
// ---------------------------------------------------------------------------

type vStream struct {
	data   []byte
	pos    int
	reads  int
	failAt int // Read calls after this many fail; <0: never
	short  bool
	chunk  int // > 0: a Read returns at most this many bytes
	// endErr != nil: once the data is used up every Read fails with this error
	// (a transport fault that persists) instead of reporting io.EOF
	endErr error
	// failOnce > 0: exactly this Read call (1-based) fails with failOnceErr
	// and delivers nothing; the calls before and after it are served as usual
	// (an expired read deadline that the embedder's wrapper then extends)
	failOnce    int
	failOnceErr error
	failedOnce  bool
}

// vTimeoutErr is a transport error of the timeout kind (what an expired read
// deadline yields): a net.Error whose Timeout() is true. An expired deadline
// persists: every later read fails the same way.
type vTimeoutErr struct{}

func (vTimeoutErr) Error() string   { return "verif: i/o timeout" }
func (vTimeoutErr) Timeout() bool   { return true }
func (vTimeoutErr) Temporary() bool { return true }

// vFaultKind: the identity of a persistent transport fault, the solver's choice.
func vFaultKind() error {
	switch vChoose(5) {
	case 1:
		vReach("timeout-kind-transport-error")
		return vTimeoutErr{}
	case 2:
		return io.ErrUnexpectedEOF
	case 3:
		return net.ErrClosed
	case 4:
		return io.ErrClosedPipe
	}
	return errVerifIO
}

var errVerifIO = errors.New("verif: transport failure")

func (s *vStream) Read(p []byte) (int, error) {
	s.reads++
	if s.failAt >= 0 && s.reads > s.failAt {
		return 0, errVerifIO
	}
	avail := len(s.data) - s.pos
	if len(p) == 0 {
		return 0, nil
	}
	if s.failOnce > 0 && s.reads == s.failOnce && avail > 0 {
		s.failedOnce = true
		return 0, s.failOnceErr
	}
	if avail == 0 {
		if s.endErr != nil {
			return 0, s.endErr
		}
		return 0, io.EOF
	}
	max := len(p)
	if avail < max {
		max = avail
	}
	if s.chunk > 0 && max > s.chunk {
		max = s.chunk
	}
	n := max
	if s.short {
		n = 1 + vChoose(max)
	}
	copy(p, s.data[s.pos:s.pos+n])
	s.pos += n
	return n, nil
}

type vAddr struct{ id int }

func (vAddr) Network() string { return "verif" }
func (vAddr) String() string  { return "verif-client" }

type vConn struct {
	in          *vStream
	out         []byte
	writes      int
	failWriteAt int // Write calls after this many fail; <0: never
	failWriteOnly int // > 0: exactly this Write call (1-based) fails, the others succeed
	failWriteErr  error // the error a failing Write returns (default: errVerifIO)
	failedWrites  int
	closed      int
	readsAfterClose int
	inner       *vConn // the plaintext side of the TLS model
	id          int
	writeFailed bool
	writesAfterFailure int
	stall       bool // when the input is used up the client goes silent (Read blocks) instead of closing
	doneCh      chan struct{} // native runs only: closed by the first Close
	onWriteFailure func()     // called when the first Write fails
	// onIdle, if set, runs once when a Read finds that the client has sent
	// everything it had to send (the connection is idle, waiting for a message)
	onIdle     func()
	trackDepth bool  // record the library's call-stack depth at every Read
	depths     []int
	// silent != "": the client has sent everything it will send and now waits
	// for the server without closing; a Read that finds the input used up would
	// block for ever, which is reported as a violation under this label
	silent string
}

// vAwaitClosed (native runs of harnesses that let the library start its own
// goroutines): wait until the server has closed the connection.
func (c *vConn) vAwaitClosed() {
	if c.doneCh == nil {
		return
	}
	select {
	case <-c.doneCh:
	case <-time.After(3 * time.Second):
	}
}

func vNewConn(data []byte) *vConn {
	return &vConn{in: &vStream{data: data, failAt: -1}, failWriteAt: -1}
}

func (c *vConn) Read(p []byte) (int, error) {
	if c.trackDepth {
		c.depths = append(c.depths, vStackDepth())
	}
	if c.closed > 0 {
		c.readsAfterClose++
		return 0, net.ErrClosed
	}
	if c.onIdle != nil && len(p) > 0 && len(c.in.data) == c.in.pos {
		f := c.onIdle
		c.onIdle = nil
		f()
	}
	if c.stall && len(p) > 0 && len(c.in.data) == c.in.pos {
		vStall()
	}
	if c.silent != "" && len(p) > 0 && len(c.in.data) == c.in.pos {
		vAssert(c.silent, false)
	}
	return c.in.Read(p)
}

func (c *vConn) Write(p []byte) (int, error) {
	c.writes++
	if c.writeFailed {
		c.writesAfterFailure++
	}
	if c.closed > 0 {
		return 0, net.ErrClosed
	}
	if c.failWriteOnly > 0 && c.writes == c.failWriteOnly {
		c.failedWrites++
		return 0, errVerifIO
	}
	if c.failWriteAt >= 0 && c.writes > c.failWriteAt {
		if !c.writeFailed && c.onWriteFailure != nil {
			c.onWriteFailure()
		}
		c.writeFailed = true
		c.failedWrites++
		if c.failWriteErr != nil {
			return 0, c.failWriteErr
		}
		return 0, errVerifIO
	}
	c.out = append(c.out, p...)
	return len(p), nil
}

func (c *vConn) Close() error {
	c.closed++
	if c.doneCh != nil && c.closed == 1 {
		close(c.doneCh)
	}
	return nil
}
func (c *vConn) LocalAddr() net.Addr                { return vAddr{} }
func (c *vConn) RemoteAddr() net.Addr               { return vAddr{c.id} }
func (c *vConn) SetDeadline(t time.Time) error      { return nil }
func (c *vConn) SetReadDeadline(t time.Time) error  { return nil }
func (c *vConn) SetWriteDeadline(t time.Time) error { return nil }

// ---------------------------------------------------------------------------
// Strict backend grammar (DESIGN Appendix A), written from the protocol
// documentation, independent of the code under test.
// ---------------------------------------------------------------------------

type vMsg struct {
	typ  byte
	body []byte
}

// vFrames splits captured output into frames type|be32(4+len(body))|body.
func vFrames(out []byte) ([]vMsg, bool) {
	var msgs []vMsg
	for len(out) > 0 {
		if len(out) < 5 {
			return msgs, false
		}
		l := int(uint32(out[1])<<24 | uint32(out[2])<<16 | uint32(out[3])<<8 | uint32(out[4]))
		if l < 4 || len(out) < 1+l {
			return msgs, false
		}
		msgs = append(msgs, vMsg{out[0], out[5 : 1+l]})
		out = out[1+l:]
	}
	return msgs, true
}

// vCString returns the index just past the first NUL at or after i, or -1.
func vCString(b []byte, i int) int {
	for ; i < len(b); i++ {
		if b[i] == 0 {
			return i + 1
		}
	}
	return -1
}

func vBE16(b []byte, i int) int { return int(uint16(b[i])<<8 | uint16(b[i+1])) }
func vBE32(b []byte, i int) uint32 {
	return uint32(b[i])<<24 | uint32(b[i+1])<<16 | uint32(b[i+2])<<8 | uint32(b[i+3])
}

// vBodyOK: does the body parse exactly under its type's grammar?
func vBodyOK(m vMsg) bool {
	b := m.body
	switch m.typ {
	case 'R':
		if len(b) != 4 {
			return false
		}
		code := vBE32(b, 0)
		return code == 0 || code == 3
	case 'S':
		i := vCString(b, 0)
		if i < 0 {
			return false
		}
		j := vCString(b, i)
		return j == len(b)
	case 'Z':
		return len(b) == 1 && (b[0] == 'I' || b[0] == 'T' || b[0] == 'E')
	case 'E', 'N':
		i := 0
		var seen [256]bool
		for {
			if i >= len(b) {
				return false // no terminator
			}
			code := b[i]
			if code == 0 {
				break
			}
			if seen[code] {
				return false // each field at most once
			}
			// only the field codes the protocol defines (a stray byte taken for a
			// code — e.g. behind a NUL inside a text — is a malformed message)
			known := false
			for _, k := range []byte("SVCMDHPpqWstcdnFLR") {
				if code == k {
					known = true
				}
			}
			if !known {
				return false
			}
			seen[code] = true
			j := vCString(b, i+1)
			if j < 0 {
				return false
			}
			i = j
		}
		if i != len(b)-1 {
			return false // bytes after the terminator
		}
		return seen['S'] && seen['C'] && seen['M']
	case 'T':
		if len(b) < 2 {
			return false
		}
		n := vBE16(b, 0)
		i := 2
		for k := 0; k < n; k++ {
			j := vCString(b, i)
			if j < 0 || j+18 > len(b) {
				return false
			}
			// the format code of a field is zero (text) or one (binary)
			if f := vBE16(b, j+16); f != 0 && f != 1 {
				return false
			}
			i = j + 18
		}
		return i == len(b)
	case 'D':
		if len(b) < 2 {
			return false
		}
		n := vBE16(b, 0)
		i := 2
		for k := 0; k < n; k++ {
			if i+4 > len(b) {
				return false
			}
			l := vBE32(b, i)
			i += 4
			if l == 0xFFFFFFFF {
				continue
			}
			if l >= 1<<31 || i+int(l) > len(b) {
				return false
			}
			i += int(l)
		}
		return i == len(b)
	case 'C':
		return vCString(b, 0) == len(b)
	case 'G':
		if len(b) < 3 {
			return false
		}
		n := vBE16(b, 1)
		if len(b) != 3+2*n || b[0] > 1 {
			return false
		}
		for k := 0; k < n; k++ {
			if f := vBE16(b, 3+2*k); f != 0 && f != 1 {
				return false
			}
		}
		return true
	case 't':
		if len(b) < 2 {
			return false
		}
		n := vBE16(b, 0)
		return len(b) == 2+4*n
	case 'v': // NegotiateProtocolVersion: int32 minor, int32 n, n names
		if len(b) < 8 {
			return false
		}
		n := int(vBE32(b, 4))
		i := 8
		for k := 0; k < n; k++ {
			j := vCString(b, i)
			if j < 0 {
				return false
			}
			i = j
		}
		return i == len(b)
	case '1', '2', '3', 'n', 'I', 's':
		return len(b) == 0
	}
	return false
}

// vWireOK: the whole capture is a concatenation of well-formed messages.
func vWireOK(out []byte) bool {
	msgs, ok := vFrames(out)
	if !ok {
		return false
	}
	for _, m := range msgs {
		if !vBodyOK(m) {
			return false
		}
	}
	return true
}

// vTypes returns the message type bytes of a capture, as a string.
func vTypes(out []byte) string {
	msgs, _ := vFrames(out)
	t := make([]byte, 0, len(msgs))
	for _, m := range msgs {
		t = append(t, m.typ)
	}
	return string(t)
}

// vErrField extracts one field of an ErrorResponse body ("" if absent).
func vErrField(body []byte, code byte) ([]byte, bool) {
	i := 0
	for i < len(body) && body[i] != 0 {
		c := body[i]
		j := vCString(body, i+1)
		if j < 0 {
			return nil, false
		}
		if c == code {
			return body[i+1 : j-1], true
		}
		i = j
	}
	return nil, false
}

func vCount(types string, t byte) int {
	n := 0
	for i := 0; i < len(types); i++ {
		if types[i] == t {
			n++
		}
	}
	return n
}

// ---------------------------------------------------------------------------
// Session construction: "drive the unit, not the program".
// ---------------------------------------------------------------------------

func vCtx(srv *Server) context.Context {
	ctx := context.Background()
	ctx = setTypeInfo(ctx, srv.types)
	ctx = setRemoteAddress(ctx, vAddr{})
	return ctx
}

// vSession builds what Server.serve builds once startup is over.
func vSession(srv *Server, conn *vConn) (*Session, *buffer.Reader, *buffer.Writer) {
	reader := buffer.NewReader(srv.logger, conn, srv.BufferedMsgSize)
	writer := buffer.NewWriter(srv.logger, conn)
	ses := &Session{Server: srv, Statements: srv.Statements(), Portals: srv.Portals()}
	return ses, reader, writer
}

// client message builders (concrete framing around symbolic bodies)
func vMsgBytes(t byte, body []byte) []byte {
	l := len(body) + 4
	out := make([]byte, 0, 5+len(body))
	out = append(out, t, byte(l>>24), byte(l>>16), byte(l>>8), byte(l))
	return append(out, body...)
}

func vCat(parts ...[]byte) []byte {
	var out []byte
	for _, p := range parts {
		out = append(out, p...)
	}
	return out
}

func vCStr(s []byte) []byte { return append(append([]byte{}, s...), 0) }
func vU16(v int) []byte     { return []byte{byte(v >> 8), byte(v)} }
func vU32(v uint32) []byte  { return []byte{byte(v >> 24), byte(v >> 16), byte(v >> 8), byte(v)} }

// vStartup builds a v3 startup packet with the given parameter area.
func vStartup(params []byte) []byte {
	l := 8 + len(params)
	out := []byte{byte(l >> 24), byte(l >> 16), byte(l >> 8), byte(l), 0, 3, 0, 0}
	return append(out, params...)
}

type vUnencodable struct{ x int }

package wire

import (
	"context"
	"fmt"
	"io"
	"net"

	"github.com/jackc/pgx/v5/pgtype"
	"github.com/lib/pq/oid"
)

func vTextColumns(n int) Columns {
	cols := make(Columns, n)
	for i := range cols {
		cols[i] = Column{Name: "c", Oid: oid.T_text}
	}
	return cols
}

// ---------------------------------------------------------------------------
// H13a — the COPY reader, step by step (C13): a stream of K client messages
// with symbolic type and body; each Read returns per the reference: CopyData
// -> nil with Msg = payload (byte-exact, in order), Flush/Sync skipped,
// CopyDone -> io.EOF, CopyFail or anything else -> non-nil, non-EOF.
// ---------------------------------------------------------------------------
func VerifH13a() {
	K := vParam("K", 2)
	N := vParam("N", 2)
	types := make([]byte, K)
	bodies := make([][]byte, K)
	var input []byte
	for i := 0; i < K; i++ {
		types[i] = nondetByte()
		bodies[i] = nondetBytes(vChoose(N + 1))
		input = append(input, vMsgBytes(types[i], bodies[i])...)
	}
	// the client always finishes with CopyDone, so a Read is due whatever
	// precedes it (e.g. nothing but Flush/Sync messages) - or the connection
	// breaks inside a last CopyData message, which is NOT an end of stream
	truncated := nondetBool()
	if truncated {
		full := vMsgBytes('d', nondetBytes(2+vChoose(2)))
		cut := 6 + vChoose(len(full)-6) // at least one body byte, never all of them
		types = append(types, 't')
		bodies = append(bodies, nil)
		input = append(input, full[:cut]...)
	} else {
		types = append(types, 'c')
		bodies = append(bodies, nil)
		input = append(input, vMsgBytes('c', nil)...)
	}
	K++
	w := vNewWorld(input, 64)
	cr := NewCopyReader(w.rd, w.wr, vTextColumns(1))
	idx := 0
	for call := 0; call < K; call++ {
		for idx < K && (types[idx] == 'H' || types[idx] == 'S') {
			idx++
			vReach("flush-or-sync-skipped")
		}
		if idx == K {
			break
		}
		before := len(w.conn.out)
		err := cr.Read()
		switch types[idx] {
		case 'd':
			vAssert("copydata-delivered", err == nil)
			vAssert("copydata-payload-exact", vEqBytes(cr.Msg, bodies[idx]))
			vAssert("copydata-no-output", len(w.conn.out) == before)
			if call > 0 {
				vReach("second-copydata")
			}
		case 't':
			vAssert("truncated-copydata-is-not-end-of-stream", err != nil && err != io.EOF)
			vReach("truncated-copydata")
			return
		case 'c':
			vAssert("copydone-is-eof", err == io.EOF)
			vAssert("copydone-no-output", len(w.conn.out) == before)
			vReach("copy-done")
		case 'f':
			vAssertK("copyfail-is-error", "KF-C13-1", true, err != nil && err != io.EOF)
			vAssertK("copyfail-reported-by-the-cycle-not-the-reader", "KF-C13-1", true, len(w.conn.out) == before)
			vReach("copy-fail")
			return
		default:
			vAssertK("foreign-message-is-error", "KF-C13-2", true, err != nil && err != io.EOF)
			vAssertK("foreign-message-reported-by-the-cycle-not-the-reader", "KF-C13-2", true, len(w.conn.out) == before)
			vReach("foreign-message")
			return
		}
		if err != nil {
			return
		}
		idx++
	}
}

// ---------------------------------------------------------------------------
// H13b — the COPY cycle (C13): a simple query whose statement starts COPY-in
// and reads until an error, then returns that error (or completes on EOF, or
// stops early / fails mid-stream by the solver's choice). Over the whole
// cycle: abort -> exactly one ErrorResponse and one ReadyForQuery; success ->
// CopyInResponse, CommandComplete, ReadyForQuery.
// ---------------------------------------------------------------------------
func VerifH13b() {
	K := vParam("K", 2)
	N := vParam("N", 1)
	nc := 1 + vChoose(2)
	format := FormatCode(vChoose(2))
	stopAfter := vChoose(K + 2) // handler stops reading after this many reads and fails (K+1: never)
	types := make([]byte, K)
	var input []byte
	input = append(input, vMsgBytes('Q', vCStr([]byte("c")))...)
	menu := []byte{'d', 'c', 'f', 'H', 'S', 'Q'}
	var payloads [][]byte
	for i := 0; i < K; i++ {
		types[i] = menu[vChoose(len(menu))]
		var b []byte
		switch types[i] {
		case 'd':
			b = nondetBytes(vChoose(N + 1))
		case 'Q':
			b = vCStr([]byte("r"))
		case 'f':
			// the reason, and possibly surplus bytes behind its terminator
			b = vCat(vCStr([]byte("r")), nondetBytes(vChoose(3)))
			if len(b) > 2 {
				vReach("copyfail-with-surplus-behind-the-reason")
			}
		}
		payloads = append(payloads, b)
		input = append(input, vMsgBytes(types[i], b)...)
	}
	var got [][]byte
	var readErr error
	reads := 0
	handlerErr := false
	// FAILKINDS=1: what a handler that gives up on the COPY returns is the
	// solver's choice: the error as it is, or its own account of it — a row that
	// ended short, an upstream that went away (errors that wrap io.EOF,
	// io.ErrUnexpectedEOF, net.ErrClosed). A failed COPY is reported either way.
	failKind := 0
	if vParam("FAILKINDS", 0) > 0 {
		failKind = vChoose(5)
	}
	stmt := func(ctx context.Context, dw DataWriter, params []Parameter) error {
		cr, err := dw.CopyIn(format)
		if err != nil {
			return err
		}
		for {
			if reads == stopAfter {
				handlerErr = true
				return vCopyFailure(failKind, errVerifExec)
			}
			reads++
			err := cr.Read()
			if err == io.EOF {
				return dw.Complete("COPY")
			}
			if err != nil {
				readErr = err
				return vCopyFailure(failKind, err)
			}
			got = append(got, append([]byte{}, cr.Msg...))
		}
	}
	parse := func(ctx context.Context, query string) (PreparedStatements, error) {
		return Prepared(NewStatement(stmt, WithColumns(vTextColumns(nc)))), nil
	}
	srv, err := NewServer(parse, MessageBufferSize(64))
	vAssert("newserver-ok", err == nil)
	w := &vWorld{srv: srv}
	w.conn = vNewConn(input)
	w.ses, w.rd, w.wr = vSession(srv, w.conn)
	w.ctx = vCtx(srv)
	out, stepErr := w.step()
	vAssert("connection-stays-up", stepErr == nil)

	// reference: walk the stream as the protocol says
	var want [][]byte
	outcome := 0 // 0 stream ended (transport EOF), 1 done, 2 aborted by client, 3 handler stopped
	consumed := 0
	r := 0
	streamEnded := false
	for outcome == 0 && !streamEnded {
		if r == stopAfter {
			outcome = 3
			break
		}
		r++ // one Read: skips Flush/Sync, then consumes one message
		for consumed < K && (types[consumed] == 'H' || types[consumed] == 'S') {
			consumed++
		}
		if consumed == K {
			streamEnded = true
			break
		}
		switch types[consumed] {
		case 'd':
			want = append(want, payloads[consumed])
		case 'c':
			outcome = 1
		default:
			outcome = 2
		}
		consumed++
	}
	if outcome == 0 {
		return // the client stream ended inside COPY: transport EOF, covered by C04
	}
	vAssert("wire-wellformed", vWireOK(w.conn.out))
	msgs, _ := vFrames(w.conn.out)
	vAssert("copy-in-response-first", len(msgs) >= 2 && msgs[0].typ == 'T' && msgs[1].typ == 'G')
	g := msgs[1].body
	vAssert("copy-in-response-format", g[0] == byte(format) && vBE16(g, 1) == nc)
	for c := 0; c < nc; c++ {
		vAssert("copy-in-response-column-format", vBE16(g, 3+2*c) == int(format))
	}
	vAssert("payloads-count", len(got) == len(want))
	for i := range want {
		if i < len(got) {
			vAssert("payloads-in-order-byte-exact", vEqBytes(got[i], want[i]))
		}
	}
	switch outcome {
	case 1:
		vAssert("success-cycle", out == "TGCZ")
		vReach("copy-completed")
	case 2:
		vAssertK("abort-surfaces-as-error", "KF-C13-1", true, readErr != nil)
		vAssertK("abort-exactly-one-E-one-Z", "KF-C13-1", true, out == "TGEZ")
		vReach("copy-aborted")
	case 3:
		vAssert("handler-failure-one-E-one-Z", out == "TGEZ" && handlerErr)
		vReach("handler-stopped")
	}
	// H13c: COPY messages left over after the cycle arrive outside COPY mode
	// and are ignored without reply
	for i := consumed; i < K; i++ {
		if types[i] == 'Q' {
			break // a further Query starts a new COPY cycle that consumes what follows
		}
		o, e := w.step()
		if types[i] == 'd' || types[i] == 'c' || types[i] == 'f' {
			vAssert("stray-copy-message-ignored", e == nil && o == "")
			vReach("stray-copy-message")
		}
		if types[i] == 'S' {
			vAssert("sync-after-cycle", e == nil && o == "Z")
		}
	}
}

func vCopyFailure(kind int, err error) error {
	switch kind {
	case 1:
		vReach("handler-reports-a-short-row")
		return fmt.Errorf("row ended short: %w", io.ErrUnexpectedEOF)
	case 2:
		return fmt.Errorf("copy target went away: %w", io.EOF)
	case 3:
		return fmt.Errorf("copy target went away: %w", net.ErrClosed)
	case 4:
		return io.ErrUnexpectedEOF
	}
	return err
}

// ---------------------------------------------------------------------------
// H14 — binary COPY rows decode to what was sent, however the stream is
// chunked (C14). The COPY stream = standard 19-byte header + R symbolic
// bytes (tuples, optional trailer), cut into CopyData messages at symbolic
// split points inside the tuple area; the reference decodes the UNSPLIT
// stream. Corrupt field counts and lengths are just other values of the
// same bytes.
// ---------------------------------------------------------------------------

var vCopyHeader = []byte("PGCOPY\n\377\r\n\000\000\000\000\000\000\000\000\000")

type vRow struct {
	null []bool
	val  [][]byte
}

// vRefCopy decodes the tuple area; returns rows, whether the stream ends
// cleanly (true) or with a bad/truncated row (false), and the tuple
// boundaries (offsets into data at which a tuple starts or the stream ends).
func vRefCopy(data []byte, nc int, width []int) (rows []vRow, clean bool, bounds []int) {
	i := 0
	for {
		bounds = append(bounds, i)
		if i == len(data) {
			// the stream ends at a tuple boundary without the trailer: the format
			// requires the trailer, so such streams are outside the claim
			vAssume(false)
		}
		if i+2 > len(data) {
			return rows, false, bounds
		}
		n := vBE16(data, i)
		i += 2
		if n == 0xFFFF {
			// end-of-data trailer; anything after it is outside the format
			vAssume(i == len(data))
			return rows, true, bounds
		}
		if n != nc {
			return rows, false, bounds
		}
		var row vRow
		for f := 0; f < nc; f++ {
			if i+4 > len(data) {
				return rows, false, bounds
			}
			l := vBE32(data, i)
			i += 4
			if l == 0xFFFFFFFF {
				row.null = append(row.null, true)
				row.val = append(row.val, nil)
				continue
			}
			if uint64(l) > uint64(len(data)-i) {
				return rows, false, bounds
			}
			if width != nil && width[f] > 0 && int(l) != width[f] {
				// a fixed-width value of any other length is a corrupt field
				return rows, false, bounds
			}
			row.null = append(row.null, false)
			row.val = append(row.val, data[i:i+int(l)])
			i += int(l)
		}
		rows = append(rows, row)
	}
}

func VerifH14() {
	R := vParam("R", 8)
	SPLITS := vParam("SPLITS", 1)
	nc := 1 + vChoose(vParam("COLS", 2))
	n := vChoose(R + 1)
	data := nondetBytes(n)
	// TYPES=1: every column's type is the solver's choice among text and the
	// fixed-width integers (binary int2/int4/int8 must be exactly 2/4/8 bytes)
	cols := vTextColumns(nc)
	width := make([]int, nc)
	if vParam("TYPES", 0) > 0 {
		for c := range cols {
			switch vChoose(4) {
			case 1:
				cols[c].Oid, width[c] = oid.T_int2, 2
			case 2:
				cols[c].Oid, width[c] = oid.T_int4, 4
			case 3:
				cols[c].Oid, width[c] = oid.T_int8, 8
			}
		}
	}
	rows, clean, bounds := vRefCopy(data, nc, width)

	// split points anywhere in the stream — inside the header too —,
	// non-decreasing: two equal cuts (or a cut at the very end) make an EMPTY
	// CopyData message, which is a legal split
	stream := vCat(vCopyHeader, data)
	var cuts []int
	last := len(vCopyHeader)
	if vParam("HEADERSPLIT", 0) > 0 {
		last = 1
	}
	emptyChunk := false
	for s := 0; s < SPLITS; s++ {
		if nondetBool() {
			c := last + vChoose(len(stream)-last+1)
			if (len(cuts) > 0 && c == last) || c == len(stream) {
				emptyChunk = true
			}
			cuts = append(cuts, c)
			last = c
		}
	}
	midTuple := false
	for _, c := range cuts {
		at := false
		for _, b := range bounds {
			if c-len(vCopyHeader) == b {
				at = true
			}
		}
		if !at {
			midTuple = true
		}
	}
	var input []byte
	prev := 0
	for _, c := range cuts {
		input = append(input, vMsgBytes('d', stream[prev:c])...)
		prev = c
	}
	input = append(input, vMsgBytes('d', stream[prev:])...)
	input = append(input, vMsgBytes('c', nil)...)
	// CUT=1: the connection may be lost inside the body of a CopyData message
	// that carries whole tuples (its header arrived, CUT bytes of its body are
	// missing): an error, and never a row made of bytes that were not sent
	if cutN := vParam("CUT", 0); cutN > 0 && len(cuts) == 0 && len(rows) >= 1 && clean && nondetBool() {
		whole := vMsgBytes('d', stream)
		input = whole[:len(whole)-cutN]
		if nondetBool() {
			// ... or the file header has arrived in a CopyData message of its own,
			// so that the message that is cut starts at a tuple boundary
			rest := vMsgBytes('d', stream[len(vCopyHeader):])
			input = vCat(vMsgBytes('d', vCopyHeader), rest[:len(rest)-cutN])
			vReach("cut-message-starts-at-a-tuple-boundary")
		}
		w := vNewWorld(input, 64)
		cr := NewCopyReader(w.rd, w.wr, cols)
		br, err := NewBinaryColumnReader(w.ctx, cr)
		vAssert("column-reader-ok", err == nil)
		row, rerr := br.Read(w.ctx)
		vAssert("a-copydata-message-cut-by-the-end-of-the-connection-yields-no-row", rerr != nil && rerr != io.EOF && row == nil)
		vReach("connection-lost-inside-a-copydata-body")
		return
	}

	w := vNewWorld(input, 64)
	cr := NewCopyReader(w.rd, w.wr, cols)
	br, err := NewBinaryColumnReader(w.ctx, cr)
	vAssert("column-reader-ok", err == nil)
	var got [][]any
	var endErr error
	for k := 0; k <= R; k++ {
		row, err := br.Read(w.ctx)
		if err != nil {
			endErr = err
			break
		}
		got = append(got, row)
	}
	vAssert("reader-terminates", endErr != nil)
	if midTuple {
		vReach("split-inside-tuple")
	}
	if midTuple && vKnownOpen("KF-C14-1") {
		// (while the finding was open: a tuple that spans two CopyData messages was not reassembled)
		vAssertK("split-independent", "KF-C14-1", true, len(got) == len(rows) && (endErr == io.EOF) == clean)
		return
	}
	vAssert("row-count", len(got) == len(rows))
	for r := range rows {
		if r >= len(got) {
			break
		}
		vAssert("row-arity", len(got[r]) == nc)
		for f := 0; f < nc; f++ {
			if rows[r].null[f] {
				vAssert("null-field-is-nil", got[r][f] == nil)
				vReach("null-field")
			} else {
				v := rows[r].val[f]
				switch width[f] {
				case 0:
					s, isStr := got[r][f].(string)
					vAssert("field-decoded", isStr)
					vAssert("field-value", vEqStr(s, string(v)))
				case 2:
					x, is := got[r][f].(int16)
					vAssert("int2-field-decoded", is && x == int16(uint16(v[0])<<8|uint16(v[1])))
					vReach("integer-field")
				case 4:
					x, is := got[r][f].(int32)
					vAssert("int4-field-decoded", is && x == int32(vBE32(v, 0)))
					vReach("integer-field")
				case 8:
					x, is := got[r][f].(int64)
					vAssert("int8-field-decoded", is && x == int64(uint64(vBE32(v, 0))<<32|uint64(vBE32(v, 4))))
					vReach("integer-field")
				}
			}
		}
	}
	if clean {
		vAssert("clean-end-is-EOF", endErr == io.EOF)
	} else {
		vAssert("bad-row-is-error-not-EOF", endErr != io.EOF)
		vReach("bad-row")
	}
	if len(rows) >= 1 && clean {
		vReach("row-decoded")
	}
	if len(cuts) > 0 && !midTuple && len(rows) >= 1 {
		vReach("split-at-boundary")
	}
	if emptyChunk && !midTuple {
		vReach("empty-chunk")
	}
	if n >= 2 && data[n-2] == 0xFF && data[n-1] == 0xFF && clean {
		vReach("trailer")
	}
}

// ---------------------------------------------------------------------------
// H14r — the rows the reader hands out are the handler's to keep (C14): three
// tuples (one text column, the middle one NULL or a value — the solver's
// choice — the others one symbolic byte each) in one CopyData message; the
// handler keeps every row it gets and looks at them only after the last Read.
// Each kept row still is the row that was decoded for it.
// ---------------------------------------------------------------------------
func VerifH14r() {
	v0, v1, v2 := nondetBytes(1), nondetBytes(1), nondetBytes(1)
	midNull := nondetBool()
	stream := vCat(vCopyHeader, vU16(1), vU32(1), v0)
	if midNull {
		stream = vCat(stream, vU16(1), []byte{0xff, 0xff, 0xff, 0xff})
	} else {
		stream = vCat(stream, vU16(1), vU32(1), v1)
	}
	stream = vCat(stream, vU16(1), vU32(1), v2, []byte{0xff, 0xff})
	input := vCat(vMsgBytes('d', stream), vMsgBytes('c', nil))
	w := vNewWorld(input, 128)
	cr := NewCopyReader(w.rd, w.wr, vTextColumns(1))
	br, err := NewBinaryColumnReader(w.ctx, cr)
	vAssert("column-reader-ok", err == nil)
	var kept [][]any
	var endErr error
	for k := 0; k < 5; k++ {
		row, err := br.Read(w.ctx)
		if err != nil {
			endErr = err
			break
		}
		kept = append(kept, row)
	}
	vAssert("three-rows-then-end-of-stream", len(kept) == 3 && endErr == io.EOF)
	if len(kept) != 3 {
		return
	}
	is := func(row []any, want []byte) bool {
		s, ok := row[0].(string)
		return len(row) == 1 && ok && vEqStr(s, string(want))
	}
	vAssert("first-kept-row-is-the-first-tuple", is(kept[0], v0))
	if midNull {
		vAssert("second-kept-row-is-the-null-tuple", len(kept[1]) == 1 && kept[1][0] == nil)
		vReach("a-null-between-two-values")
	} else {
		vAssert("second-kept-row-is-the-second-tuple", is(kept[1], v1))
	}
	vAssert("third-kept-row-is-the-third-tuple", is(kept[2], v2))
	vReach("rows-kept-until-the-end-of-the-stream")
}

// ---------------------------------------------------------------------------
// H14t — binary COPY values are decoded per THIS connection's type map (C14,
// C15): two connections on one server, each of which registers a type of its
// own under the same object id on the map it was handed (the first a text-like
// type, the second a bytea-like one), run a binary COPY of one column of that
// type, one after the other. Each handler gets the value decoded by its own
// connection's codec: a string on the first, bytes on the second.
// ---------------------------------------------------------------------------
func VerifH14t() {
	const custom = 100001
	val := nondetBytes(1)
	mw := SessionMiddleware(func(ctx context.Context) (context.Context, error) {
		if RemoteAddress(ctx).(vAddr).id == 0 {
			TypeMap(ctx).RegisterType(&pgtype.Type{Name: "tenant_type", OID: custom, Codec: pgtype.TextCodec{}})
		} else {
			TypeMap(ctx).RegisterType(&pgtype.Type{Name: "tenant_type", OID: custom, Codec: pgtype.ByteaCodec{}})
		}
		return ctx, nil
	})
	var got [2]any
	var errs [2]error
	stmt := func(ctx context.Context, dw DataWriter, params []Parameter) error {
		id := RemoteAddress(ctx).(vAddr).id
		cr, err := dw.CopyIn(BinaryFormat)
		if err != nil {
			return err
		}
		br, err := NewBinaryColumnReader(ctx, cr)
		if err != nil {
			errs[id] = err
			return err
		}
		row, err := br.Read(ctx)
		if err != nil {
			errs[id] = err
			return err
		}
		got[id] = row[0]
		if _, err := br.Read(ctx); err != io.EOF {
			errs[id] = err
			return err
		}
		return dw.Complete("COPY 1")
	}
	parse := func(ctx context.Context, query string) (PreparedStatements, error) {
		return Prepared(NewStatement(stmt, WithColumns(Columns{{Name: "c", Oid: custom}}))), nil
	}
	srv, err := NewServer(parse, MessageBufferSize(128), mw)
	vAssert("newserver-ok", err == nil)
	stream := vCat(vCopyHeader, vU16(1), vU32(1), val, []byte{0xff, 0xff})
	traffic := vCat(vStartup(vKV([]byte("user"), []byte("u"))), vMsgBytes('Q', vCStr([]byte("copy"))), vMsgBytes('d', stream), vMsgBytes('c', nil), vMsgBytes('X', nil))
	c1, c2 := vNewConn(traffic), vNewConn(traffic)
	c2.id = 1
	srv.serve(context.Background(), c1) //nolint
	srv.serve(context.Background(), c2) //nolint
	vAssert("both-copies-completed", errs[0] == nil && errs[1] == nil && vCount(vTypes(c1.out), 'C') == 1 && vCount(vTypes(c2.out), 'C') == 1)
	s1, isStr := got[0].(string)
	vAssert("first-connection-value-decoded-by-its-own-codec", isStr && vEqStr(s1, string(val)))
	b2, isBytes := got[1].([]byte)
	vAssert("second-connection-value-decoded-by-its-own-codec", isBytes && vEqBytes(b2, val))
	vReach("same-object-id-registered-differently-on-two-connections")
}

// ---------------------------------------------------------------------------
// H13t — a handler may copy in more than once (C13): one statement starts
// COPY-in, reads to the end of the stream (CopyDone), starts COPY-in AGAIN on
// the same writer (same or another format — the solver's choice) and reads
// that stream too. Each start is announced by its own CopyInResponse, each
// stream's payloads arrive in order, the cycle ends with one CommandComplete
// and one ReadyForQuery.
// ---------------------------------------------------------------------------
func VerifH13t() {
	f1, f2 := FormatCode(vChoose(2)), FormatCode(vChoose(2))
	p1, p2 := nondetBytes(1), nondetBytes(1)
	var got [][]byte
	starts := 0
	stmt := func(ctx context.Context, dw DataWriter, params []Parameter) error {
		for _, f := range []FormatCode{f1, f2} {
			cr, err := dw.CopyIn(f)
			if err != nil {
				return err
			}
			starts++
			for k := 0; k < 3; k++ {
				err := cr.Read()
				if err == io.EOF {
					break
				}
				if err != nil {
					return err
				}
				got = append(got, append([]byte{}, cr.Msg...))
			}
		}
		return dw.Complete("COPY 2")
	}
	parse := func(ctx context.Context, query string) (PreparedStatements, error) {
		return Prepared(NewStatement(stmt, WithColumns(vTextColumns(1)))), nil
	}
	input := vCat(vMsgBytes('Q', vCStr([]byte("c"))),
		vMsgBytes('d', p1), vMsgBytes('c', nil),
		vMsgBytes('d', p2), vMsgBytes('c', nil))
	srv, err := NewServer(parse, MessageBufferSize(64))
	vAssert("newserver-ok", err == nil)
	w := &vWorld{srv: srv}
	w.conn = vNewConn(input)
	w.conn.silent = "second-copy-in-is-announced-before-its-data-is-awaited"
	w.ses, w.rd, w.wr = vSession(srv, w.conn)
	w.ctx = vCtx(srv)
	out, stepErr := w.step()
	vAssert("connection-stays-up", stepErr == nil)
	vAssert("wire-wellformed", vWireOK(w.conn.out))
	vAssert("both-copies-started", starts == 2)
	vAssert("each-copy-in-announced-by-its-own-CopyInResponse", out == "TGGCZ")
	msgs, _ := vFrames(w.conn.out)
	if len(msgs) == 5 {
		vAssert("copy-in-responses-announce-the-requested-formats", msgs[1].body[0] == byte(f1) && msgs[2].body[0] == byte(f2))
	}
	vAssert("payloads-of-both-streams-in-order", len(got) == 2 && vEqBytes(got[0], p1) && vEqBytes(got[1], p2))
	if f1 == f2 {
		vReach("copy-in-twice-with-the-same-format")
	}
}

// ---------------------------------------------------------------------------
// H14q — the binary COPY stream starts with the first CopyData message (C14,
// C03): the Query (or Execute) message that starts the COPY carries surplus
// bytes after its last field — legal, and ignored everywhere else. They belong
// to that message: the row reader decodes exactly the tuple the client encoded
// in its CopyData, whatever the surplus is.
// ---------------------------------------------------------------------------
func VerifH14q() {
	surplus := nondetBytes(vChoose(vParam("S", 3) + 1))
	viaExecute := nondetBool()
	val := nondetBytes(1)
	if nondetBool() {
		// ... or the surplus is shaped like the start of a binary COPY stream of
		// its own: signature, header, one tuple with a value the client chose
		surplus = vCat(vCopyHeader, []byte{0, 1, 0, 0, 0, 1}, nondetBytes(1))
		vReach("surplus-shaped-like-a-copy-stream")
	}
	stream := vCat(vCopyHeader, []byte{0, 1, 0, 0, 0, 1}, val, []byte{0xff, 0xff})
	var rows [][]any
	var endErr error
	stmt := func(ctx context.Context, dw DataWriter, params []Parameter) error {
		cr, err := dw.CopyIn(BinaryFormat)
		if err != nil {
			return err
		}
		br, err := NewBinaryColumnReader(ctx, cr)
		if err != nil {
			return err
		}
		for k := 0; k < 3; k++ {
			row, err := br.Read(ctx)
			if err != nil {
				endErr = err
				break
			}
			rows = append(rows, row)
		}
		if endErr == io.EOF {
			return dw.Complete("COPY 1")
		}
		return endErr
	}
	parse := func(ctx context.Context, query string) (PreparedStatements, error) {
		return Prepared(NewStatement(stmt, WithColumns(vTextColumns(1)))), nil
	}
	var input []byte
	steps := 1
	if viaExecute {
		input = vCat(vMsgBytes('P', vCat(vCStr(nil), vCStr([]byte("c")), vU16(0))),
			vMsgBytes('B', vBindBody(nil, nil, nil)),
			vMsgBytes('E', vCat(vCStr(nil), vU32(0), surplus)))
		steps = 3
	} else {
		input = vMsgBytes('Q', vCat(vCStr([]byte("c")), surplus))
	}
	input = vCat(input, vMsgBytes('d', stream), vMsgBytes('c', nil))
	srv, err := NewServer(parse, MessageBufferSize(64))
	vAssert("newserver-ok", err == nil)
	w := &vWorld{srv: srv}
	w.conn = vNewConn(input)
	w.ses, w.rd, w.wr = vSession(srv, w.conn)
	w.ctx = vCtx(srv)
	for i := 0; i < steps; i++ {
		_, e := w.step()
		vAssert("connection-stays-up", e == nil)
	}
	vAssert("wire-wellformed", vWireOK(w.conn.out))
	vAssert("the-row-the-client-encoded", len(rows) == 1 && len(rows[0]) == 1)
	if len(rows) == 1 && len(rows[0]) == 1 {
		sv, isStr := rows[0][0].(string)
		vAssert("the-value-the-client-encoded", isStr && vEqStr(sv, string(val)))
	}
	vAssert("stream-ends-cleanly", endErr == io.EOF)
	vAssert("copy-completed", vCount(vTypes(w.conn.out), 'C') == 1 && vCount(vTypes(w.conn.out), 'E') == 0)
	if len(surplus) > 0 {
		vReach("surplus-after-the-last-field-of-the-starting-message")
	}
	if viaExecute {
		vReach("copy-started-by-execute")
	}
}

// ---------------------------------------------------------------------------
// H13e — COPY-in started through the extended protocol (C13): Parse, Bind with
// any admissible result-format codes (none, one, one per column; text or
// binary), Execute, then CopyData messages, CopyDone or CopyFail, and Sync.
// The CopyInResponse announces the format the handler requested, overall and
// for each declared column, whatever result formats the Bind carried; payloads
// arrive in order; the cycle ends with one CommandComplete or one ErrorResponse
// and one ReadyForQuery for the Sync.
// ---------------------------------------------------------------------------
func VerifH13e() {
	nc := 1 + vChoose(2)
	format := FormatCode(vChoose(2))
	rf := vFormats(nc)
	K := vChoose(vParam("K", 2) + 1)
	fail := nondetBool()
	var payloads [][]byte
	var got [][]byte
	var readErr error
	failKind := 0
	if vParam("FAILKINDS", 0) > 0 {
		failKind = vChoose(5)
	}
	stmt := func(ctx context.Context, dw DataWriter, params []Parameter) error {
		cr, err := dw.CopyIn(format)
		if err != nil {
			return err
		}
		for k := 0; k < 6; k++ {
			err := cr.Read()
			if err == io.EOF {
				return dw.Complete("COPY")
			}
			if err != nil {
				readErr = err
				return vCopyFailure(failKind, err)
			}
			got = append(got, append([]byte{}, cr.Msg...))
		}
		return errVerifExec
	}
	parse := func(ctx context.Context, query string) (PreparedStatements, error) {
		return Prepared(NewStatement(stmt, WithColumns(vTextColumns(nc)))), nil
	}
	input := vCat(vMsgBytes('P', vCat(vCStr(nil), vCStr([]byte("c")), vU16(0))),
		vMsgBytes('B', vBindBody(nil, nil, rf)),
		vMsgBytes('E', vCat(vCStr(nil), vU32(0))))
	for i := 0; i < K; i++ {
		b := nondetBytes(vChoose(2))
		payloads = append(payloads, b)
		input = vCat(input, vMsgBytes('d', b))
	}
	if fail {
		input = vCat(input, vMsgBytes('f', vCStr([]byte("r"))))
	} else {
		input = vCat(input, vMsgBytes('c', nil))
	}
	input = vCat(input, vMsgBytes('S', nil))
	srv, err := NewServer(parse, MessageBufferSize(64))
	vAssert("newserver-ok", err == nil)
	w := &vWorld{srv: srv}
	w.conn = vNewConn(input)
	w.ses, w.rd, w.wr = vSession(srv, w.conn)
	w.ctx = vCtx(srv)
	for k := 0; k < 4; k++ {
		_, serr := w.step()
		vAssert("connection-stays-up", serr == nil)
	}
	vAssert("wire-wellformed", vWireOK(w.conn.out))
	msgs, _ := vFrames(w.conn.out)
	types := vTypes(w.conn.out)
	var g []byte
	for _, m := range msgs {
		if m.typ == 'G' {
			g = m.body
		}
	}
	vAssert("extended-copy-in-response-sent", vCount(types, 'G') == 1 && len(g) == 3+2*nc)
	vAssert("extended-copy-in-response-format", g[0] == byte(format) && vBE16(g, 1) == nc)
	for c := 0; c < nc; c++ {
		vAssert("extended-copy-in-response-column-format", vBE16(g, 3+2*c) == int(format))
	}
	differs := false
	for c := 0; c < nc && len(rf) > 0; c++ {
		if vFormatFor(rf, c) != format {
			differs = true
		}
	}
	if differs {
		vReach("bind-result-formats-differ-from-the-copy-format")
	}
	vAssert("extended-payloads-count", len(got) == K)
	for i := 0; i < K && i < len(got); i++ {
		vAssert("extended-payloads-in-order-byte-exact", vEqBytes(got[i], payloads[i]))
	}
	if fail {
		vAssert("extended-abort-surfaces-as-error", readErr != nil && readErr != io.EOF)
		vAssert("extended-abort-one-E-one-Z", types == "12GEZ")
		vReach("extended-copy-aborted")
	} else {
		vAssert("extended-success-cycle", types == "12GCZ")
		vReach("extended-copy-completed")
	}
}

// ---------------------------------------------------------------------------
// H13d — how a binary COPY ends is decided by the client's protocol message,
// not by the data (C13/C14): a handler reads rows through the library's
// binary row reader; the client sends the header, TUPLES one-column tuples and
// — or not — the end-of-data trailer, in one CopyData, then ends the COPY
// with CopyDone, CopyFail (symbolic, possibly empty, description) or a
// non-COPY message. CopyFail / non-COPY message: the handler sees a non-nil,
// non-EOF error and the cycle is exactly one ErrorResponse and one
// ReadyForQuery; CopyDone after the trailer: end-of-stream and CommandComplete.
// ---------------------------------------------------------------------------
func VerifH13d() {
	tuples := vChoose(vParam("TUPLES", 2) + 1)
	trailer := nondetBool()
	end := vChoose(3) // 0 CopyDone, 1 CopyFail, 2 a non-COPY message (Query)
	stream := append([]byte{}, vCopyHeader...)
	vals := make([][]byte, tuples)
	for t := 0; t < tuples; t++ {
		vals[t] = nondetBytes(vChoose(2))
		stream = vCat(stream, vU16(1), vU32(uint32(len(vals[t]))), vals[t])
	}
	if trailer {
		stream = append(stream, 0xFF, 0xFF)
	}
	input := vCat(vMsgBytes('Q', vCStr([]byte("copy"))), vMsgBytes('d', stream))
	if tuples == 0 && !trailer && nondetBool() {
		// the client sends no CopyData at all: the message that ends the COPY is
		// the first one the reader sees
		input = vMsgBytes('Q', vCStr([]byte("copy")))
		vReach("copy-ended-before-any-copydata")
	}
	// the body of a non-COPY message is that message's business: it may well
	// look like a tuple of the stream (it is never decoded as one)
	foreign := vCStr([]byte("x"))
	if end == 2 && nondetBool() {
		foreign = vCat(vU16(1), vU32(1), []byte{'z', 0})
	}
	switch end {
	case 0:
		input = vCat(input, vMsgBytes('c', nil))
	case 1:
		desc := nondetBytes(vChoose(3))
		vAssume(vNoNUL(desc))
		input = vCat(input, vMsgBytes('f', vCStr(desc)))
	default:
		input = vCat(input, vMsgBytes('Q', foreign))
	}
	var rows [][]any
	var endErr error
	stmt := func(ctx context.Context, dw DataWriter, params []Parameter) error {
		cr, err := dw.CopyIn(BinaryFormat)
		if err != nil {
			return err
		}
		br, err := NewBinaryColumnReader(ctx, cr)
		if err != nil {
			return err
		}
		for k := 0; k < 4; k++ {
			row, err := br.Read(ctx)
			if err != nil {
				endErr = err
				break
			}
			rows = append(rows, row)
		}
		if endErr == io.EOF {
			return dw.Complete("COPY")
		}
		return endErr
	}
	parse := func(ctx context.Context, query string) (PreparedStatements, error) {
		return Prepared(NewStatement(stmt, WithColumns(vTextColumns(1)))), nil
	}
	srv, err := NewServer(parse, MessageBufferSize(128))
	vAssert("newserver-ok", err == nil)
	w := &vWorld{srv: srv}
	w.conn = vNewConn(input)
	w.ses, w.rd, w.wr = vSession(srv, w.conn)
	w.ctx = vCtx(srv)
	out, stepErr := w.step()
	vAssert("connection-stays-up", stepErr == nil)
	vAssert("wire-wellformed", vWireOK(w.conn.out))
	vAssert("reader-ended", endErr != nil)
	vAssert("rows-read-before-the-end", len(rows) == tuples)
	for t := 0; t < tuples && t < len(rows); t++ {
		s, isStr := rows[t][0].(string)
		vAssert("row-value", isStr && vEqStr(s, string(vals[t])))
	}
	switch {
	case end == 0 && trailer:
		vAssert("copydone-after-trailer-is-end-of-stream", endErr == io.EOF)
		vAssert("success-cycle", out == "TGCZ")
		vReach("completed")
	case end == 0 && !trailer:
		// a stream that ends without the trailer is outside the format (H14)
	case end == 1:
		vAssert("copyfail-is-a-non-EOF-error", endErr != io.EOF)
		vAssert("abort-exactly-one-E-one-Z", out == "TGEZ")
		if trailer {
			vReach("copyfail-after-trailer")
		}
	default:
		vAssert("non-copy-message-is-a-non-EOF-error", endErr != io.EOF)
		vAssert("abort-exactly-one-E-one-Z", out == "TGEZ")
	}
}

// ---------------------------------------------------------------------------
// H14v — values up to the message limit (C14, C10): with a limit of 64 bytes,
// one text field whose value is 57..66 bytes long (its last byte symbolic),
// the stream cut into CopyData messages of at most 60 payload bytes, so that the
// tuple spans two or three messages. A value of at most 64 bytes is decoded to
// exactly the bytes sent and the stream ends cleanly; a longer one is an error
// or that same value — never another row.
// ---------------------------------------------------------------------------
func VerifH14v() {
	n := 57 + vChoose(10)
	val := make([]byte, n)
	for i := range val {
		val[i] = byte('a' + i%26)
	}
	val[n-1] = nondetByte()
	stream := vCat(vCopyHeader, []byte{0, 1}, vU32(uint32(n)), val, []byte{0xff, 0xff})
	chunk := 40 + vChoose(21) // 40..60
	var input []byte
	for i := 0; i < len(stream); i += chunk {
		j := i + chunk
		if j > len(stream) {
			j = len(stream)
		}
		input = append(input, vMsgBytes('d', stream[i:j])...)
	}
	input = append(input, vMsgBytes('c', nil)...)
	w := vNewWorld(input, 64)
	cr := NewCopyReader(w.rd, w.wr, vTextColumns(1))
	br, err := NewBinaryColumnReader(w.ctx, cr)
	vAssert("column-reader-ok", err == nil)
	row, rerr := br.Read(w.ctx)
	if n <= 64 {
		vAssert("a-value-up-to-the-limit-is-decoded", rerr == nil && len(row) == 1)
		if rerr == nil && len(row) == 1 {
			sv, isStr := row[0].(string)
			vAssert("the-value-the-client-encoded", isStr && vEqStr(sv, string(val)))
		}
		_, end := br.Read(w.ctx)
		vAssert("stream-ends-cleanly", end == io.EOF)
		if n == 64 {
			vReach("value-exactly-at-the-limit")
		}
	} else {
		if rerr == nil {
			sv, isStr := row[0].(string)
			vAssert("never-another-row", len(row) == 1 && isStr && vEqStr(sv, string(val)))
		}
		vReach("value-above-the-limit")
	}
}

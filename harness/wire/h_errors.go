package wire

import (
	"context"
	"errors"
	"fmt"
	"io"
	"log/slog"
	"net"

	"github.com/jeroenrinzema/psql-wire/codes"
	psqlerr "github.com/jeroenrinzema/psql-wire/errors"
	"github.com/jeroenrinzema/psql-wire/pkg/buffer"
)

// vSymText0 is vSymText that may also be empty (an explicitly empty
// decoration: the outermost value is "", so the field must be absent).
func vSymText0(max int) []byte {
	b := nondetBytes(vChoose(max + 1))
	vAssume(vNoNUL(b))
	if len(b) == 0 {
		return []byte{}
	}
	return b
}

// vSymTextL: a decoration payload that, with LONG > 0, may also be long —
// LONG concrete bytes followed by one symbolic byte — so that any length
// threshold below LONG+1 (identifier limits, 255/256, ...) is crossed.
func vSymTextL(max int, allowEmpty bool) []byte {
	long := vParam("LONG", 0)
	if long > 0 && nondetBool() {
		b := make([]byte, long+1)
		for i := range b {
			b[i] = 'x'
		}
		b[long] = nondetByte()
		vAssume(b[long] != 0)
		vReach("long-payload")
		return b
	}
	if allowEmpty {
		return vSymText0(max)
	}
	return vSymText(max)
}

func vSymText(max int) []byte {
	b := nondetBytes(1 + vChoose(max))
	vAssume(vNoNUL(b))
	return b
}

// ---------------------------------------------------------------------------
// H17 — error decorations reach the client field for field (C17), and the
// ErrorResponse is well-formed (C02).
//
// The error value is built by a symbolic generator: a base error with a
// symbolic text, then D layers each chosen by the solver from {none, code,
// severity, hint, detail, source, constraint, fmt-wrap} with symbolic
// payloads. The reference walks the same choices, outermost wins. The
// emitted ErrorResponse is parsed by the strict grammar and compared.
// ---------------------------------------------------------------------------
func VerifH17() {
	D := vParam("D", 2)
	conn := vNewConn(nil)
	w := buffer.NewWriter(slog.Default(), conn)

	msg := vSymTextL(2, true) // the base error's text may be empty: the M field is still mandatory
	err := errors.New(string(msg))
	// BASES=1: the base may also be one of the standard library's sentinels a
	// handler's own work can end with (its own deadline, its own upstream): the
	// decorations it put on top reach the client all the same
	if vParam("BASES", 0) == 1 {
		switch vChoose(7) {
		case 6:
			// an error relayed from an upstream database driver: it has methods of
			// its own (SQLState, Severity, ...) that are not this package's decorators
			err = vUpstreamErr{}
		case 1:
			err = context.Canceled
		case 2:
			err = context.DeadlineExceeded
		case 3:
			err = io.EOF
		case 4:
			err = io.ErrUnexpectedEOF
		case 5:
			err = net.ErrClosed
		}
		if b := err.Error(); b != string(msg) {
			msg = []byte(b)
			vReach("sentinel-base")
		}
	}
	var sev, code, hint, detail, constraint, file, fn, line []byte
	hasSrc := false
	for i := 0; i < D; i++ {
		layer := vChoose(8)
		if vParam("APPERR", 0) == 1 {
			// (a smaller menu in this configuration: the application's own error
			// type, a source location, a code)
			layer = []int{8, 5, 1}[vChoose(3)]
		}
		switch layer {
		case 8:
			// the handler's own error type around what it has so far: it unwraps
			// to its cause and calls any error of its own type "the same" (Is)
			err = &vAppErr{cause: err}
			msg = append([]byte("app: "), msg...)
			vReach("application-error-layer")
		case 0:
		case 1:
			if vParam("APPERR", 0) == 1 {
				code = []byte(codes.Syntax)
				err = psqlerr.WithCode(err, codes.Syntax)
				break
			}
			// an arbitrary code, or one of the package's own constants (the
			// uncategorised default and an XX-class code are special-cased by the code)
			switch vChoose(4) {
			case 0:
				code = vSymText(2)
			case 1:
				code = []byte(codes.Uncategorized)
			case 2:
				code = []byte(codes.Internal)
			default:
				code = []byte(codes.Syntax)
			}
			err = psqlerr.WithCode(err, codes.Code(string(code)))
		case 2:
			// an arbitrary severity, or the package's constants (ERROR is the default)
			switch vChoose(3) {
			case 0:
				sev = vSymText(2)
			case 1:
				sev = []byte(psqlerr.LevelError)
			default:
				sev = []byte(psqlerr.LevelFatal)
			}
			err = psqlerr.WithSeverity(err, psqlerr.Severity(string(sev)))
		case 3:
			hint = vSymTextL(2, true)
			err = psqlerr.WithHint(err, string(hint))
		case 4:
			detail = vSymTextL(2, true)
			err = psqlerr.WithDetail(err, string(detail))
		case 5:
			if vParam("APPERR", 0) == 1 {
				// (concrete payloads in this configuration)
				file, fn, line = []byte("f.go"), []byte("fn"), []byte("7")
				hasSrc = true
				err = psqlerr.WithSource(err, "f.go", 7, "fn")
				break
			}
			file = vSymTextL(1, true) // a source location may name no file or no function:
			fn = vSymTextL(1, true)   // it was set all the same, so F, L and R are all sent
			nd := 1 + vChoose(3)
			line = nondetBytes(nd)
			ln := int32(0)
			for k := 0; k < nd; k++ {
				vAssume(vAnd(line[k] >= '0', line[k] <= '9'))
				ln = ln*10 + int32(line[k]-'0')
			}
			vAssume(vOr(nd == 1, line[0] != '0'))
			if vParam("LONG", 0) > 0 && nondetBool() {
				line, ln = []byte("2147483647"), 2147483647 // the largest line number
			}
			hasSrc = true
			err = psqlerr.WithSource(err, string(file), ln, string(fn))
		case 6:
			constraint = vSymTextL(2, true)
			err = psqlerr.WithConstraintName(err, string(constraint))
		case 7:
			err = fmt.Errorf("w: %w", err)
			msg = append([]byte("w: "), msg...)
		}
	}

	// VIA: 0 the error is handed to ErrorCode directly; 1 it is what a statement
	// function returns inside a simple query; 2 inside Execute (extended query);
	// 3 what the ParseFn returns: the ErrorResponse the client gets is the same
	out := conn.out
	via := vParam("VIA", 0)
	if via > 0 {
		via = 1 + vChoose(3)
		out = vErrorThroughSession(via, err)
		vReach("error-returned-by-a-callback")
	} else {
		ErrorCode(w, err) //nolint
		out = conn.out
	}

	all, ok := vFrames(out)
	vAssert("frames", ok)
	var msgs []vMsg
	for _, f := range all {
		if f.typ == 'E' {
			msgs = append(msgs, f)
		}
	}
	vAssert("at-least-one-message", len(msgs) >= 1)
	vAssert("exactly-one-ErrorResponse", len(msgs) == 1)
	m := msgs[0]
	vAssert("first-is-ErrorResponse", m.typ == 'E')
	vAssertK("error-body-wellformed", "KF-C02-1", hasSrc, vBodyOK(m))

	expect := func(label string, fcode byte, want []byte, dflt string) {
		got, present := vErrField(m.body, fcode)
		if len(want) == 0 && dflt == "" {
			vAssert(label+"-absent", !present)
			return
		}
		if len(want) == 0 {
			want = []byte(dflt)
		}
		vAssert(label+"-present", present)
		vAssert(label+"-value", vEqBytes(got, want))
	}
	if hasSrc && vKnownOpen("KF-C02-1") {
		// the line field corrupts the field list on this tree (known finding):
		// nothing after it can be located reliably
		vReach("source-decorated")
		return
	}
	expect("severity", 'S', sev, "ERROR")
	expect("sqlstate", 'C', code, string(codes.Uncategorized))
	always := func(label string, fcode byte, want []byte) {
		got, present := vErrField(m.body, fcode)
		vAssert(label+"-present", present)
		vAssert(label+"-value", vEqBytes(got, want))
	}
	always("message", 'M', msg)
	if len(msg) == 0 {
		vReach("empty-message")
	}
	expect("hint", 'H', hint, "")
	expect("detail", 'D', detail, "")
	if hasSrc {
		always("file", 'F', file)
		always("line", 'L', line)
		always("function", 'R', fn)
	} else {
		expect("file", 'F', nil, "")
		expect("line", 'L', nil, "")
		expect("function", 'R', nil, "")
	}
	vAssertKexpect("constraint", m.body, 'n', constraint)
	if hasSrc {
		vReach("source-decorated")
	}
	if len(hint) > 0 && len(detail) > 0 {
		vReach("hint-and-detail")
	}
	if len(constraint) > 0 {
		vReach("constraint")
	}
}

// vAppErr is an application's own error type: it wraps a cause, and its Is
// method matches every error of the same type (errors of one "kind").
type vAppErr struct{ cause error }

func (e *vAppErr) Error() string { return "app: " + e.cause.Error() }
func (e *vAppErr) Unwrap() error { return e.cause }
func (e *vAppErr) Is(target error) bool {
	_, same := target.(*vAppErr)
	return same
}

// vUpstreamErr looks like the error type of a database driver (pgconn.PgError,
// pq.Error): it carries an SQLSTATE and a severity of its own behind methods.
// Only this package's decorators decide what the client is told.
type vUpstreamErr struct{}

func (vUpstreamErr) Error() string    { return "upstream: duplicate key" }
func (vUpstreamErr) SQLState() string { return "23505" }
func (vUpstreamErr) Severity() string { return "FATAL" }
func (vUpstreamErr) Code() string     { return "23505" }
func (vUpstreamErr) Hint() string     { return "upstream hint" }

// vErrorThroughSession serves one client cycle whose callback fails with err
// and returns everything the server wrote.
func vErrorThroughSession(via int, err error) []byte {
	// the statement function may have tried to write a row that was rejected (a
	// value no codec accepts) before it gives up with the error: what it
	// abandoned takes nothing away from the ErrorResponse
	afterRow := via != 3 && nondetBool()
	stmt := func(ctx context.Context, dw DataWriter, params []Parameter) error {
		if afterRow {
			dw.Row([]any{"v", vUnencodable{1}}) //nolint
			vReach("error-returned-after-a-rejected-row")
		}
		return err
	}
	parse := func(ctx context.Context, query string) (PreparedStatements, error) {
		if via == 3 {
			return nil, err
		}
		if afterRow {
			return Prepared(NewStatement(stmt, WithColumns(vTextColumns(2)))), nil
		}
		return Prepared(NewStatement(stmt)), nil
	}
	var input []byte
	steps := 1
	if via == 2 {
		input = vCat(vMsgBytes('P', vCat(vCStr(nil), vCStr([]byte("q")), vU16(0))),
			vMsgBytes('B', vBindBody(nil, nil, nil)),
			vMsgBytes('E', vCat(vCStr(nil), vU32(0))),
			vMsgBytes('S', nil))
		steps = 4
	} else {
		input = vMsgBytes('Q', vCStr([]byte("q")))
	}
	srv, serr := NewServer(parse, MessageBufferSize(8192))
	vAssert("newserver-ok", serr == nil)
	w := &vWorld{srv: srv}
	w.conn = vNewConn(input)
	w.ses, w.rd, w.wr = vSession(srv, w.conn)
	w.ctx = vCtx(srv)
	for i := 0; i < steps; i++ {
		if _, e := w.step(); e != nil {
			break
		}
	}
	vAssert("callback-error-cycle-ends-with-ReadyForQuery", len(w.conn.out) > 0 && vCount(vTypes(w.conn.out), 'Z') == 1)
	return w.conn.out
}

func vAssertKexpect(label string, body []byte, fcode byte, want []byte) {
	got, present := vErrField(body, fcode)
	if len(want) == 0 {
		vAssert(label+"-absent", !present)
		return
	}
	vAssertK(label+"-present", "KF-C17-2", true, present)
	if present {
		vAssert(label+"-value", vEqBytes(got, want))
	}
}

// H17n — a nil error is reported as an internal fatal error (C17).
func VerifH17n() {
	conn := vNewConn(nil)
	w := buffer.NewWriter(slog.Default(), conn)
	ErrorCode(w, nil) //nolint
	msgs, ok := vFrames(conn.out)
	vAssert("frames", ok && len(msgs) >= 1)
	m := msgs[0]
	vAssert("nil-is-ErrorResponse", m.typ == 'E' && vBodyOK(m))
	s, _ := vErrField(m.body, 'S')
	c, _ := vErrField(m.body, 'C')
	t, _ := vErrField(m.body, 'M')
	vAssert("nil-severity-fatal", string(s) == "FATAL")
	vAssert("nil-code-internal", string(c) == string(codes.Internal))
	vAssert("nil-message-nonempty", len(t) > 0)
	vReach("nil-error")
}

// ---------------------------------------------------------------------------
// H17m — decorating never changes the error it is given (C17: "any nesting",
// so an inner error keeps being a value of its own; also what C15 relies on
// when handlers share error values). For every decorator X with symbolic
// payloads a, b: inner = X(base, a), outer = X(inner, b) — the outer carries b,
// the inner still carries a, and the inner's text is unchanged.
// ---------------------------------------------------------------------------
func VerifH17m() {
	a, b := vSymText0(2), vSymText0(2)
	base := errors.New("base")
	switch vChoose(6) {
	case 0:
		inner := psqlerr.WithCode(base, codes.Code(string(a)))
		outer := psqlerr.WithCode(inner, codes.Code(string(b)))
		vAssert("outer-code", vEqStr(string(psqlerr.GetCode(outer)), string(b)) || len(b) == 0)
		vAssert("inner-code-unchanged", vEqStr(string(psqlerr.GetCode(inner)), string(a)) || len(a) == 0)
		vAssert("inner-text", inner.Error() == "base")
	case 1:
		inner := psqlerr.WithSeverity(base, psqlerr.Severity(string(a)))
		outer := psqlerr.WithSeverity(inner, psqlerr.Severity(string(b)))
		vAssert("outer-severity", vEqStr(string(psqlerr.GetSeverity(outer)), string(b)) || len(b) == 0)
		vAssert("inner-severity-unchanged", vEqStr(string(psqlerr.GetSeverity(inner)), string(a)) || len(a) == 0)
	case 2:
		inner := psqlerr.WithHint(base, string(a))
		outer := psqlerr.WithHint(inner, string(b))
		vAssert("outer-hint", vEqStr(psqlerr.GetHint(outer), string(b)))
		vAssert("inner-hint-unchanged", vEqStr(psqlerr.GetHint(inner), string(a)))
	case 3:
		inner := psqlerr.WithDetail(base, string(a))
		outer := psqlerr.WithDetail(inner, string(b))
		vAssert("outer-detail", vEqStr(psqlerr.GetDetail(outer), string(b)))
		vAssert("inner-detail-unchanged", vEqStr(psqlerr.GetDetail(inner), string(a)))
		vReach("detail-twice")
	case 4:
		inner := psqlerr.WithConstraintName(base, string(a))
		outer := psqlerr.WithConstraintName(inner, string(b))
		vAssert("outer-constraint", vEqStr(psqlerr.GetConstraintName(outer), string(b)))
		vAssert("inner-constraint-unchanged", vEqStr(psqlerr.GetConstraintName(inner), string(a)))
	default:
		la, lb := int32(nondetU32()), int32(nondetU32())
		inner := psqlerr.WithSource(base, string(a), la, string(a))
		outer := psqlerr.WithSource(inner, string(b), lb, string(b))
		so, si := psqlerr.GetSource(outer), psqlerr.GetSource(inner)
		vAssert("sources-present", so != nil && si != nil)
		if so != nil && si != nil {
			vAssert("outer-source", vEqStr(so.File, string(b)) && so.Line == lb && vEqStr(so.Function, string(b)))
			vAssert("inner-source-unchanged", vEqStr(si.File, string(a)) && si.Line == la && vEqStr(si.Function, string(a)))
		}
	}
}

package wire

import (
	"github.com/jackc/pgx/v5/pgtype"
	"context"

	"github.com/jeroenrinzema/psql-wire/pkg/buffer"
	"github.com/lib/pq/oid"
)

// vBindRef is the reference decoding of a Bind body, written from the
// protocol text (DESIGN Appendix B): truncated (a needed field is missing,
// unterminated or longer than the body), or the record.
type vBindRef struct {
	ok     bool
	portal []byte
	stmt   []byte
	nf     int
	fcodes []int
	nv     int
	null   []bool
	val    [][]byte
	nr     int
	rcodes []int
}

func vRefBind(b []byte, maxCount int) vBindRef {
	var r vBindRef
	i := vCString(b, 0)
	if i < 0 {
		return r
	}
	r.portal = b[:i-1]
	j := vCString(b, i)
	if j < 0 {
		return r
	}
	r.stmt = b[i : j-1]
	i = j
	if i+2 > len(b) {
		return r
	}
	r.nf = vBE16(b, i)
	i += 2
	vAssume(r.nf <= maxCount) // stated bound, placed before the code it constrains
	for k := 0; k < r.nf; k++ {
		if i+2 > len(b) {
			return r
		}
		r.fcodes = append(r.fcodes, vBE16(b, i))
		i += 2
	}
	if i+2 > len(b) {
		return r
	}
	r.nv = vBE16(b, i)
	i += 2
	vAssume(r.nv <= maxCount)
	for k := 0; k < r.nv; k++ {
		if i+4 > len(b) {
			return r
		}
		l := vBE32(b, i)
		i += 4
		if l == 0xFFFFFFFF {
			r.null = append(r.null, true)
			r.val = append(r.val, nil)
			continue
		}
		if uint64(l) > uint64(len(b)-i) {
			return r
		}
		r.null = append(r.null, false)
		r.val = append(r.val, b[i:i+int(l)])
		i += int(l)
	}
	if i+2 > len(b) {
		return r
	}
	r.nr = vBE16(b, i)
	i += 2
	vAssume(r.nr <= maxCount)
	for k := 0; k < r.nr; k++ {
		if i+2 > len(b) {
			return r
		}
		r.rcodes = append(r.rcodes, vBE16(b, i))
		i += 2
	}
	r.ok = true // trailing surplus is tolerated (Appendix B)
	return r
}

// ---------------------------------------------------------------------------
// H08a — Bind = reference decoder, for an arbitrary body (C08). Also the
// Execute that follows hands exactly those parameters to the statement.
// ---------------------------------------------------------------------------
func VerifH08a() {
	N := vParam("N", 10)
	n := vChoose(N + 1)
	body := nondetBytes(n)
	ref := vRefBind(body, vParam("MAXCOUNT", 2))

	w := vNewWorld(nil, 64)
	w.execMenu = 1
	st := w.mkStmt(1, 0)
	vAssert("set-ok", w.ses.Statements.Set(w.ctx, "a", st) == nil)

	rd := &buffer.Reader{Msg: body, MaxMessageSize: 64}
	mark := len(w.conn.out)
	err := w.ses.handleBind(w.ctx, rd, w.wr)
	got := vTypes(w.conn.out[mark:])

	if !ref.ok {
		vAssert("truncated-bind-rejected", err != nil || got == "E")
		p, _ := w.ses.Portals.Get(w.ctx, "")
		vAssert("truncated-bind-creates-no-portal", p == nil)
		vReach("truncated")
		return
	}
	// a format code is 0 (text) or 1 (binary): any other value makes the Bind a
	// failing message — one ErrorResponse, connection kept, no portal
	badCode := false
	for _, c := range ref.fcodes {
		badCode = vOr(badCode, c > 1)
	}
	for _, c := range ref.rcodes {
		badCode = vOr(badCode, c > 1)
	}
	if badCode {
		vAssert("inadmissible-format-code-keeps-connection", err == nil)
		vAssert("inadmissible-format-code-is-error", got == "E")
		p, _ := w.ses.Portals.Get(w.ctx, string(ref.portal))
		vAssert("inadmissible-format-code-creates-no-portal", p == nil)
		vReach("inadmissible-format-code")
		return
	}
	known := len(ref.stmt) == 1 && ref.stmt[0] == 'a'
	hasNull := false
	for k := 0; k < ref.nv; k++ {
		if ref.null[k] {
			hasNull = true
		}
	}
	if !known {
		vAssertK("unknown-statement-keeps-connection", "KF-C08-1", hasNull, err == nil)
		vAssertK("unknown-statement-is-error", "KF-C08-1", hasNull, got == "E")
		return
	}
	vAssertK("wellformed-bind-accepted", "KF-C08-1", hasNull, err == nil)
	vAssertK("wellformed-bind-complete", "KF-C08-1", hasNull, got == "2")
	if hasNull && vKnownOpen("KF-C08-1") {
		return
	}
	p, _ := w.ses.Portals.Get(w.ctx, string(ref.portal))
	vAssert("portal-created", p != nil)
	vAssert("parameter-count", len(p.parameters) == ref.nv)
	admissible := ref.nf == 0 || ref.nf == 1 || ref.nf == ref.nv
	for k := 0; k < ref.nv; k++ {
		v := p.parameters[k].Value()
		vAssert("null-iff-minus-one", (v == nil) == ref.null[k])
		if !ref.null[k] {
			vAssert("value-bytes", vEqBytes(v, ref.val[k]))
			if len(ref.val[k]) == 0 {
				vReach("empty-value")
			}
		} else {
			vReach("null-value")
		}
		if admissible {
			want := 0
			if ref.nf == 1 {
				want = ref.fcodes[0]
			} else if ref.nf > 1 {
				want = ref.fcodes[k]
			}
			vAssert("parameter-format", int(uint16(p.parameters[k].Format())) == want)
		}
	}
	vAssert("result-format-count", len(p.formats) == ref.nr)
	for k := 0; k < ref.nr; k++ {
		vAssert("result-format-code", int(uint16(p.formats[k])) == ref.rcodes[k])
	}
	if ref.nv == 2 {
		vReach("two-parameters")
	}

	// Execute: the statement function receives exactly the portal's parameters
	ebody := vCat(vCStr(ref.portal), vU32(0))
	before := len(w.events)
	errE := w.ses.handleExecute(w.ctx, &buffer.Reader{Msg: ebody, MaxMessageSize: 64}, w.wr)
	vAssert("execute-ok", errE == nil)
	vAssert("execute-runs-once", len(w.events) == before+1 && w.events[before].kind == 'x')
	ev := w.events[before]
	vAssert("execute-parameter-count", len(ev.params) == ref.nv)
	for k := 0; k < ref.nv; k++ {
		vAssert("execute-null", (ev.params[k].Value() == nil) == ref.null[k])
		if !ref.null[k] {
			vAssert("execute-value", vEqBytes(ev.params[k].Value(), ref.val[k]))
		}
	}
}

// ---------------------------------------------------------------------------
// H08b — result formats (C08): the Bind's result-format codes determine the
// codes announced by Describe-portal and the encoding actually used for every
// column of every DataRow (rule: none -> text, one -> all, n -> positional).
// Columns are int4 and the row holds int32(7) so that the encoding is visible
// on the wire: text "7" vs binary 00 00 00 07.
// ---------------------------------------------------------------------------
func vInt4Statement(nc int) *PreparedStatement {
	cols := make(Columns, nc)
	for i := range cols {
		cols[i] = Column{Name: "n", Oid: oid.T_int4}
	}
	fn := func(ctx context.Context, dw DataWriter, params []Parameter) error {
		row := make([]any, nc)
		for i := range row {
			row[i] = int32(7)
		}
		if err := dw.Row(row); err != nil {
			return err
		}
		return dw.Complete("SELECT 1")
	}
	return NewStatement(fn, WithColumns(cols))
}

func vBindBody(portal, stmt []byte, formats []FormatCode) []byte {
	rf := vU16(len(formats))
	for _, f := range formats {
		rf = append(rf, vU16(int(f))...)
	}
	return vCat(vCStr(portal), vCStr(stmt), vU16(0), vU16(0), rf)
}

// vCheckPortalFormats describes and executes the portal and checks announced
// and used formats against the expected per-column codes.
func vCheckPortalFormats(w *vWorld, portal []byte, nc int, formats []FormatCode, tag string) {
	w.conn.out = nil
	desc := vCat([]byte{'P'}, vCStr(portal))
	vAssert(tag+"describe-ok", w.ses.handleDescribe(w.ctx, &buffer.Reader{Msg: desc, MaxMessageSize: 64}, w.wr) == nil)
	msgs, ok := vFrames(w.conn.out)
	vAssert(tag+"describe-portal-is-RowDescription", ok && len(msgs) == 1 && msgs[0].typ == 'T' && vBodyOK(msgs[0]))
	b := msgs[0].body
	vAssert(tag+"rowdescription-count", vBE16(b, 0) == nc)
	i := 2
	for c := 0; c < nc; c++ {
		j := vCString(b, i)
		vAssert(tag+"announced-format", vBE16(b, j+16) == int(vFormatFor(formats, c)))
		i = j + 18
	}
	vCheckPortalExec(w, portal, nc, formats, tag)
}

// vCheckPortalExec: Execute of the portal writes its row in the given formats.
func vCheckPortalExec(w *vWorld, portal []byte, nc int, formats []FormatCode, tag string) {
	w.conn.out = nil
	exec := vCat(vCStr(portal), vU32(0))
	vAssert(tag+"execute-ok", w.ses.handleExecute(w.ctx, &buffer.Reader{Msg: exec, MaxMessageSize: 64}, w.wr) == nil)
	rows, ok2 := vFrames(w.conn.out)
	vAssert(tag+"execute-writes-row", ok2 && len(rows) == 2 && rows[0].typ == 'D' && rows[1].typ == 'C')
	d := rows[0].body
	vAssert(tag+"datarow-count", vBE16(d, 0) == nc)
	k := 2
	for c := 0; c < nc; c++ {
		l := int(vBE32(d, k))
		k += 4
		if vFormatFor(formats, c) == BinaryFormat {
			vAssert(tag+"binary-encoding-used", l == 4 && d[k+3] == 7 && d[k] == 0)
		} else {
			vAssert(tag+"text-encoding-used", l == 1 && d[k] == '7')
		}
		k += l
	}
}

func VerifH08b() {
	nc := 1 + vChoose(vParam("COLS", 2))
	formats := vFormats(nc)
	w := vNewWorld(nil, 64)
	vAssert("set-ok", w.ses.Statements.Set(w.ctx, "", vInt4Statement(nc)) == nil)
	bind := vBindBody(nil, nil, formats)
	vAssert("bind-ok", w.ses.handleBind(w.ctx, &buffer.Reader{Msg: bind, MaxMessageSize: 64}, w.wr) == nil)
	vCheckPortalFormats(w, nil, nc, formats, "")
	if len(formats) == 1 && nc == 2 {
		vReach("one-code-applies-to-all")
	}
	if len(formats) == 2 {
		vReach("positional-codes")
	}
}

// ---------------------------------------------------------------------------
// H08g — format codes are 0 (text) or 1 (binary); a Bind may carry any 16-bit
// value (C08, C02, C06). One parameter-format code and one result-format code,
// both arbitrary, on a one-parameter, one-column statement; then Describe
// portal, Execute, Sync. With admissible codes the cycle is served and the
// handler sees the parameter tagged with the code sent. With any other code
// the Bind is a failing message — exactly one ErrorResponse, the rest of the
// cycle discarded, one ReadyForQuery — and in no case does the server announce
// a format code of its own that the protocol does not define.
// ---------------------------------------------------------------------------
func VerifH08g() {
	pf := nondetU16()
	rf := nondetU16()
	val := nondetBytes(1)
	var seen []Parameter
	fn := func(ctx context.Context, dw DataWriter, params []Parameter) error {
		seen = params
		if err := dw.Row([]any{"v"}); err != nil {
			return err
		}
		return dw.Complete("T")
	}
	bind := vCat(vCStr(nil), vCStr(nil), vU16(1), vU16(int(pf)), vU16(1), vU32(1), val, vU16(1), vU16(int(rf)))
	input := vCat(vMsgBytes('B', bind),
		vMsgBytes('D', vCat([]byte{'P'}, vCStr(nil))),
		vMsgBytes('E', vCat(vCStr(nil), vU32(0))),
		vMsgBytes('S', nil))
	w := vNewWorld(input, 64)
	vAssert("set-ok", w.ses.Statements.Set(w.ctx, "", NewStatement(fn, WithColumns(vTextColumns(1)), WithParameters([]oid.Oid{25}))) == nil)
	var out string
	for i := 0; i < 4; i++ {
		got, err := w.step()
		vAssert("connection-stays-up", err == nil)
		out += got
	}
	vAssert("wire-wellformed", vWireOK(w.conn.out))
	vAssert("one-ReadyForQuery-for-the-Sync", vCount(out, 'Z') == 1 && out[len(out)-1] == 'Z')
	if pf <= 1 && rf <= 1 {
		vAssert("admissible-codes-served", out == "2TDCZ")
		vAssert("parameter-tagged-with-the-code-sent", len(seen) == 1 && seen[0].Format() == FormatCode(pf))
		vReach("admissible-format-codes")
		return
	}
	vAssert("inadmissible-format-code-fails-the-bind", out == "EZ")
	vAssert("inadmissible-format-code-no-callback", seen == nil)
	vReach("inadmissible-format-code")
}

// ---------------------------------------------------------------------------
// H08h — a Bind at the 16-bit boundaries of its counts (C08): COUNT parameters
// (32767, 32768 or 65535 — the solver's choice), all NULL but the last, which
// carries one symbolic byte, with as many per-parameter format codes (text,
// the last one binary) and as many result-format codes as the statement has
// columns. The statement function receives exactly COUNT parameters, the last
// one with its byte and tagged binary, the first one NULL and tagged text.
// ---------------------------------------------------------------------------
func VerifH08h() {
	count := []int{32767, 32768, 65535}[vChoose(3)]
	last := nondetBytes(1)
	body := vCat(vCStr(nil), vCStr(nil), vU16(count))
	codes := make([]byte, 2*count)
	codes[2*count-1] = 1
	body = append(body, codes...)
	body = append(body, vU16(count)...)
	nulls := make([]byte, 4*(count-1))
	for i := range nulls {
		nulls[i] = 0xff
	}
	body = append(body, nulls...)
	body = append(body, vU32(1)...)
	body = append(body, last...)
	body = append(body, vU16(0)...)
	var seen []Parameter
	fn := func(ctx context.Context, dw DataWriter, params []Parameter) error {
		seen = params
		return dw.Complete("T")
	}
	w := vNewWorld(nil, 1<<20)
	vAssert("set-ok", w.ses.Statements.Set(w.ctx, "", NewStatement(fn)) == nil)
	vAssert("bind-ok", w.ses.handleBind(w.ctx, &buffer.Reader{Msg: body, MaxMessageSize: 1 << 20}, w.wr) == nil)
	vAssert("bind-complete", vTypes(w.conn.out) == "2")
	exec := vCat(vCStr(nil), vU32(0))
	vAssert("execute-ok", w.ses.handleExecute(w.ctx, &buffer.Reader{Msg: exec, MaxMessageSize: 64}, w.wr) == nil)
	vAssert("every-parameter-reaches-the-statement", len(seen) == count)
	if len(seen) == count {
		vAssert("first-parameter-null-and-text", seen[0].Value() == nil && seen[0].Format() == TextFormat)
		vAssert("last-parameter-byte-and-binary", vEqBytes(seen[count-1].Value(), last) && seen[count-1].Format() == BinaryFormat)
	}
	if count >= 32768 {
		vReach("more-parameters-than-a-signed-16-bit-count")
	}
}

// ---------------------------------------------------------------------------
// H08f — a handler that writes Go strings into int4 columns (C08, C09). pgx
// sends a string as it is in text format and cannot encode it in binary
// format. Whatever the Bind's result formats: a column announced as binary is
// never followed by a DataRow field in text; when every column is text the row
// is delivered, otherwise the row is refused (no DataRow, one ErrorResponse).
// ---------------------------------------------------------------------------
func VerifH08f() {
	nc := 1 + vChoose(vParam("COLS", 2))
	formats := vFormats(nc)
	w := vNewWorld(nil, 64)
	cols := make(Columns, nc)
	for i := range cols {
		cols[i] = Column{Name: "n", Oid: oid.T_int4}
	}
	var rowErr error
	fn := func(ctx context.Context, dw DataWriter, params []Parameter) error {
		row := make([]any, nc)
		for i := range row {
			row[i] = "7"
		}
		if rowErr = dw.Row(row); rowErr != nil {
			return rowErr
		}
		return dw.Complete("SELECT 1")
	}
	vAssert("set-ok", w.ses.Statements.Set(w.ctx, "", NewStatement(fn, WithColumns(cols))) == nil)
	vAssert("bind-ok", w.ses.handleBind(w.ctx, &buffer.Reader{Msg: vBindBody(nil, nil, formats), MaxMessageSize: 64}, w.wr) == nil)
	anyBinary := false
	for c := 0; c < nc; c++ {
		if vFormatFor(formats, c) == BinaryFormat {
			anyBinary = true
		}
	}
	w.conn.out = nil
	exec := vCat(vCStr(nil), vU32(0))
	vAssert("execute-ok", w.ses.handleExecute(w.ctx, &buffer.Reader{Msg: exec, MaxMessageSize: 64}, w.wr) == nil)
	vAssert("wire-wellformed", vWireOK(w.conn.out))
	rows, _ := vFrames(w.conn.out)
	if anyBinary {
		vAssert("string-for-a-binary-int4-column-is-refused", rowErr != nil)
		vAssert("no-text-field-under-a-binary-announcement", vCount(vTypes(w.conn.out), 'D') == 0)
		vAssert("refused-row-one-ErrorResponse", vTypes(w.conn.out) == "E")
		vReach("string-value-binary-format")
		return
	}
	vAssert("text-row-delivered", len(rows) == 2 && rows[0].typ == 'D' && rows[1].typ == 'C')
	d := rows[0].body
	vAssert("datarow-count", vBE16(d, 0) == nc)
	k := 2
	for c := 0; c < nc; c++ {
		l := int(vBE32(d, k))
		vAssert("text-encoding-used", l == 1 && d[k+4] == '7')
		k += 4 + l
	}
	vReach("string-value-text-format")
}

// ---------------------------------------------------------------------------
// H07d — re-binding a portal name replaces its result formats too (C07, C08):
// Bind p1 with formats f1, Bind p2 with formats f2 (names symbolic, so the
// solver decides whether the second replaces the first), then Describe and
// Execute p3: the formats in force are those of the latest Bind of that name.
// ---------------------------------------------------------------------------
func VerifH07d() {
	nc := 2
	f1 := vFormats(nc)
	f2 := vFormats(nc)
	p1, p2, p3 := vSymName(), vSymName(), vSymName()
	w := vNewWorld(nil, 64)
	vAssert("set-ok", w.ses.Statements.Set(w.ctx, "", vInt4Statement(nc)) == nil)
	vAssert("bind-1", w.ses.handleBind(w.ctx, &buffer.Reader{Msg: vBindBody(p1, nil, f1), MaxMessageSize: 64}, w.wr) == nil)
	// the first portal may be described before the second Bind (which may
	// replace it): a lookup leaves nothing behind that a later Bind must undo
	describedBetween := nondetBool()
	if describedBetween {
		desc := vCat([]byte{'P'}, vCStr(p1))
		vAssert("describe-between-ok", w.ses.handleDescribe(w.ctx, &buffer.Reader{Msg: desc, MaxMessageSize: 64}, w.wr) == nil)
	}
	vAssert("bind-2", w.ses.handleBind(w.ctx, &buffer.Reader{Msg: vBindBody(p2, nil, f2), MaxMessageSize: 64}, w.wr) == nil)
	var want []FormatCode
	known := false
	if vEqBytes(p3, p2) {
		want, known = f2, true
		if vEqBytes(p1, p2) {
			vReach("rebound-portal")
		}
	} else if vEqBytes(p3, p1) {
		want, known = f1, true
	}
	if !known {
		return
	}
	if nondetBool() {
		// executed at once, without a Describe after the latest Bind
		vCheckPortalExec(w, p3, nc, want, "latest-bind-")
		if describedBetween && vEqBytes(p1, p2) && vEqBytes(p3, p2) {
			vReach("described-rebound-then-executed-without-another-describe")
		}
		return
	}
	vCheckPortalFormats(w, p3, nc, want, "latest-bind-")
}

// ---------------------------------------------------------------------------
// H08c — Describe-statement announces exactly the declared parameter types.
// H08d — Parameter.Scan hands (oid, format, value) to the type's decoder.
// ---------------------------------------------------------------------------
func VerifH08c() {
	np := vChoose(vParam("PARAMS", 3) + 1)
	oids := make([]oid.Oid, np)
	declared := make([]oid.Oid, np) // what the handler declares, kept by the handler
	for i := range oids {
		oids[i] = oid.Oid(nondetU32())
		declared[i] = oids[i]
	}
	fn := func(ctx context.Context, dw DataWriter, params []Parameter) error { return nil }
	// the statement reaches the session through a real Parse whose message may
	// pre-specify parameter types of its own (symbolic): whatever the client
	// says there, Describe announces the handler's declaration, and the library
	// never writes into the slice the handler handed over
	parse := func(ctx context.Context, query string) (PreparedStatements, error) {
		return Prepared(NewStatement(fn, WithParameters(declared))), nil
	}
	srv, err := NewServer(parse, MessageBufferSize(64))
	vAssert("newserver-ok", err == nil)
	w := &vWorld{srv: srv}
	w.conn = vNewConn(nil)
	w.ses, w.rd, w.wr = vSession(srv, w.conn)
	w.ctx = vCtx(srv)
	pre := vChoose(3)
	pbody := vCat(vCStr([]byte("s")), vCStr([]byte("q")), vU16(pre))
	for k := 0; k < pre; k++ {
		pbody = append(pbody, vU32(nondetU32())...)
	}
	vAssert("parse-ok", w.ses.handleParse(w.ctx, &buffer.Reader{Msg: pbody, MaxMessageSize: 64}, w.wr) == nil)
	w.conn.out = nil
	desc := vCat([]byte{'S'}, vCStr([]byte("s")))
	vAssert("describe-ok", w.ses.handleDescribe(w.ctx, &buffer.Reader{Msg: desc, MaxMessageSize: 64}, w.wr) == nil)
	msgs, ok := vFrames(w.conn.out)
	vAssert("describe-statement-replies", ok && len(msgs) == 2 && msgs[0].typ == 't' && msgs[1].typ == 'n' && vBodyOK(msgs[0]))
	b := msgs[0].body
	vAssert("parameter-count", vBE16(b, 0) == np)
	for i := 0; i < np; i++ {
		vAssert("parameter-oid", vBE32(b, 2+4*i) == uint32(oids[i]))
		vAssert("handler-declaration-untouched", declared[i] == oids[i])
	}
	if np == 2 {
		vReach("two-declared-parameters")
	}
	if pre > 0 && np > 0 {
		vReach("parse-prespecifies-types")
	}
}

func VerifH08d() {
	srv, _ := NewServer(nil)
	n := vChoose(3)
	val := nondetBytes(n)
	isNull := nondetBool()
	var v []byte
	if !isNull {
		v = val
	}
	f := FormatCode(vChoose(2))
	p := NewParameter(srv.types, f, v)
	vAssert("format", p.Format() == f)
	vAssert("value", (p.Value() == nil) == isNull && vEqBytes(p.Value(), v))
	got, err := p.Scan(uint32(oid.T_text))
	vAssert("scan-text-ok", err == nil)
	if isNull {
		vAssert("scan-null-is-nil", got == nil)
		vReach("scan-null")
	} else {
		s, isStr := got.(string)
		vAssert("scan-text-is-string", isStr)
		vAssert("scan-text-value", vEqStr(s, string(v)))
		vReach("scan-value")
	}
	_, err = p.Scan(999999)
	vAssert("scan-unknown-oid-is-error", err == ErrUnknownOid)
	// the other character types decode to the text the client sent, byte for
	// byte (leading and trailing blanks are part of the value)
	coid := []uint32{uint32(oid.T_bpchar), uint32(oid.T_name), uint32(oid.T_varchar), uint32(oid.T_unknown)}[vChoose(4)]
	cgot, cerr := p.Scan(coid)
	vAssert("scan-character-type-ok", cerr == nil)
	if isNull {
		vAssert("scan-character-type-null-is-nil", cgot == nil)
	} else if f == TextFormat {
		cs, isStr := cgot.(string)
		vAssert("scan-character-type-is-the-text-sent", isStr && vEqStr(cs, string(v)))
		vReach("scan-character-type")
	}

	// a binary int4 / int2 / int8 parameter decodes, through pgx's own codec, to
	// the number the client sent; any other length is an error; NULL stays nil
	width := []int{2, 4, 8}[vChoose(3)]
	ioid := map[int]uint32{2: uint32(oid.T_int2), 4: uint32(oid.T_int4), 8: uint32(oid.T_int8)}[width]
	raw := nondetBytes(vChoose(10))
	var rv []byte
	if !isNull {
		rv = raw
	}
	ip := NewParameter(srv.types, BinaryFormat, rv)
	num, ierr := ip.Scan(ioid)
	switch {
	case isNull:
		vAssert("scan-binary-integer-null-is-nil", ierr == nil && num == nil)
	case len(raw) != width:
		vAssert("scan-binary-integer-of-wrong-length-is-error", ierr != nil)
		vReach("scan-integer-wrong-length")
	default:
		var want int64
		for _, b := range raw {
			want = want<<8 | int64(b)
		}
		ok := false
		switch width {
		case 2:
			x, is := num.(int16)
			ok = is && x == int16(want)
		case 4:
			x, is := num.(int32)
			ok = is && x == int32(want)
		default:
			x, is := num.(int64)
			ok = is && x == want
		}
		vAssert("scan-binary-integer-value", ierr == nil && ok)
		vReach("scan-integer")
	}
}

// ---------------------------------------------------------------------------
// H08s — structured Bind (C08): well-formed bodies built from symbolic
// fields, so that the combinations the arbitrary-body harness cannot reach
// within its byte bound are covered: up to 3 parameters, every admissible
// format-code count (0, 1, n) with symbolic codes, any placement of NULLs.
// ---------------------------------------------------------------------------
func VerifH08s() {
	nv := vChoose(vParam("PARAMS", 3) + 1)
	var nf int
	switch vChoose(3) {
	case 0:
		nf = 0
	case 1:
		nf = 1
	default:
		nf = nv
	}
	codes := make([]uint16, nf)
	body := vCat(vCStr(nil), vCStr([]byte("a")), vU16(nf))
	for i := range codes {
		codes[i] = nondetU16()
		body = append(body, byte(codes[i]>>8), byte(codes[i]))
	}
	body = append(body, vU16(nv)...)
	null := make([]bool, nv)
	vals := make([][]byte, nv)
	for i := 0; i < nv; i++ {
		null[i] = nondetBool()
		if null[i] {
			body = append(body, 0xFF, 0xFF, 0xFF, 0xFF)
		} else {
			vals[i] = nondetBytes(vChoose(2))
			body = append(body, vU32(uint32(len(vals[i])))...)
			body = append(body, vals[i]...)
		}
	}
	body = append(body, vU16(0)...)

	w := vNewWorld(nil, 64)
	w.execMenu = 1
	vAssert("set-ok", w.ses.Statements.Set(w.ctx, "a", w.mkStmt(1, 0)) == nil)
	err := w.ses.handleBind(w.ctx, &buffer.Reader{Msg: body, MaxMessageSize: 64}, w.wr)
	// the codes are any 16-bit values: only 0 and 1 are format codes, a Bind
	// carrying another value fails with one ErrorResponse and binds nothing
	bad := false
	for _, c := range codes {
		bad = vOr(bad, c > 1)
	}
	if bad {
		vAssert("inadmissible-format-code-is-one-error", err == nil && vTypes(w.conn.out) == "E")
		q, _ := w.ses.Portals.Get(w.ctx, "")
		vAssert("inadmissible-format-code-binds-nothing", q == nil)
		vReach("inadmissible-format-code")
		return
	}
	vAssert("bind-accepted", err == nil && vTypes(w.conn.out) == "2")
	p, _ := w.ses.Portals.Get(w.ctx, "")
	vAssert("portal-created", p != nil)
	vAssert("parameter-count", len(p.parameters) == nv)
	for i := 0; i < nv; i++ {
		v := p.parameters[i].Value()
		vAssert("null-iff-minus-one", (v == nil) == null[i])
		if !null[i] {
			vAssert("value-bytes", vEqBytes(v, vals[i]))
		}
		want := uint16(0)
		if nf == 1 {
			want = codes[0]
		} else if nf > 1 {
			want = codes[i]
		}
		vAssert("parameter-format-by-rule", uint16(p.parameters[i].Format()) == want)
		if null[i] && nf > 1 {
			vReach("null-with-positional-code")
		}
	}
	if nf == 1 && nv >= 2 {
		vReach("one-code-for-all")
	}
}

// ---------------------------------------------------------------------------
// H07p — a portal keeps the parameters of ITS Bind (C07, C08): Bind p1 with
// n1 parameters, Bind p2 with n2 parameters (names, counts, values and NULLs
// symbolic), then Execute p3 and Execute p4 through the command loop: each
// Execute hands the statement the parameter values of the latest Bind of that
// portal name — whatever was bound to other portals in between.
// ---------------------------------------------------------------------------
type vParamSet struct {
	null []bool
	vals [][]byte
}

func vSymParams(max int) (vParamSet, []byte) {
	n := vChoose(max + 1)
	ps := vParamSet{null: make([]bool, n), vals: make([][]byte, n)}
	body := vU16(n)
	for i := 0; i < n; i++ {
		ps.null[i] = nondetBool()
		if ps.null[i] {
			body = append(body, 0xFF, 0xFF, 0xFF, 0xFF)
		} else {
			ps.vals[i] = nondetBytes(1)
			if vParam("BIGVAL", 0) == 0 && nondetBool() {
				ps.vals[i] = []byte{} // an empty value is not NULL
			}
			if big := vParam("BIGVAL", 0); big > 0 {
				// a large value (BIGVAL-1 filler bytes and a symbolic last byte): the
				// message is bigger than the reader's 4 KiB allocation granule
				v := make([]byte, big)
				for k := range v {
					v[k] = 'x'
				}
				v[big-1] = ps.vals[i][0]
				ps.vals[i] = v
			}
			body = append(body, vU32(uint32(len(ps.vals[i])))...)
			body = append(body, ps.vals[i]...)
		}
	}
	return ps, body
}

func VerifH07p() {
	maxp := vParam("PARAMS", 2)
	p1, p2, p3, p4 := vSymName(), vSymName(), vSymName(), vSymName()
	ps1, b1 := vSymParams(maxp)
	ps2, b2 := vSymParams(maxp)
	sync := vMsgBytes('S', nil)
	bind := func(p []byte, params []byte) []byte {
		return vMsgBytes('B', vCat(vCStr(p), vCStr([]byte("a")), vU16(0), params, vU16(0)))
	}
	exec := func(p []byte) []byte { return vMsgBytes('E', vCat(vCStr(p), vU32(0))) }
	input := vCat(bind(p1, b1), bind(p2, b2), exec(p3), sync, exec(p4), sync)
	w := vNewWorld(input, 64+4*vParam("LONGNAME", 0)+3*vParam("BIGVAL", 0))
	w.execMenu = 1
	vAssert("set-ok", w.ses.Statements.Set(w.ctx, "a", w.mkStmt(1, 0)) == nil)
	if vParam("BIGVAL", 0) > 0 && len(ps1.null) >= 1 && !ps1.null[0] && len(ps2.null) >= 1 && !ps2.null[0] {
		vReach("two-binds-larger-than-the-allocation-granule")
	}
	expect := func(p []byte) (vParamSet, bool) {
		if vEqBytes(p, p2) {
			return ps2, true
		}
		if vEqBytes(p, p1) {
			return ps1, true
		}
		return vParamSet{}, false
	}
	checkExec := func(p []byte, tag string) {
		before := len(w.events)
		got, err := w.step()
		vAssert("connection-stays-up", err == nil)
		want, known := expect(p)
		var ran *vEvent
		for k := before; k < len(w.events); k++ {
			if w.events[k].kind == 'x' {
				ran = &w.events[k]
			}
		}
		if !known {
			vAssert(tag+"unknown-portal-is-error", got == "E" && ran == nil)
		} else {
			vAssert(tag+"runs", ran != nil)
			if ran != nil {
				vAssert(tag+"parameter-count-of-its-bind", len(ran.params) == len(want.null))
				if len(ran.params) == len(want.null) {
					for i := range want.null {
						v := ran.params[i].Value()
						vAssert(tag+"parameter-null-of-its-bind", (v == nil) == want.null[i])
						if !want.null[i] && v != nil {
							vAssert(tag+"parameter-value-of-its-bind", vEqBytes(v, want.vals[i]))
						}
					}
				}
			}
		}
		z, errZ := w.step()
		vAssert("sync-ready", errZ == nil && z == "Z")
	}
	got, err := w.step()
	vAssert("bind-1", err == nil && got == "2")
	got, err = w.step()
	vAssert("bind-2", err == nil && got == "2")
	checkExec(p3, "first-execute-")
	checkExec(p4, "second-execute-")
	if !vEqBytes(p1, p2) && vEqBytes(p3, p1) && len(ps1.null) >= 1 && len(ps2.null) >= 1 {
		vReach("earlier-portal-executed-after-later-bind")
	}
	if vEqBytes(p1, p2) && vEqBytes(p3, p1) {
		vReach("rebound-portal-executed")
	}
}

// ---------------------------------------------------------------------------
// H08t — a Bind parameter's own decoder is the CONNECTION's (C08): the type
// map handed out through TypeMap(ctx) is the connection's to customise; a
// session middleware registers a type of the embedder's own on it (object id
// 100000..100002, text codec). A parameter bound on that connection decodes
// through Parameter.Scan with that object id to the bytes the client sent —
// exactly as TypeMap(ctx), in the same callback, knows the type.
// ---------------------------------------------------------------------------
func VerifH08t() {
	custom := uint32(100000 + vChoose(3))
	val := nondetBytes(2)
	var got any
	var scanErr error
	var known, ran bool
	mw := SessionMiddleware(func(ctx context.Context) (context.Context, error) {
		TypeMap(ctx).RegisterType(&pgtype.Type{Name: "verif_type", OID: custom, Codec: pgtype.TextCodec{}})
		return ctx, nil
	})
	stmt := func(ctx context.Context, dw DataWriter, params []Parameter) error {
		ran = true
		_, known = TypeMap(ctx).TypeForOID(custom)
		if len(params) == 1 {
			got, scanErr = params[0].Scan(custom)
		}
		return dw.Complete("T")
	}
	parse := func(ctx context.Context, query string) (PreparedStatements, error) {
		return Prepared(NewStatement(stmt, WithParameters([]oid.Oid{oid.Oid(custom)}))), nil
	}
	srv, err := NewServer(parse, MessageBufferSize(64), mw)
	vAssert("newserver-ok", err == nil)
	input := vCat(vStartup(vKV([]byte("user"), []byte("u"))),
		vMsgBytes('P', vCat(vCStr(nil), vCStr([]byte("q $1")), vU16(0))),
		vMsgBytes('B', vCat(vCStr(nil), vCStr(nil), vU16(0), vU16(1), vU32(uint32(len(val))), val, vU16(0))),
		vMsgBytes('E', vCat(vCStr(nil), vU32(0))),
		vMsgBytes('S', nil), vMsgBytes('X', nil))
	conn := vNewConn(input)
	srv.serve(context.Background(), conn) //nolint
	vAssert("statement-ran", ran)
	vAssert("the-connection's-type-map-knows-the-registered-type", known)
	sv, isStr := got.(string)
	vAssert("parameter-decodes-through-the-connection's-own-type", scanErr == nil && isStr && vEqStr(sv, string(val)))
	vReach("parameter-of-a-type-registered-on-the-connection")
}

// ---------------------------------------------------------------------------
// H08e — result-format codes apply to columns the statement function defines
// while it runs (C08): the statement is stored without declared columns; its
// function defines two int4 columns through the result writer's Define method
// (exported on the writer, reached by an interface assertion), writes one row and
// completes. The Bind carried no result-format code, or one (text or binary):
// the RowDescription the Define emits announces that format for every column
// and the DataRow is encoded in it.
// ---------------------------------------------------------------------------
func VerifH08e() {
	nc := 2
	var formats []FormatCode
	if nondetBool() {
		formats = []FormatCode{FormatCode(vChoose(2))}
	}
	cols := Columns{{Name: "a", Oid: oid.T_int4}, {Name: "b", Oid: oid.T_int4}}
	var defineErr error
	fn := func(ctx context.Context, dw DataWriter, params []Parameter) error {
		definer, ok := dw.(interface{ Define(Columns) error })
		vAssert("the-writer-has-a-define-method", ok)
		if defineErr = definer.Define(cols); defineErr != nil {
			return defineErr
		}
		if err := dw.Row([]any{int32(7), int32(7)}); err != nil {
			return err
		}
		return dw.Complete("SELECT 1")
	}
	w := vNewWorld(nil, 64)
	vAssert("set-ok", w.ses.Statements.Set(w.ctx, "", NewStatement(fn)) == nil)
	vAssert("bind-ok", w.ses.handleBind(w.ctx, &buffer.Reader{Msg: vBindBody(nil, nil, formats), MaxMessageSize: 64}, w.wr) == nil)
	w.conn.out = nil
	exec := vCat(vCStr(nil), vU32(0))
	vAssert("execute-ok", w.ses.handleExecute(w.ctx, &buffer.Reader{Msg: exec, MaxMessageSize: 64}, w.wr) == nil)
	vAssert("define-ok", defineErr == nil)
	msgs, ok := vFrames(w.conn.out)
	vAssert("execute-writes-description-row-completion", ok && len(msgs) == 3 && msgs[0].typ == 'T' && msgs[1].typ == 'D' && msgs[2].typ == 'C' && vBodyOK(msgs[0]))
	b := msgs[0].body
	vAssert("rowdescription-count", vBE16(b, 0) == nc)
	i := 2
	for c := 0; c < nc; c++ {
		j := vCString(b, i)
		vAssert("announced-format-is-the-bound-one", vBE16(b, j+16) == int(vFormatFor(formats, c)))
		i = j + 18
	}
	d := msgs[1].body
	vAssert("datarow-count", vBE16(d, 0) == nc)
	k := 2
	for c := 0; c < nc; c++ {
		l := int(vBE32(d, k))
		k += 4
		if vFormatFor(formats, c) == BinaryFormat {
			vAssert("binary-encoding-used", l == 4 && d[k+3] == 7 && d[k] == 0)
			vReach("columns-defined-while-running-bound-binary")
		} else {
			vAssert("text-encoding-used", l == 1 && d[k] == '7')
		}
		k += l
	}
}

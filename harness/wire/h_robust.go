package wire

import (
	"context"
	"fmt"
	"io"
	"net"
	"os"

	"github.com/lib/pq/oid"
)

// vHelperWorld: a server whose callbacks use the library's own helpers on
// client-controlled data, as the documentation expects handlers to do:
// ParseFn calls ParseParameters(query); the statement function writes a row,
// or starts COPY-in and reads binary rows until an error.
func vHelperWorld(input []byte, limit int, copyMode bool) *vWorld {
	w := &vWorld{}
	stmt := func(ctx context.Context, dw DataWriter, params []Parameter) error {
		w.events = append(w.events, vEvent{kind: 'x', params: params, ctx: ctx})
		for _, p := range params {
			p.Scan(25) //nolint: decode what the client sent
		}
		if copyMode {
			cr, err := dw.CopyIn(BinaryFormat)
			if err != nil {
				return err
			}
			br, err := NewBinaryColumnReader(ctx, cr)
			if err != nil {
				return err
			}
			for k := 0; k < 4; k++ {
				if _, err := br.Read(ctx); err != nil {
					return err
				}
			}
			return dw.Complete("COPY")
		}
		if err := dw.Row([]any{"v"}); err != nil {
			return err
		}
		return dw.Complete("T")
	}
	parse := func(ctx context.Context, query string) (PreparedStatements, error) {
		w.events = append(w.events, vEvent{kind: 'p', query: []byte(query), ctx: ctx})
		// (mixing $n and ? markers is outside C20's claim and is not fed to the helper)
		hasD, hasQ := false, false
		for i := 0; i < len(query); i++ {
			if query[i] == '$' {
				hasD = true
			}
			if query[i] == '?' {
				hasQ = true
			}
		}
		var params []oid.Oid
		if !(hasD && hasQ) {
			params = ParseParameters(query)
		}
		return Prepared(NewStatement(stmt, WithColumns(vTextColumns(1)), WithParameters(params))), nil
	}
	srv, err := NewServer(parse, MessageBufferSize(limit))
	vAssert("newserver-ok", err == nil)
	w.srv = srv
	w.conn = vNewConn(input)
	w.ses, w.rd, w.wr = vSession(srv, w.conn)
	w.ctx = vCtx(srv)
	return w
}

// ---------------------------------------------------------------------------
// H04a — no client message can crash the server (C04): one message with a
// symbolic type byte and a symbolic body of up to N bytes, from a session in
// which the unnamed statement and portal exist, followed by up to T more
// arbitrary bytes (consumed by COPY mode if the message starts one). The
// engine turns every index/slice/nil/type-assertion failure into a
// solver-decided branch; a panic that escapes the connection's frame is the
// violation. Every allocation made while handling the message carries a size
// obligation (H04c).
// ---------------------------------------------------------------------------
func VerifH04a() {
	N := vParam("N", 6)
	T := vParam("T", 0)
	L := vParam("L", 16)
	typ := nondetByte()
	body := nondetBytes(vChoose(N + 1))
	tail := nondetBytes(vChoose(T + 1))
	copyMode := nondetBool()
	if len(tail) > 0 {
		vAssume(tail[0] != 'P') // same cut for a Parse formed by the trailing bytes
	}
	if typ == 'P' {
		// handleParse spins an empty loop over the client-declared 16-bit
		// parameter-type count (at most 65535 iterations of no work: bounded,
		// not a wedge); the harness keeps the count small so that the loop's
		// exits do not fork 65536 ways
		i := vCString(body, 0)
		if i >= 0 {
			j := vCString(body, i)
			if j >= 0 && j+2 <= len(body) {
				vAssume(vBE16(body, j) <= 2)
			}
		}
	}
	w := vHelperWorld(vCat(vMsgBytes(typ, body), tail), L, copyMode)
	// pre-state: unnamed statement and portal exist
	sts, _ := w.srv.parse(w.ctx, "q")
	vAssert("set-ok", w.ses.Statements.Set(w.ctx, "", sts[0]) == nil)
	st, _ := w.ses.Statements.Get(w.ctx, "")
	vAssert("bind-ok", w.ses.Portals.Bind(w.ctx, "", st, nil, nil) == nil)
	w.events = nil

	lim := L
	if lim < 4096 {
		lim = 4096
	}
	vAllocLimits(lim, 65535)
	_, err := w.step()
	vAllocCheck()
	_ = err // rejecting the message (error, dropped connection) is fine; crashing is not
	vAssert("wire-wellformed", vWireOK(w.conn.out))
	if len(w.events) > 0 {
		vReach("callback-ran")
	}
	if err != nil {
		vReach("message-rejected")
	}
	// a second step must not crash either (EOF, leftovers of COPY mode, ...)
	w.step() //nolint
	vAllocCheck()
}

// ---------------------------------------------------------------------------
// H04k — the binary COPY row reader on hostile COPY data (C04): a handler
// that reads binary rows with the documented helper; the client sends one
// CopyData message holding the standard header (or none) and a tuple whose
// field count and field length are arbitrary 16/32-bit values, followed by up
// to V value bytes, and then ends the copy or goes away. Whatever the tuple
// declares, nothing panics, no row is fabricated from bytes that were not
// sent, and every allocation stays within the message limit (4 KiB granule).
// ---------------------------------------------------------------------------
func VerifH04k() {
	L := vParam("L", 16)
	V := vParam("V", 2)
	withHeader := nondetBool()
	count := nondetU16()
	length := nondetU32()
	value := nondetBytes(vChoose(V + 1))
	var data []byte
	if withHeader {
		data = vCat(CopySignature, make([]byte, 8))
		vReach("with-file-header")
	}
	data = vCat(data, []byte{byte(count >> 8), byte(count)},
		[]byte{byte(length >> 24), byte(length >> 16), byte(length >> 8), byte(length)}, value)
	vAssume(len(data) <= L+8)
	input := vCat(vMsgBytes('Q', vCStr([]byte("q"))), vMsgBytes('d', data))
	if nondetBool() {
		input = vCat(input, vMsgBytes('c', nil))
	}
	rows := 0
	stmt := func(ctx context.Context, dw DataWriter, params []Parameter) error {
		cr, err := dw.CopyIn(BinaryFormat)
		if err != nil {
			return err
		}
		br, err := NewBinaryColumnReader(ctx, cr)
		if err != nil {
			return err
		}
		for k := 0; k < 3; k++ {
			row, err := br.Read(ctx)
			if err != nil {
				return err
			}
			rows++
			// a row that is delivered holds what was sent: one field, NULL or
			// the declared number of bytes, all of them present in the message
			vAssert("delivered-row-was-sent", count == 1 && len(row) == 1 &&
				(length == 0xFFFFFFFF || int(length) <= len(value)))
		}
		return dw.Complete("COPY")
	}
	parse := func(ctx context.Context, query string) (PreparedStatements, error) {
		return Prepared(NewStatement(stmt, WithColumns(vTextColumns(1)))), nil
	}
	srv, err := NewServer(parse, MessageBufferSize(L+8))
	vAssert("newserver-ok", err == nil)
	w := &vWorld{srv: srv}
	w.conn = vNewConn(input)
	w.ses, w.rd, w.wr = vSession(srv, w.conn)
	w.ctx = vCtx(srv)
	vAllocLimits(4096, 65535)
	_, serr := w.step()
	vAllocCheck()
	_ = serr
	vAssert("wire-wellformed", vWireOK(w.conn.out))
	if length != 0xFFFFFFFF && int64(length) > int64(len(value)) {
		vAssert("truncated-field-is-no-row", rows == 0)
		vReach("field-longer-than-the-data")
	}
	if length >= 1<<31 && length != 0xFFFFFFFF {
		vReach("field-length-with-the-top-bit-set")
	}
	if rows > 0 {
		vReach("row-delivered")
	}
}

// ---------------------------------------------------------------------------
// H04b — wherever the connection breaks, handling ends (C04): serve on a
// valid startup followed by B arbitrary bytes, with the transport failing
// from a symbolic k-th Read or k-th Write on. serve returns within the step
// budget, no panic escapes, and the connection is closed.
// ---------------------------------------------------------------------------
func VerifH04b() {
	B := vParam("B", 8)
	rest := nondetBytes(vChoose(B + 1))
	for i := range rest {
		// Parse messages are exercised by H04a; here they are excluded so that
		// handleParse's empty loop over the declared 16-bit count (bounded, but
		// 65536 exits) does not swamp the exploration
		vAssume(rest[i] != 'P')
	}
	input := vCat(vStartup(vKV([]byte("user"), []byte("u"))), rest)
	w := vHelperWorld(nil, 16, false)
	conn := vNewConn(input)
	mode := vChoose(3)
	switch mode {
	case 1:
		conn.in.failAt = vChoose(4)
		vReach("read-failure")
	case 2:
		conn.failWriteAt = vChoose(9)
		vReach("write-failure")
	}
	eventsAtFailure := -1
	conn.onWriteFailure = func() { eventsAtFailure = len(w.events) }
	err := w.srv.serve(context.Background(), conn)
	vAssert("serve-returns-with-error-or-eof", err != nil)
	vAssert("connection-closed", conn.closed >= 1)
	if eventsAtFailure >= 0 {
		// once a write has failed the connection is done: no parser or statement
		// function is started for it any more
		vAssert("no-callback-starts-after-the-transport-failed", len(w.events) == eventsAtFailure)
		vReach("write-failed-during-the-session")
	}
	vAssert("wire-wellformed-prefix", vWireOK(conn.out))
	if mode == 0 {
		vReach("input-ended")
	}
}

// ---------------------------------------------------------------------------
// H04t — the transport starts failing, for good, at a point where the server
// waits for the client (C04): between two messages of a session, while it
// waits for the password, or while a handler reads COPY data (text reader or
// binary row reader, after zero or one CopyData). The fault's identity is the
// solver's choice — a plain error, a timeout-kind net.Error (an expired read
// deadline), io.ErrClosedPipe, io.ErrUnexpectedEOF, net.ErrClosed. In
// every case handling of the connection ends: serve returns, the connection is
// closed, nothing panics, the handler's read loop gets an error.
// ---------------------------------------------------------------------------
func VerifH04t() {
	where := vChoose(4) // 0 command loop, 1 password wait, 2 COPY text, 3 COPY binary
	fault := vFaultKind()
	// ... or the fault is on the way out: from some Write on, every Write fails
	// with that error (a client that stopped reading until a write deadline
	// expired): the reply that cannot be written ends the connection
	writeFault := nondetBool()
	copyReads := 0
	var copyErr error
	stmt := func(ctx context.Context, dw DataWriter, params []Parameter) error {
		if where < 2 {
			return dw.Complete("T")
		}
		format := TextFormat
		if where == 3 {
			format = BinaryFormat
		}
		cr, err := dw.CopyIn(format)
		if err != nil {
			return err
		}
		if where == 3 {
			br, err := NewBinaryColumnReader(ctx, cr)
			if err != nil {
				return err
			}
			for k := 0; k < 4; k++ {
				copyReads++
				if _, copyErr = br.Read(ctx); copyErr != nil {
					return copyErr
				}
			}
			return dw.Complete("COPY")
		}
		for k := 0; k < 4; k++ {
			copyReads++
			if copyErr = cr.Read(); copyErr != nil {
				return copyErr
			}
		}
		return dw.Complete("COPY")
	}
	parse := func(ctx context.Context, query string) (PreparedStatements, error) {
		return Prepared(NewStatement(stmt, WithColumns(vTextColumns(1)))), nil
	}
	opts := []OptionFn{MessageBufferSize(64)}
	input := vStartup(vKV([]byte("user"), []byte("u")))
	if where == 1 {
		opts = append(opts, SessionAuthStrategy(ClearTextPassword(func(ctx context.Context, db, user, pw string) (context.Context, bool, error) {
			return ctx, true, nil
		})))
	} else {
		input = vCat(input, vMsgBytes('Q', vCStr([]byte("q"))))
	}
	if where >= 2 && nondetBool() {
		if where == 3 {
			input = vCat(input, vMsgBytes('d', vCat(vCopyHeader, []byte{0, 1, 0, 0, 0, 1, 'v'})))
		} else {
			input = vCat(input, vMsgBytes('d', []byte("row\n")))
		}
		vReach("fault-after-a-copydata-message")
	}
	srv, err := NewServer(parse, opts...)
	vAssert("newserver-ok", err == nil)
	conn := vNewConn(input)
	if writeFault {
		conn.failWriteAt = vChoose(8)
		conn.failWriteErr = fault
		vReach("persistent-write-fault")
	} else {
		conn.in.endErr = fault
	}
	serr := srv.serve(context.Background(), conn)
	if writeFault && !conn.writeFailed {
		// (the session ended before the failing write was reached)
		return
	}
	vAssert("serve-returns-with-an-error", serr != nil)
	vAssert("connection-closed", conn.closed >= 1)
	vAssert("wire-wellformed-prefix", vWireOK(conn.out))
	if where >= 2 && !writeFault {
		vAssert("copy-read-loop-gets-an-error", copyErr != nil && copyErr != io.EOF)
		vReach("fault-during-copy-in")
	}
	if where == 1 {
		vReach("fault-while-waiting-for-the-password")
	}
}

// ---------------------------------------------------------------------------
// H04r — what a connection costs does not grow with the number of packets it
// sends before its start-up message (C04): K negotiation requests (SSLRequest
// or GSSENCRequest, the solver's choice each time) on a server without
// certificates, then a start-up packet and Terminate. However the server
// treats the repetition — it may end the connection at the second request —
// the depth of ITS call stack at a read does not grow from request to request
// (a stack that grows by a frame or two per request is overflowed by a client
// that sends a few million of them: the whole process dies).
// ---------------------------------------------------------------------------
func VerifH04r() {
	K := vParam("K", 6)
	var input []byte
	for k := 0; k < K; k++ {
		if nondetBool() {
			input = vCat(input, vSSLRequest)
		} else {
			input = vCat(input, []byte{0, 0, 0, 8, 0x04, 0xd2, 0x16, 0x30}) // GSSENCRequest
		}
	}
	input = vCat(input, vStartup(vKV([]byte("user"), []byte("u"))), vMsgBytes('X', nil))
	w := &vWorld{parseMenu: 2, execMenu: 2}
	srv, err := NewServer(w.parse, MessageBufferSize(64))
	vAssert("newserver-ok", err == nil)
	conn := vNewConn(input)
	conn.in.chunk = 8 // one request per read
	conn.trackDepth = true
	srv.serve(context.Background(), conn) //nolint
	vAssert("connection-closed", conn.closed >= 1)
	vAssert("at-least-one-read", len(conn.depths) >= 1)
	for i := range conn.depths {
		vAssert("call-stack-does-not-grow-with-the-number-of-requests", conn.depths[i] <= conn.depths[0]+6)
	}
	if len(conn.depths) >= 2 {
		vReach("several-reads")
	}
}

// ---------------------------------------------------------------------------
// H04p — a Parse message declares any number of pre-specified parameter types
// (C04, C03): counts around the 16-bit and the times-four boundaries (16383,
// 16384, 16385, 32767, 32768, 65535) with zero to two object ids actually
// present. Whatever the count says, nothing panics: the statement is stored
// (ParseComplete) or the message is rejected.
// ---------------------------------------------------------------------------
func VerifH04p() {
	counts := []int{0, 1, 2, 3, 16383, 16384, 16385, 32767, 32768, 65535}
	count := counts[vChoose(len(counts))]
	present := vChoose(3)
	body := vCat(vCStr(nil), vCStr([]byte("q")), vU16(count))
	for k := 0; k < present; k++ {
		body = append(body, vU32(nondetU32())...)
	}
	w := vNewWorld(vMsgBytes('P', body), 128)
	w.parseMenu = -2
	got, err := w.step()
	vAssert("parse-complete-or-rejected", err != nil || got == "1" || got == "E")
	if count >= 16384 {
		vReach("count-beyond-the-times-four-boundary")
	}
	if err == nil && got == "1" {
		vReach("parse-complete")
	}
}

// ---------------------------------------------------------------------------
// H04x — what the binary COPY row reader buffers does not grow with what the
// client DECLARES (C04): the file header of the stream carries any 32-bit flags
// and any 32-bit header-extension length; one hundred CopyData messages of 64
// bytes (the message limit) follow. However the reader treats the header, the
// window it keeps never exceeds the limit plus one allocation granule: the
// client cannot make it hold the stream.
// ---------------------------------------------------------------------------
func VerifH04x() {
	L := 64
	flags, ext := nondetU32(), nondetU32()
	first := vCat([]byte("PGCOPY\n\377\r\n\000"), vU32(flags), vU32(ext))
	chunk := make([]byte, L)
	for i := range chunk {
		chunk[i] = 0x7f
	}
	input := vMsgBytes('d', first)
	for k := 0; k < 100; k++ {
		input = vCat(input, vMsgBytes('d', chunk))
	}
	input = vCat(input, vMsgBytes('c', nil))
	w := vNewWorld(input, L)
	cr := NewCopyReader(w.rd, w.wr, vTextColumns(1))
	br, err := NewBinaryColumnReader(w.ctx, cr)
	vAssert("column-reader-ok", err == nil)
	largest := 0
	var endErr error
	for k := 0; k < 4; k++ {
		_, endErr = br.Read(w.ctx)
		if len(cr.Msg) > largest {
			largest = len(cr.Msg)
		}
		if endErr != nil {
			break
		}
	}
	vAssert("reader-gives-up-or-ends", endErr != nil)
	vAssert("window-bounded-by-the-limit-whatever-the-header-declares", largest <= L+4096)
	if ext > 1<<20 {
		vReach("huge-header-extension-declared")
	}
}

// ---------------------------------------------------------------------------
// H04d — a fresh connection sending B arbitrary bytes (C04)// ---------------------------------------------------------------------------
// H04d — a fresh connection sending B arbitrary bytes (C04): startup, SSL and
// cancel codes, truncated packets, absurd lengths. serve returns, nothing
// panics, the connection is closed, and no callback sees fabricated data.
// ---------------------------------------------------------------------------
func VerifH04d() {
	B := vParam("B", 10)
	input := nondetBytes(vChoose(B + 1))
	for i := 9; i < len(input); i++ {
		vAssume(input[i] != 'P') // same cut as in H04b for bytes behind a startup packet
	}
	w := vHelperWorld(nil, 16, false)
	conn := vNewConn(input)
	lim := 4096
	vAllocLimits(lim, 65535)
	err := w.srv.serve(context.Background(), conn)
	vAllocCheck()
	vAssert("serve-returns", err != nil || conn.closed >= 1)
	vAssert("connection-closed", conn.closed >= 1)
	types := vTypes(conn.out)
	if vCount(types, 'Z') > 0 {
		vReach("session-established")
	} else {
		vAssert("no-session-no-callback", len(w.events) == 0)
	}
	if len(conn.out) == 1 && conn.out[0] == 'N' {
		vReach("ssl-refused")
	}
}

// ---------------------------------------------------------------------------
// H04f — counts that disagree (C04): a statement with 0..COLS columns; a
// well-framed Bind carrying any number 0..COLS+1 of parameter-format codes,
// 0..2 parameter values and any number 0..COLS+1 of result-format codes
// (values symbolic) — including the counts the protocol does not admit
// (neither 0, 1 nor n) — then Describe portal, Execute, Sync. Nothing may
// crash, the connection survives to the Sync and every byte sent is
// well-formed.
// ---------------------------------------------------------------------------
func VerifH04f() {
	C := vParam("COLS", 3)
	nc := vChoose(C + 1)
	npf := vChoose(C + 2)
	nv := vChoose(3)
	nrf := vChoose(C + 2)
	body := vCat(vCStr(nil), vCStr(nil), vU16(npf))
	for i := 0; i < npf; i++ {
		body = append(body, vU16(int(nondetU16()))...)
	}
	body = append(body, vU16(nv)...)
	for i := 0; i < nv; i++ {
		if nondetBool() {
			body = append(body, 0xFF, 0xFF, 0xFF, 0xFF)
		} else {
			body = append(body, vU32(1)...)
			body = append(body, nondetByte())
		}
	}
	body = append(body, vU16(nrf)...)
	for i := 0; i < nrf; i++ {
		body = append(body, vU16(int(nondetU16()))...)
	}
	input := vCat(vMsgBytes('B', body), vMsgBytes('D', vCat([]byte{'P'}, vCStr(nil))),
		vMsgBytes('E', vCat(vCStr(nil), vU32(0))), vMsgBytes('S', nil))
	w := vNewWorld(input, 128)
	w.execMenu = 1
	vAssert("set-ok", w.ses.Statements.Set(w.ctx, "", w.mkStmt(nc, 0)) == nil)
	for k := 0; k < 4; k++ {
		_, err := w.step()
		vAssert("connection-stays-up", err == nil)
	}
	out := vTypes(w.conn.out)
	vAssert("wire-wellformed", vWireOK(w.conn.out))
	vAssert("one-ready-for-query-at-the-end", vCount(out, 'Z') == 1 && len(out) > 0 && out[len(out)-1] == 'Z')
	if nrf >= 2 && nrf < nc {
		vReach("fewer-result-formats-than-columns")
	}
	if nrf > nc {
		vReach("more-result-formats-than-columns")
	}
	if npf > nv {
		vReach("more-parameter-formats-than-values")
	}
}

// ---------------------------------------------------------------------------
// H04s — a hostile connection does not disturb the next one (C04): Serve on
// a listener that hands out a first connection sending B arbitrary bytes and
// then a second, well-behaved connection. Whatever the first one sends (and
// however its handling ends), nothing escapes its goroutine, Serve keeps
// accepting, and the second connection is served in full.
// ---------------------------------------------------------------------------
func VerifH04s() {
	B := vParam("B", 8)
	hostile := nondetBytes(vChoose(B + 1))
	if len(hostile) >= 9 {
		// (a complete Parse after a startup is H04b's business; see H04a for the cut)
		vAssume(hostile[8] != 'P')
	}
	w := &vWorld{parseMenu: -2, execMenu: 1}
	srv, err := NewServer(w.parse, MessageBufferSize(64))
	vAssert("newserver-ok", err == nil)
	good := vCat(vStartup(vKV([]byte("user"), []byte("u"))), vMsgBytes('Q', vCStr([]byte("q"))), vMsgBytes('X', nil))
	c1, c2 := vNewConn(hostile), vNewConn(good)
	c2.id = 1
	if !vSymbolic() {
		c1.doneCh, c2.doneCh = make(chan struct{}), make(chan struct{})
	}
	vFootBegin() // (goroutines started by Serve are executed at the go statement)
	vOrigin("accept-loop")
	serr := srv.Serve(&vListener2{conns: []net.Conn{c1, c2}})
	vOrigin("")
	c1.vAwaitClosed()
	c2.vAwaitClosed()
	vAssert("serve-keeps-accepting-until-the-listener-closes", serr == nil)
	vAssert("hostile-connection-closed", c1.closed >= 1)
	if len(c1.out) > 0 && c1.out[0] == 'N' {
		vAssert("hostile-output-wellformed", vWireOK(c1.out[1:]))
	} else {
		vAssert("hostile-output-wellformed", vWireOK(c1.out))
	}
	out := vTypes(c2.out)
	vAssert("second-connection-served-in-full", vWireOK(c2.out) && vCount(out, 'C') == 1 && vCount(out, 'Z') == 2 && c2.closed >= 1)
	if len(hostile) >= 8 {
		vReach("hostile-startup-sized")
	}
}

// ---------------------------------------------------------------------------
// H03f (C03, C04): ONE transient transport fault. A session's bytes arrive a
// few at a time; exactly one Read of the transport — which one is the solver's
// choice, so it falls between two messages, after a type byte, inside a length
// word or inside a body — fails with an error of the deadline kind
// (os.ErrDeadlineExceeded, bare or wrapped, as a connection wrapper with a
// rolling read deadline produces it) and delivers nothing; later Reads are
// served again. The first message's body carries the bytes of a complete Query
// message of its own. Whatever the library does about the fault — end the
// session, or go on — every message it acts on is one of the messages that
// were sent, in their order: bytes of a body are never taken for a message.
// ---------------------------------------------------------------------------
func VerifH03f() {
	var queries []string
	parse := func(ctx context.Context, query string) (PreparedStatements, error) {
		queries = append(queries, query)
		stmt := func(ctx context.Context, dw DataWriter, params []Parameter) error { return dw.Complete("T") }
		return Prepared(NewStatement(stmt)), nil
	}
	srv, err := NewServer(parse, MessageBufferSize(64))
	vAssert("newserver-ok", err == nil)
	inner := vMsgBytes('Q', vCStr([]byte("evil")))
	// (the query string ends at the first zero byte — inside the embedded
	// message's length word; what follows is surplus of the first message)
	// where the embedded message starts relative to the transport's segments is
	// the solver's choice too (0-2 bytes of padding before it)
	lead := []byte("a /*")
	switch vChoose(3) {
	case 1:
		lead = []byte("a  /*")
	case 2:
		lead = []byte("a   /*")
	}
	first := string(lead) + "Q"
	second := "b"
	input := vCat(vStartup(vKV([]byte("user"), []byte("u"))),
		vMsgBytes('Q', vCStr(vCat(lead, inner, []byte("*/")))), vMsgBytes('Q', vCStr([]byte(second))))
	conn := vNewConn(input)
	conn.in.chunk = vParam("CHUNK", 3)
	reads := (len(input) + conn.in.chunk - 1) / conn.in.chunk
	conn.in.failOnce = 1 + vChoose(reads)
	switch vChoose(3) {
	case 0:
		conn.in.failOnceErr = os.ErrDeadlineExceeded
	case 1:
		conn.in.failOnceErr = fmt.Errorf("verif: read: %w", os.ErrDeadlineExceeded)
	default:
		conn.in.failOnceErr = vTimeoutErr{}
	}
	srv.serve(context.Background(), conn) //nolint
	vAssert("at-most-the-messages-that-were-sent", len(queries) <= 2)
	for i, q := range queries {
		if i == 0 {
			vAssert("first-message-acted-on-is-the-first-sent", q == first)
		}
		if i == 1 {
			vAssert("second-message-acted-on-is-the-second-sent", q == second)
		}
	}
	body := conn.out
	vAssert("output-wellformed", vWireOK(body))
	vAssert("one-ReadyForQuery-per-message-acted-on-after-the-first", vCount(vTypes(body), 'Z') <= 1+len(queries))
	if conn.in.failedOnce {
		vReach("the-transient-fault-happened")
		if len(queries) == 1 {
			vReach("fault-after-the-first-message-was-acted-on")
		}
	}
}

// ---------------------------------------------------------------------------
// H06q — a Parse that pre-specifies MANY parameter types, all of them present
// (C06, C04): 16383, 16384, 16385, 32768 or 65535 object ids (four bytes each:
// the list crosses 65536 bytes at 16384) in a message below the limit. It is a
// legal Parse: answered with ParseComplete, and the Sync behind it with the one
// ReadyForQuery; the parse callback ran once.
// ---------------------------------------------------------------------------
func VerifH06q() {
	counts := []int{16383, 16384, 16385, 32768, 65535}
	count := counts[vChoose(len(counts))]
	body := vCat(vCStr(nil), vCStr([]byte("q")), vU16(count))
	ids := make([]byte, 4*count)
	ids[4*count-1] = nondetByte() // (the last object id: any value 0..255)
	body = append(body, ids...)
	w := vNewWorld(vCat(vMsgBytes('P', body), vMsgBytes('S', nil)), 300000)
	w.parseMenu = -2
	got, err := w.step()
	vAssert("a-legal-parse-is-answered-with-ParseComplete", err == nil && got == "1")
	got, err = w.step()
	vAssert("sync-answered-with-the-one-ReadyForQuery", err == nil && got == "Z")
	vAssert("parse-callback-ran-once", w.countEvents('p') == 1)
	if count >= 16384 {
		vReach("type-list-of-65536-bytes-and-more")
	}
}

// ---------------------------------------------------------------------------
// H04m — long client-chosen names in error replies (C04, C02, C06): a Bind
// (or a Describe, or an Execute) names a statement or portal that does not exist;
// the name is 4070..4077 bytes of 'a' followed by one to three arbitrary
// non-zero bytes (UTF-8 continuation bytes, lead bytes, anything), so that the
// error text crosses 4096 bytes at every alignment. The reply is one well-formed
// ErrorResponse, nothing panics, the Sync behind it is answered.
// ---------------------------------------------------------------------------
func VerifH04m() {
	n := 4070 + vChoose(8)
	tail := nondetBytes(1 + vChoose(3))
	vAssume(vNoNUL(tail))
	name := make([]byte, n)
	for i := range name {
		name[i] = 'a'
	}
	name = vCat(name, tail)
	var msg []byte
	switch vChoose(3) {
	case 0:
		msg = vMsgBytes('B', vCat(vCStr(nil), vCStr(name), vU16(0), vU16(0), vU16(0)))
	case 1:
		msg = vMsgBytes('D', vCat([]byte{'S'}, vCStr(name)))
	default:
		msg = vMsgBytes('E', vCat(vCStr(name), vU32(0)))
	}
	w := vNewWorld(vCat(msg, vMsgBytes('S', nil)), 8192)
	w.parseMenu = -2
	got, err := w.step()
	vAssert("unknown-name-is-one-ErrorResponse", err == nil && got == "E")
	got, err = w.step()
	vAssert("sync-answered", err == nil && got == "Z")
	vAssert("wire-wellformed", vWireOK(w.conn.out))
	vReach("error-text-longer-than-4096-bytes")
}

package wire

import (
	"os"
	"github.com/jeroenrinzema/psql-wire/codes"
	psqlerr "github.com/jeroenrinzema/psql-wire/errors"
	"io"
	"context"
	"errors"

	"github.com/jackc/pgx/v5/pgtype"
	"github.com/jeroenrinzema/psql-wire/pkg/buffer"
)

// vKV builds the parameter area of a startup packet.
func vKV(pairs ...[]byte) []byte {
	var out []byte
	for _, p := range pairs {
		out = append(out, vCStr(p)...)
	}
	return append(out, 0)
}

// vHasAuthOK: does the capture contain AuthenticationOk (R with int32 0)?
func vHasAuthOK(out []byte) bool {
	msgs, _ := vFrames(out)
	for _, m := range msgs {
		if m.typ == 'R' && len(m.body) == 4 && vBE32(m.body, 0) == 0 {
			return true
		}
	}
	return false
}

// ---------------------------------------------------------------------------
// H01b — rejected credentials never yield a session (C01), connection level.
// srv.serve with a valid startup packet (symbolic user/database), a symbolic
// password-phase message (any type byte, body of up to N arbitrary bytes,
// possibly cut short by EOF), a validator that accepts, rejects or fails, and
// M arbitrary continuation bytes.
// ---------------------------------------------------------------------------
func VerifH01b() {
	N := vParam("N", 3)
	M := vParam("M", 6)
	user := vSymText(1)
	db := vSymText(1)
	typ := nondetByte()
	blen := vChoose(N + 1)
	body := nondetBytes(blen)
	cut := vChoose(2) // 1: the stream ends inside the password message
	cont := nondetBytes(vChoose(M + 1))
	// 0 accept, 1 reject, 2 fail, 3 fail while claiming "valid" (an error is an error);
	// PANICS=1: 4 the validator panics with a string, 5 with an error value — the
	// embedder (this harness) recovers whatever escapes serve: a panic is never a "yes"
	outcome := vChoose(4 + 2*vParam("PANICS", 0))

	pw := vMsgBytes(typ, body)
	// the declared length itself may be invalid: below the 4-byte minimum, or
	// above the message limit (32) with the oversized body actually sent
	lenMode := vChoose(3)
	switch lenMode {
	case 1:
		pw[4] = byte(vChoose(4))
		vReach("password-length-below-minimum")
	case 2:
		big := make([]byte, 33+vChoose(2))
		pw = vMsgBytes(typ, big)
		vReach("password-length-above-limit")
	}
	if cut == 1 {
		vAssume(len(pw) > 1)
		pw = pw[:1+vChoose(len(pw)-1)]
		cont = nil
	}
	// surplus bytes inside the startup packet, after the parameter terminator:
	// they belong to that packet and must never be taken for a password
	surplus := nondetBytes(vChoose(vParam("SURPLUS", 3)))
	input := vCat(vStartup(vCat(vKV([]byte("user"), user, []byte("database"), db), surplus)), pw, cont)
	if len(surplus) > 0 && blen == 0 && lenMode == 0 && cut == 0 {
		vReach("bodyless-password-after-startup-surplus")
	}

	validatorCalls := 0
	var seenDB, seenUser, seenPw []byte
	// a validator that does not accept may hand back the context it was given or
	// no context at all (nil): both are ordinary ways to write "no"
	nilCtx := outcome != 0 && nondetBool()
	validate := func(ctx context.Context, database, username, password string) (context.Context, bool, error) {
		validatorCalls++
		seenDB, seenUser, seenPw = []byte(database), []byte(username), []byte(password)
		back := ctx
		if nilCtx {
			back = nil
		}
		switch outcome {
		case 0:
			return ctx, true, nil
		case 1:
			return back, false, nil
		case 2:
			return back, false, errors.New("validator failed")
		case 4:
			panic("validator: user directory unavailable")
		case 5:
			panic(errors.New("validator: user directory unavailable"))
		default:
			return back, true, errors.New("validator failed")
		}
	}
	middleware := 0
	w := &vWorld{parseMenu: 2, execMenu: 2}
	mwOpt := SessionMiddleware(func(ctx context.Context) (context.Context, error) { middleware++; return ctx, nil })
	var srv *Server
	var err error
	if nondetBool() {
		srv, err = NewServer(w.parse, MessageBufferSize(32), SessionAuthStrategy(ClearTextPassword(validate)), mwOpt)
	} else {
		// the embedder may set the strategy through the exported field after
		// construction instead of through the option
		srv, err = NewServer(w.parse, MessageBufferSize(32), mwOpt)
		if err == nil {
			srv.Auth = ClearTextPassword(validate)
		}
		vReach("strategy-set-through-the-exported-field")
	}
	vAssert("newserver-ok", err == nil)
	conn := vNewConn(input)
	var serveErr error
	panicked := false
	func() {
		defer func() {
			if r := recover(); r != nil {
				panicked = true
			}
		}()
		serveErr = srv.serve(context.Background(), conn)
	}()
	vAssert("only-a-panicking-validator-panics", !panicked || outcome >= 4)

	// reference: is the password message well-formed?
	nul := -1
	for i := 0; i < len(body); i++ {
		if body[i] == 0 {
			nul = i
			break
		}
	}
	wellFormed := cut == 0 && lenMode == 0 && typ == 'p' && nul >= 0
	accepted := wellFormed && outcome == 0

	vAssert("serve-returns-and-closes", conn.closed >= 1)
	vAssert("wire-wellformed", vWireOK(conn.out))
	types := vTypes(conn.out)
	vAssert("password-requested-first", len(types) >= 1 && types[0] == 'R')
	if wellFormed {
		vAssert("validator-consulted-once", validatorCalls == 1)
		vAssert("validator-sees-database", vEqBytes(seenDB, db))
		vAssert("validator-sees-user", vEqBytes(seenUser, user))
		vAssert("validator-sees-password", vEqBytes(seenPw, body[:nul]))
	} else {
		vAssert("validator-not-consulted-on-malformed", validatorCalls == 0)
	}
	if accepted {
		vAssert("accepted-sends-AuthenticationOk", vHasAuthOK(conn.out))
		vAssert("accepted-runs-middleware", middleware == 1)
		vAssert("accepted-ready", vCount(types, 'Z') >= 1)
		vReach("accepted")
		return
	}
	vAssertK("rejected-no-AuthenticationOk", "KF-C01-1", outcome == 1, !vHasAuthOK(conn.out))
	vAssertK("rejected-no-ParameterStatus", "KF-C01-1", outcome == 1, vCount(types, 'S') == 0)
	vAssertK("rejected-no-ReadyForQuery", "KF-C01-1", outcome == 1, vCount(types, 'Z') == 0)
	vAssertK("rejected-no-middleware", "KF-C01-1", outcome == 1, middleware == 0)
	vAssertK("rejected-nothing-parsed-or-executed", "KF-C01-1", outcome == 1, len(w.events) == 0)
	vAssertK("rejected-serve-returns-error", "KF-C01-1", outcome == 1, serveErr != nil || panicked)
	if wellFormed && outcome == 1 {
		msgs, _ := vFrames(conn.out)
		found := false
		for _, m := range msgs {
			if m.typ == 'E' {
				c, _ := vErrField(m.body, 'C')
				if len(c) == 5 && c[0] == '2' && c[1] == '8' {
					found = true
				}
			}
		}
		vAssert("wrong-password-reported-class-28", found)
		if len(cont) >= 5 {
			vReach("rejected-with-pipelined-bytes")
		}
	}
	if !wellFormed {
		vReach("malformed-password-message")
	}
	if wellFormed && nilCtx {
		vReach("rejecting-validator-returns-nil-context")
	}
	if wellFormed && outcome == 2 {
		vReach("validator-failed")
	}
	if wellFormed && outcome == 3 {
		vReach("validator-failed-claiming-valid")
	}
	if wellFormed && outcome == 4 {
		vReach("validator-panicked")
	}
}

// ---------------------------------------------------------------------------
// H12a — startup negotiation delivers parameters both ways, once, in order
// (C12): symbolic parameter area, configured global map, version string.
// ---------------------------------------------------------------------------
func VerifH12a() {
	N := vParam("N", 6)
	area := nondetBytes(vChoose(N + 1))
	// WELLKNOWN=1: the area starts with one pair whose key is a name that means
	// something to the server or to clients (too long for the arbitrary bytes to
	// spell) and whose value is symbolic
	if vParam("WELLKNOWN", 0) > 0 {
		keys := []string{"user", "database", "client_encoding", "server_encoding", "application_name",
			"is_superuser", "session_authorization", "server_version", "options"}
		key := keys[vChoose(len(keys))]
		val := nondetBytes(vChoose(3))
		vAssume(vNoNUL(val))
		area = vCat(vCStr([]byte(key)), vCStr(val), area)
		vReach("well-known-key")
	}
	// PQ=1: the area starts with two pairs whose keys carry the prefix reserved
	// for protocol options ("_pq_."), the same name twice or two names — the
	// solver's choice. Whatever the server makes of them, what it sends is
	// well-formed and the handlers see what the packet said.
	if vParam("PQ", 0) > 0 {
		names := []string{"_pq_.a", "_pq_.b"}
		k1, k2 := names[vChoose(2)], names[vChoose(2)]
		area = vCat(vCStr([]byte(k1)), vCStr([]byte("1")), vCStr([]byte(k2)), vCStr([]byte("2")), area)
		if k1 == k2 {
			vReach("protocol-option-repeated")
		}
	}
	// MANY > 0: the area starts with MANY distinct concrete pairs (k00=v, k01=v,
	// ...): any cap on the number of startup parameters below MANY is crossed
	many := vParam("MANY", 0)
	for m := many - 1; m >= 0; m-- {
		area = vCat(vCStr([]byte{'k', byte('0' + m/10%10), byte('0' + m%10), byte('a' + m/100)}), vCStr([]byte("v")), area)
	}
	// reference parse of the parameter area
	type kv struct{ k, v []byte }
	var pairs []kv
	ok := false
	i := 0
	for {
		j := vCString(area, i)
		if j < 0 {
			break
		}
		key := area[i : j-1]
		if len(key) == 0 {
			ok = true
			break
		}
		l := vCString(area, j)
		if l < 0 {
			break
		}
		pairs = append(pairs, kv{key, area[j : l-1]})
		i = l
	}
	lookup := func(key string) ([]byte, bool) {
		var val []byte
		found := false
		for _, p := range pairs {
			if vEqBytes(p.k, []byte(key)) {
				val, found = p.v, true
			}
		}
		return val, found
	}

	// configuration
	nglob := vChoose(3)
	var global Parameters
	var gk, gv [][]byte
	if nglob > 0 {
		global = Parameters{}
		for g := 0; g < nglob-1; g++ {
			k, v := vSymText(1), vSymText(1)
			// distinct from the built-in keys (which are all longer than one byte)
			gk, gv = append(gk, k), append(gv, v)
			global[ParameterStatus(string(k))] = string(v)
		}
	}
	// COLLIDE=1: the configured map may also carry a key the server reports
	// itself (its own value wins, the key is reported once) or server_version
	// (the configured value is reported unless the Version option overrides it)
	collideKey := ""
	if vParam("COLLIDE", 0) == 1 {
		if c := vChoose(6); c > 0 {
			collideKey = []string{"client_encoding", "server_encoding", "is_superuser", "session_authorization", "server_version"}[c-1]
			if global == nil {
				global = Parameters{}
			}
			global[ParameterStatus(collideKey)] = "LATIN1"
			vReach("configured-key-the-server-reports-itself")
		}
	}
	globalLen := len(global)
	withVersion := nondetBool()
	opts := []OptionFn{MessageBufferSize(64 + 8*many), GlobalParameters(global)}
	if withVersion {
		opts = append(opts, Version("15.1"))
	}
	var clientSeen, serverSeen Parameters
	var clientSeenSet bool
	opts = append(opts, SessionMiddleware(func(ctx context.Context) (context.Context, error) {
		clientSeen, serverSeen, clientSeenSet = ClientParameters(ctx), ServerParameters(ctx), true
		return ctx, nil
	}))
	w := &vWorld{parseMenu: 2, execMenu: 2}
	srv, err := vServerCfg(w.parse, opts...)
	vAssert("newserver-ok", err == nil)
	conn := vNewConn(vStartup(area))
	srv.serve(context.Background(), conn) //nolint

	vAssert("closed", conn.closed >= 1)
	vAssert("wire-wellformed", vWireOK(conn.out))
	types := vTypes(conn.out)
	if !ok {
		vAssert("malformed-startup-no-session", vCount(types, 'Z') == 0 && !clientSeenSet)
		vReach("missing-terminator")
		return
	}
	vAssert("session-established", clientSeenSet)
	// client parameters: exactly what the packet said (later duplicates win)
	distinct := 0
	for a, p := range pairs {
		dup := false
		for b := a + 1; b < len(pairs); b++ {
			if vEqBytes(pairs[b].k, p.k) {
				dup = true
			}
		}
		if !dup {
			distinct++
			want, _ := lookup(string(p.k))
			got, has := clientSeen[ParameterStatus(string(p.k))]
			vAssert("client-parameter-present", has)
			vAssert("client-parameter-value", vEqStr(got, string(want)))
		} else {
			vReach("duplicate-key")
		}
	}
	vAssert("client-parameter-count", len(clientSeen) == distinct)

	// server reply: R(0), then one S per key, then exactly one Z('I')
	msgs, _ := vFrames(conn.out)
	vAssert("starts-with-AuthenticationOk", len(msgs) >= 1 && msgs[0].typ == 'R' && vBE32(msgs[0].body, 0) == 0)
	nS := 0
	k := 1
	for k < len(msgs) && msgs[k].typ == 'S' {
		nS++
		k++
	}
	builtin := 4
	if withVersion {
		builtin = 5
	}
	extra := globalLen
	if collideKey != "" && (collideKey != "server_version" || withVersion) {
		extra-- // not a key of its own: the server's value is the one reported
	}
	vAssert("one-ParameterStatus-per-key", nS == builtin+extra)
	vAssert("then-ReadyForQuery-idle", k < len(msgs) && msgs[k].typ == 'Z' && msgs[k].body[0] == 'I')
	vAssert("exactly-one-ReadyForQuery-after-startup", vCount(types, 'Z') == 1 && vCount(types, 'S') == nS)
	psValue := func(key string) ([]byte, int) {
		var val []byte
		n := 0
		for _, m := range msgs {
			if m.typ == 'S' {
				e := vCString(m.body, 0)
				if vEqBytes(m.body[:e-1], []byte(key)) {
					val = m.body[e : len(m.body)-1]
					n++
				}
			}
		}
		return val, n
	}
	expectPS := func(label, key string, want []byte) {
		val, n := psValue(key)
		vAssert(label+"-once", n == 1)
		vAssert(label+"-value", vEqBytes(val, want))
	}
	expectPS("server_encoding", "server_encoding", []byte("UTF8"))
	expectPS("client_encoding", "client_encoding", []byte("UTF8"))
	expectPS("is_superuser", "is_superuser", []byte("off"))
	userVal, _ := lookup("user")
	expectPS("session_authorization", "session_authorization", userVal)
	if withVersion {
		expectPS("server_version", "server_version", []byte("15.1"))
		vReach("with-version")
	} else if collideKey == "server_version" {
		expectPS("configured-server_version", "server_version", []byte("LATIN1"))
	}
	for g := range gk {
		dupKey := false
		for h := g + 1; h < len(gk); h++ {
			if vEqBytes(gk[h], gk[g]) {
				dupKey = true
			}
		}
		if !dupKey {
			expectPS("configured", string(gk[g]), gv[g])
		}
	}
	// the configured map is untouched and not the per-connection one
	vAssert("global-map-not-grown", len(global) == globalLen)
	for g := range gk {
		last := g
		for h := g + 1; h < len(gk); h++ {
			if vEqBytes(gk[h], gk[g]) {
				last = h
			}
		}
		vAssert("global-map-entries-intact", vEqStr(global[ParameterStatus(string(gk[g]))], string(gv[last])))
	}
	vAssert("server-parameters-visible", len(serverSeen) == builtin+extra)
	if collideKey != "" {
		vAssert("configured-map-keeps-its-own-value", global[ParameterStatus(collideKey)] == "LATIN1")
	}
	if _, has := lookup("user"); has {
		vReach("user-given")
	}
	if many > 0 {
		vReach("many-startup-parameters")
	}
}

// H12b — a CancelRequest is closed without any protocol reply or callback.
func VerifH12b() {
	afterSSL := vChoose(2)
	var input []byte
	if afterSSL == 1 {
		input = append(input, 0, 0, 0, 8, 0x04, 0xd2, 0x16, 0x2f) // SSLRequest
	}
	cancel := []byte{0, 0, 0, 16, 0x04, 0xd2, 0x16, 0x2e}
	cancel = append(cancel, nondetBytes(8)...) // pid + secret
	input = append(input, cancel...)
	input = append(input, nondetBytes(vChoose(6))...)
	w := &vWorld{parseMenu: 2, execMenu: 2}
	mw := 0
	// every hook an embedder can configure is a callback: session middleware,
	// authentication strategy, connection-close and terminate hooks
	hooks := 0
	srv, err := NewServer(w.parse, MessageBufferSize(64),
		SessionMiddleware(func(ctx context.Context) (context.Context, error) { mw++; return ctx, nil }),
		SessionAuthStrategy(func(ctx context.Context, writer *buffer.Writer, reader *buffer.Reader) (context.Context, error) {
			hooks++
			return ctx, nil
		}),
		CloseConn(func(ctx context.Context) error { hooks++; return nil }),
		TerminateConn(func(ctx context.Context) error { hooks++; return nil }))
	vAssert("newserver-ok", err == nil)
	conn := vNewConn(input)
	srv.serve(context.Background(), conn) //nolint
	vAssert("closed", conn.closed >= 1)
	vAssert("no-hook-invoked", hooks == 0)
	if afterSSL == 1 {
		vAssert("only-the-ssl-refusal", len(conn.out) == 1 && conn.out[0] == 'N')
		vReach("cancel-after-ssl")
	} else {
		vAssert("no-reply", len(conn.out) == 0)
		vReach("cancel-first")
	}
	vAssert("no-callback", mw == 0 && len(w.events) == 0)
}

// ---------------------------------------------------------------------------
// H07b — names of one connection are invisible to another (C07): two
// connections served by one Server through the real serve path, using the
// same (symbolic) names.
// ---------------------------------------------------------------------------
func VerifH07b() {
	name := vSymName()
	portal := vSymName()
	sync := vMsgBytes('S', nil)
	start := vStartup(vKV([]byte("user"), []byte("u")))
	first := vCat(start,
		vMsgBytes('P', vCat(vCStr(name), vCStr([]byte("q")), vU16(0))),
		vMsgBytes('B', vCat(vCStr(portal), vCStr(name), vU16(0), vU16(0), vU16(0))), sync)
	second := vCat(start,
		vMsgBytes('B', vCat(vCStr(portal), vCStr(name), vU16(0), vU16(0), vU16(0))), sync,
		vMsgBytes('D', vCat([]byte{'S'}, vCStr(name))), sync,
		vMsgBytes('E', vCat(vCStr(portal), vU32(0))), sync)
	w := &vWorld{parseMenu: -1, execMenu: 1}
	srv, err := NewServer(w.parse, MessageBufferSize(64))
	vAssert("newserver-ok", err == nil)
	// the first connection says goodbye (Terminate) or is simply dropped by its
	// peer at a message boundary, or in the middle of a message
	switch vChoose(3) {
	case 0:
		first = vCat(first, vMsgBytes('X', nil))
	case 1:
		first = vCat(first, []byte{'Q', 0, 0})
		vReach("first-connection-dropped-inside-a-message")
	default:
		vReach("first-connection-dropped-without-terminate")
	}
	c1 := vNewConn(first)
	srv.serve(context.Background(), c1) //nolint
	t1 := vTypes(c1.out)
	vAssert("first-connection-defines", vCount(t1, '1') == 1 && vCount(t1, '2') == 1)
	c2 := vNewConn(second)
	srv.serve(context.Background(), c2) //nolint
	t2 := vTypes(c2.out)
	vAssert("second-connection-sees-nothing", vCount(t2, '2') == 0 && vCount(t2, 't') == 0 && vCount(t2, 'D') == 0 && vCount(t2, 'C') == 0)
	vAssert("second-connection-gets-three-errors", vCount(t2, 'E') == 3)
	vAssert("no-statement-ran", w.countEvents('x') == 0)
	vReach("isolated")
}

type vKey int

// ---------------------------------------------------------------------------
// H19 — session lifecycle (C19): m middlewares through the real option
// functions, failing position symbolic; a command history follows. Order,
// context propagation, per-command cancellation, terminate hook.
// ---------------------------------------------------------------------------
func VerifH19() {
	MW := vParam("MW", 2)
	K := vParam("K", 2)
	m := vChoose(MW + 1)
	failAt := vChoose(m+1) - 1 // -1: none fails
	withHook := nondetBool()

	var order []int
	var outAtMw []int
	var conn *vConn
	var sessionCtx context.Context
	w := &vWorld{parseMenu: 2, execMenu: 2}
	opts := []OptionFn{MessageBufferSize(64)}
	mwErrKind := 0
	if failAt >= 0 {
		mwErrKind = vChoose(4)
		if mwErrKind > 0 {
			vReach("middleware-error-with-a-notice-level-severity")
		}
	}
	for i := 0; i < m; i++ {
		i := i
		opts = append(opts, SessionMiddleware(func(ctx context.Context) (context.Context, error) {
			order = append(order, i)
			outAtMw = append(outAtMw, len(conn.out))
			for j := 0; j < i; j++ {
				v, ok := ctx.Value(vKey(j)).(int)
				vAssert("middleware-receives-predecessors-context", ok && v == j)
			}
			vAssert("middleware-does-not-see-successors", ctx.Value(vKey(i)) == nil)
			if i == failAt {
				// (whatever the error says about itself — a notice-level severity, a
				// code — a middleware that returns an error has refused the session)
				switch mwErrKind {
				case 1:
					return ctx, psqlerr.WithSeverity(errors.New("middleware failed"), psqlerr.LevelWarning)
				case 2:
					return ctx, psqlerr.WithSeverity(psqlerr.WithCode(errors.New("middleware failed"), codes.Warning), psqlerr.LevelNotice)
				case 3:
					return nil, psqlerr.WithSeverity(errors.New("middleware failed"), psqlerr.LevelLog)
				}
				return ctx, errors.New("middleware failed")
			}
			ctx = context.WithValue(ctx, vKey(i), i)
			sessionCtx = ctx
			return ctx, nil
		}))
	}
	hook := 0
	closedAtHook, eventsAtHook := -1, 0
	// the hook may itself fail: the Terminate still ends the session — once,
	// nothing behind it is served, the connection is closed
	hookFails := withHook && nondetBool()
	if withHook {
		opts = append(opts, TerminateConn(func(ctx context.Context) error {
			hook++
			if closedAtHook < 0 {
				closedAtHook = conn.closed
				eventsAtHook = len(w.events)
			}
			if hookFails {
				return errors.New("verif: the terminate hook failed")
			}
			return nil
		}))
		if hookFails {
			vReach("terminate-hook-that-fails")
		}
	}
	// AUTH=1: clear-text password authentication whose validator accepts and
	// hands back a context of its own making (derived from the one it was given,
	// carrying one more value): that context is the session's from then on
	withAuth := vParam("AUTH", 0) == 1 && nondetBool()
	if withAuth {
		opts = append(opts, SessionAuthStrategy(ClearTextPassword(func(ctx context.Context, db, user, pw string) (context.Context, bool, error) {
			return context.WithValue(ctx, vKey(99), 99), true, nil
		})))
		vReach("validator-returns-a-derived-context")
	}
	customCaches := nondetBool() // configuration: user-supplied statement and portal caches
	if customCaches {
		opts = append(opts, Statements(func() StatementCache { return vNewStmtCache() }),
			Portals(func() PortalCache { return vNewPortalCache() }))
	}
	srv, err := vServerCfg(w.parse, opts...)
	vAssert("newserver-ok", err == nil)

	input := vStartup(vKV([]byte("user"), []byte("u")))
	// the client may also send parameters whose value is empty (present, but
	// empty — legal): they take nothing away from the others
	emptyValued := nondetBool()
	if emptyValued {
		input = vStartup(vKV([]byte("application_name"), nil, []byte("user"), []byte("u"), []byte("options"), nil))
		vReach("startup-parameters-with-empty-values")
	}
	if withAuth {
		input = vCat(input, vMsgBytes('p', vCStr([]byte("pw"))))
	}
	sawX := false
	nX := 0
	for k := 0; k < K; k++ {
		switch vChoose(5) {
		case 0:
			q := []byte{nondetByte()}
			vAssume(q[0] > ' ')
			input = append(input, vMsgBytes('Q', vCStr(q))...)
		case 1:
			input = append(input, vMsgBytes('P', vCat(vCStr(nil), vCStr([]byte("q")), vU16(0)))...)
		case 2:
			input = append(input, vMsgBytes('B', vCat(vCStr(nil), vCStr(nil), vU16(0), vU16(0), vU16(0)))...)
		case 3:
			input = append(input, vMsgBytes('E', vCat(vCStr(nil), vU32(0)))...)
		case 4:
			input = append(input, vMsgBytes('X', nil)...)
			if !sawX {
				nX++
			}
			sawX = true
		}
	}
	conn = vNewConn(input)
	srv.serve(context.Background(), conn) //nolint

	vAssert("closed", conn.closed >= 1)
	vAssert("wire-wellformed", vWireOK(conn.out))
	types := vTypes(conn.out)
	ran := m
	if failAt >= 0 {
		ran = failAt + 1
	}
	vAssert("each-middleware-once-in-order", len(order) == ran)
	for i := range order {
		vAssert("registration-order", order[i] == i)
		pre := vTypes(conn.out[:outAtMw[i]])
		vAssert("middleware-after-auth-and-parameters", len(pre) >= 1 && pre[0] == 'R' && vCount(pre, 'S') >= 4)
		if withAuth {
			vAssert("middleware-after-AuthenticationOk", vHasAuthOK(conn.out[:outAtMw[i]]))
		}
		vAssert("middleware-before-first-ReadyForQuery", vCount(pre, 'Z') == 0)
	}
	if failAt >= 0 {
		vAssert("middleware-error-no-ReadyForQuery", vCount(types, 'Z') == 0)
		vAssert("middleware-error-no-command-served", len(w.events) == 0 && hook == 0)
		vReach("middleware-failed")
		return
	}
	vAssert("ready-after-middlewares", vCount(types, 'Z') >= 1)
	var connTypes *pgtype.Map
	for _, e := range w.events {
		if e.kind != 'p' && e.kind != 'x' {
			continue
		}
		for j := 0; j < m; j++ {
			v, ok := e.ctx.Value(vKey(j)).(int)
			vAssert("callback-context-carries-middleware-values", ok && v == j)
		}
		if withAuth {
			v, ok := e.ctx.Value(vKey(99)).(int)
			vAssert("callback-context-carries-the-validator's-value", ok && v == 99)
		}
		vAssert("callback-context-live-while-the-command-runs", e.live)
		vAssert("callback-context-client-parameters", ClientParameters(e.ctx)["user"] == "u")
		vAssert("callback-context-server-parameters", ServerParameters(e.ctx)[ParamServerEncoding] == "UTF8")
		vAssert("callback-context-remote-address", RemoteAddress(e.ctx) != nil)
		vAssert("callback-context-type-map", TypeMap(e.ctx) != nil)
		if connTypes == nil {
			connTypes = TypeMap(e.ctx)
		}
		vAssert("callback-context-type-map-per-connection", TypeMap(e.ctx) == connTypes)
		vAssert("command-context-cancelled-when-command-ends", e.ctx.Err() != nil)
		vReach("callback-context-checked")
	}
	if m > 0 {
		vAssert("session-context-not-cancelled", sessionCtx.Err() == nil)
	}
	// Terminate: only the first X can be reached through a live loop
	if sawX {
		if withHook {
			// the session ends with the first Terminate: the hook runs exactly once,
			// before the connection is closed, and nothing pipelined behind the
			// Terminate is served any more
			vAssert("terminate-hook-exactly-once", hook == 1)
			vAssert("terminate-hook-before-close", closedAtHook == 0)
			vAssert("nothing-served-after-terminate", len(w.events) == eventsAtHook)
			vReach("terminate-with-hook")
		} else {
			vReach("terminate-without-hook")
		}
	} else {
		vAssert("no-terminate-no-hook", hook == 0)
	}
	if m == 2 {
		vReach("two-middlewares")
	}
	if customCaches && w.countEvents('x') > 0 {
		vReach("custom-caches-executed")
	}
}

// user-supplied caches (the Statements / Portals options). The fields of
// Statement and Portal are unexported, so what a user can write against the
// exported interfaces is a cache of their own (own keys, own bookkeeping) that
// hands the storing to the library's default implementations. These two do
// not implement the optional closer interfaces.
type vStmtCache struct {
	inner StatementCache
	sets  int
}

func vNewStmtCache() *vStmtCache { return &vStmtCache{inner: DefaultStatementCacheFn()} }

func (c *vStmtCache) Set(ctx context.Context, name string, stmt *PreparedStatement) error {
	c.sets++
	return c.inner.Set(ctx, name, stmt)
}
func (c *vStmtCache) Get(ctx context.Context, name string) (*Statement, error) {
	return c.inner.Get(ctx, name)
}

type vPortalCache struct {
	inner PortalCache
	binds int
	// direct: the cache keeps the portals itself and runs the statement function
	// itself with the context it is handed (an implementation inside the module,
	// or one written against a future exported accessor) instead of delegating;
	// the choice is the solver's
	direct bool
	m      map[string]*Portal
}

func vNewPortalCache() *vPortalCache {
	return &vPortalCache{inner: DefaultPortalCacheFn(), direct: nondetBool(), m: map[string]*Portal{}}
}

func (c *vPortalCache) Bind(ctx context.Context, name string, stmt *Statement, params []Parameter, formats []FormatCode) error {
	c.binds++
	if c.direct {
		c.m[name] = &Portal{statement: stmt, parameters: params, formats: formats}
		return nil
	}
	return c.inner.Bind(ctx, name, stmt, params, formats)
}
func (c *vPortalCache) Get(ctx context.Context, name string) (*Portal, error) {
	if c.direct {
		return c.m[name], nil
	}
	return c.inner.Get(ctx, name)
}
func (c *vPortalCache) Execute(ctx context.Context, name string, reader *buffer.Reader, writer *buffer.Writer) error {
	if c.direct {
		p := c.m[name]
		if p == nil {
			return NewErrUnkownStatement(name)
		}
		vReach("portal-cache-that-runs-the-statement-itself")
		return p.statement.fn(ctx, NewDataWriter(ctx, p.statement.columns, p.formats, reader, writer), p.parameters)
	}
	return c.inner.Execute(ctx, name, reader, writer)
}

// ---------------------------------------------------------------------------
// H19l — the session context keeps carrying the connection's own parameters
// over a long session (C19, C18): QUERIES simple queries of about a kilobyte
// each (more than the reader's 4 KiB allocation granule in total, the last one
// with a symbolic byte), every parser and statement call recording the context
// it was given. After the last one, every recorded context still yields the
// client parameters of the start-up packet and the server parameters derived
// from them.
// ---------------------------------------------------------------------------
func VerifH19l() {
	n := vParam("QUERIES", 6)
	user := vSymText(2)
	var ctxs []context.Context
	stmt := func(ctx context.Context, dw DataWriter, params []Parameter) error {
		ctxs = append(ctxs, ctx)
		return dw.Complete("T")
	}
	parse := func(ctx context.Context, query string) (PreparedStatements, error) {
		ctxs = append(ctxs, ctx)
		return Prepared(NewStatement(stmt)), nil
	}
	srv, err := NewServer(parse, MessageBufferSize(2048))
	vAssert("newserver-ok", err == nil)
	input := vStartup(vKV([]byte("user"), user, []byte("database"), []byte("d"), []byte("application_name"), []byte("verif")))
	for k := 0; k < n; k++ {
		q := make([]byte, 1000)
		for i := range q {
			q[i] = byte('a' + k)
		}
		if k == n-1 {
			q[999] = nondetByte()
			vAssume(q[999] != 0)
		}
		input = vCat(input, vMsgBytes('Q', vCStr(q)))
	}
	input = vCat(input, vMsgBytes('X', nil))
	conn := vNewConn(input)
	srv.serve(context.Background(), conn) //nolint
	vAssert("every-query-served", len(ctxs) == 2*n && vCount(vTypes(conn.out), 'C') == n)
	for _, ctx := range ctxs {
		cp := ClientParameters(ctx)
		vAssert("client-parameters-intact-after-a-long-session", vEqStr(cp[ParamUsername], string(user)) && cp[ParamDatabase] == "d" && cp["application_name"] == "verif")
		vAssert("server-parameters-intact-after-a-long-session", vEqStr(ServerParameters(ctx)[ParamSessionAuthorization], string(user)))
	}
	vReach("more-than-a-granule-of-traffic")
}

// H19x — exactly one Terminate: the hook runs exactly once and the
// connection is closed when its handler returns; nothing after X is answered.
func VerifH19x() {
	withHook := nondetBool()
	hook := 0
	w := &vWorld{parseMenu: 2, execMenu: 2}
	opts := []OptionFn{MessageBufferSize(64)}
	hookErr := error(nil)
	if withHook && nondetBool() {
		hookErr = errors.New("verif: the terminate hook failed")
		vReach("hook-that-fails")
	}
	if withHook {
		opts = append(opts, TerminateConn(func(ctx context.Context) error { hook++; return hookErr }))
	}
	srv, err := NewServer(w.parse, opts...)
	vAssert("newserver-ok", err == nil)
	// (a Query is pipelined behind the Terminate: it is never served)
	input := vCat(vMsgBytes('X', nil), vMsgBytes('Q', vCStr([]byte("q"))))
	wd := &vWorld{srv: srv}
	wd.conn = vNewConn(input)
	wd.ses, wd.rd, wd.wr = vSession(srv, wd.conn)
	wd.ctx = vCtx(srv)
	got, stepErr := wd.step()
	vAssert("terminate-no-reply", got == "")
	// (the command loop's own way of ending — nil and carry on into a closed
	// connection, or io.EOF — is an internal matter; any other error is not)
	vAssert("terminate-step-ok", stepErr == nil || stepErr == io.EOF || (hookErr != nil && stepErr == hookErr))
	if hookErr != nil {
		// a failed hook: the session ends by this error (the caller of the command
		// loop, serve, closes the connection) or the loop has closed it itself —
		// it does not carry on serving
		vAssert("terminate-with-a-failed-hook-ends-the-session", stepErr != nil || wd.conn.closed == 1)
		if stepErr == nil {
			_, again := wd.step()
			vAssert("nothing-behind-a-terminate-is-served", len(w.events) == 0 && again != nil)
		}
	} else {
		vAssert("terminate-closes-connection", wd.conn.closed == 1)
	}
	if withHook {
		vAssert("terminate-hook-exactly-once", hook == 1)
		vReach("hook")
	} else {
		vReach("no-hook")
	}
}

// ---------------------------------------------------------------------------
// H12c — the transport starts failing during the startup reply (C12, C04):
// every Write from the k-th on fails. The startup sequence contains no user
// code between its writes, so the first failed write must end it: no further
// write is attempted, no callback runs, serve returns the error and the
// connection is closed.
// ---------------------------------------------------------------------------
func VerifH12c() {
	k := vChoose(vParam("WRITES", 7))
	withAuth := nondetBool()
	mw := 0
	w := &vWorld{parseMenu: 2, execMenu: 2}
	opts := []OptionFn{MessageBufferSize(64),
		SessionMiddleware(func(ctx context.Context) (context.Context, error) { mw++; return ctx, nil })}
	if withAuth {
		opts = append(opts, SessionAuthStrategy(ClearTextPassword(func(ctx context.Context, db, user, pw string) (context.Context, bool, error) {
			return ctx, true, nil
		})))
	}
	srv, err := NewServer(w.parse, opts...)
	vAssert("newserver-ok", err == nil)
	input := vStartup(vKV([]byte("user"), []byte("u")))
	if withAuth {
		input = vCat(input, vMsgBytes('p', vCStr([]byte("x"))))
	}
	input = vCat(input, vMsgBytes('Q', vCStr([]byte("q"))))
	conn := vNewConn(input)
	conn.failWriteAt = k
	serr := srv.serve(context.Background(), conn)
	startupWrites := 6 // R, 4 x S, Z (no configured parameters, no version)
	if withAuth {
		startupWrites = 7
	}
	if k < startupWrites {
		vAssert("startup-write-failure-ends-serve", serr != nil)
		vAssert("startup-write-failure-no-further-write", conn.writesAfterFailure == 0)
		vAssert("startup-write-failure-no-command-callback", len(w.events) == 0)
		if k < startupWrites-1 {
			vAssert("startup-write-failure-no-middleware", mw == 0)
		}
		vAssert("closed", conn.closed >= 1)
		if k == 0 {
			vReach("first-write-fails")
		}
		if withAuth && k == 1 {
			vReach("auth-ok-write-fails")
		}
	}
}

// H19e — the extended-query path end to end (Parse, Bind, Execute, Sync) with
// default or user-supplied caches: the statement function's context carries
// the session values and is cancelled once the Execute command has ended.
func VerifH19e() {
	customCaches := nondetBool()
	w := &vWorld{parseMenu: -2, execMenu: 1}
	opts := []OptionFn{MessageBufferSize(64),
		SessionMiddleware(func(ctx context.Context) (context.Context, error) {
			return context.WithValue(ctx, vKey(7), 7), nil
		})}
	if customCaches {
		opts = append(opts, Statements(func() StatementCache { return vNewStmtCache() }),
			Portals(func() PortalCache { return vNewPortalCache() }))
	}
	srv, err := NewServer(w.parse, opts...)
	vAssert("newserver-ok", err == nil)
	// statement and portal are the unnamed ones or named ones (symbolic names):
	// a named object outlives its command, the command's context does not
	sn, pn := vSymName(), vSymName()
	input := vCat(vStartup(vKV([]byte("user"), []byte("u"))),
		vMsgBytes('P', vCat(vCStr(sn), vCStr([]byte("q")), vU16(0))),
		vMsgBytes('B', vCat(vCStr(pn), vCStr(sn), vU16(0), vU16(0), vU16(0))),
		vMsgBytes('E', vCat(vCStr(pn), vU32(0))),
		vMsgBytes('S', nil))
	if len(sn) > 0 && len(pn) > 0 {
		vReach("named-statement-and-portal")
	}
	conn := vNewConn(input)
	srv.serve(context.Background(), conn) //nolint
	execs := 0
	for _, e := range w.events {
		if e.kind != 'x' && e.kind != 'p' {
			continue
		}
		if e.kind == 'x' {
			execs++
		}
		v, ok := e.ctx.Value(vKey(7)).(int)
		vAssert("callback-context-carries-session-values", ok && v == 7)
		vAssert("command-context-cancelled-when-command-ends", e.ctx.Err() != nil)
	}
	vAssert("statement-executed-once", execs == 1)
	vAssert("replies", vCount(vTypes(conn.out), 'C') == 1 && vWireOK(conn.out))
	if customCaches {
		vReach("custom-caches")
	} else {
		vReach("default-caches")
	}
}

// ---------------------------------------------------------------------------
// H19c — a connection's context stays its own (C19, C12): two connections of
// different users are served by one server (configured parameter map nil /
// empty / one entry; with or without a version); each connection's parser
// keeps the context it was called with. After BOTH have been served, the
// first connection's context still carries its own client parameters, its own
// server parameters (session_authorization = its user), its own remote
// address and its own type map.
// ---------------------------------------------------------------------------
func VerifH19c() {
	u1, u2 := vSymText(1), vSymText(1)
	var global Parameters
	gkind := vChoose(3)
	switch gkind {
	case 1:
		global = Parameters{}
	case 2:
		global = Parameters{"app": "v"}
	}
	opts := []OptionFn{MessageBufferSize(64), GlobalParameters(global)}
	if nondetBool() {
		opts = append(opts, Version("15"))
	}
	// the option may be given more than once (whichever way the library
	// combines them, it never writes into a map the caller handed in)
	var second Parameters
	twice := nondetBool()
	if twice {
		second = Parameters{"second": "w"}
		opts = append(opts, GlobalParameters(second))
	}
	// a terminate hook: it runs once for EVERY connection that sends Terminate,
	// with that connection's context
	var hooks [2]int
	withHook := nondetBool()
	if withHook {
		opts = append(opts, TerminateConn(func(ctx context.Context) error {
			hooks[RemoteAddress(ctx).(vAddr).id]++
			return nil
		}))
	}
	var kept [2]context.Context
	parse := func(ctx context.Context, query string) (PreparedStatements, error) {
		kept[RemoteAddress(ctx).(vAddr).id] = ctx
		fn := func(ctx context.Context, dw DataWriter, params []Parameter) error { return dw.Complete("T") }
		return Prepared(NewStatement(fn)), nil
	}
	srv, err := vServerCfg(parse, opts...)
	vAssert("newserver-ok", err == nil)
	traffic := func(u []byte) []byte {
		return vCat(vStartup(vKV([]byte("user"), u)), vMsgBytes('Q', vCStr([]byte("q"))), vMsgBytes('X', nil))
	}
	c1, c2 := vNewConn(traffic(u1)), vNewConn(traffic(u2))
	c2.id = 1
	srv.serve(context.Background(), c1) //nolint
	srv.serve(context.Background(), c2) //nolint
	vAssert("both-parsers-ran", kept[0] != nil && kept[1] != nil)
	if withHook {
		vAssert("terminate-hook-once-for-each-connection", hooks[0] == 1 && hooks[1] == 1)
		vReach("terminate-hook-on-both-connections")
	}
	if kept[0] == nil || kept[1] == nil {
		return
	}
	check := func(label string, ctx context.Context, u []byte, id int) {
		vAssert(label+"-client-parameters-own", vEqStr(ClientParameters(ctx)[ParamUsername], string(u)))
		vAssert(label+"-server-parameters-own", vEqStr(ServerParameters(ctx)[ParamSessionAuthorization], string(u)))
		vAssert(label+"-remote-address-own", RemoteAddress(ctx).(vAddr).id == id)
		vAssert(label+"-type-map-present", TypeMap(ctx) != nil)
	}
	check("first", kept[0], u1, 0)
	check("second", kept[1], u2, 1)
	vAssert("type-maps-are-per-connection", TypeMap(kept[0]) != TypeMap(kept[1]))
	vAssert("server-parameter-maps-are-per-connection", len(ServerParameters(kept[0])) == len(ServerParameters(kept[1])))
	if gkind == 2 {
		vAssert("configured-map-untouched", len(global) == 1 && global["app"] == "v")
		vReach("configured-map-with-an-entry")
	}
	if gkind == 1 {
		vAssert("configured-empty-map-untouched", len(global) == 0)
	}
	if twice {
		vAssert("second-configured-map-untouched", len(second) == 1 && second["second"] == "w")
		vReach("parameters-configured-twice")
	}
	if !vEqBytes(u1, u2) {
		vReach("different-users")
	}
}

// ---------------------------------------------------------------------------
// H12t — ONE refused write during the start-up reply (C12, C02): exactly one
// Write of the transport (the solver's choice among the writes that carry
// AuthenticationOk, the ParameterStatus messages and ReadyForQuery) is refused
// with nothing accepted — a deadline-kind, timeout or opaque error — and later
// Writes would be accepted again. The start-up sequence has no user code between
// its writes that could handle the error: the refused write ends it. The client
// never receives a ReadyForQuery, what it did receive is well-formed, and the
// session middleware does not run unless everything before it was delivered.
// ---------------------------------------------------------------------------
func VerifH12t() {
	mw := 0
	w := &vWorld{parseMenu: 2, execMenu: 2}
	srv, err := NewServer(w.parse, MessageBufferSize(64),
		SessionMiddleware(func(ctx context.Context) (context.Context, error) { mw++; return ctx, nil }))
	vAssert("newserver-ok", err == nil)
	conn := vNewConn(vCat(vStartup(vKV([]byte("user"), []byte("u"))), vMsgBytes('Q', vCStr([]byte("q"))), vMsgBytes('X', nil)))
	conn.failWriteOnly = 1 + vChoose(vParam("WRITES", 6))
	switch vChoose(3) {
	case 0:
		conn.failWriteErr = os.ErrDeadlineExceeded
	case 1:
		conn.failWriteErr = vTimeoutErr{}
	default:
		conn.failWriteErr = errVerifIO
	}
	srv.serve(context.Background(), conn) //nolint
	types := vTypes(conn.out)
	vAssert("wire-wellformed", vWireOK(conn.out))
	if conn.failedWrites == 1 {
		vAssert("no-ReadyForQuery-after-a-refused-start-up-write", vCount(types, 'Z') == 0)
		vAssert("nothing-served-after-a-refused-start-up-write", len(w.events) == 0)
		if vCount(types, 'S') < 4 {
			vAssert("middleware-not-run-unless-the-parameters-were-delivered", mw == 0)
		}
		vReach("start-up-write-refused")
	} else {
		vAssert("healthy-start-up", vCount(types, 'Z') >= 1 && mw == 1)
	}
}
